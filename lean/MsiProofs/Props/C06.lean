import MsiModel.PkgApi
/-
C06 — a created table reopens with the schema it was created with.
The type word: `with_bitfield (builder c) (bitfield c)` gives back type, width, nullability,
primary-key and localizable flags for every storable column; unstorable definitions are
refused by `create_table`.  (The `_Validation` half — range, category, enumeration, foreign
key — and the composition with save/reopen are tied by correspondence; see DESIGN.md.)
-/
namespace MsiProofs.C06
open MsiModel

/-- the bit constants regenerated from column.rs are pairwise disjoint and the size field
is the low byte, so a width up to 255 never touches a flag -/
theorem bits_disjoint :
    Gen.colFieldSizeMask = 255 ∧
    [Gen.colValidBit, Gen.colLocalizableBit, Gen.colNonbinaryBit, Gen.colStringBit, Gen.colNullableBit,
      Gen.colPrimaryKeyBit].Pairwise (fun a b => a &&& b = 0) ∧
    (∀ b ∈ [Gen.colValidBit, Gen.colLocalizableBit, Gen.colNonbinaryBit, Gen.colStringBit,
      Gen.colNullableBit, Gen.colPrimaryKeyBit], b &&& Gen.colFieldSizeMask = 0) ∧
    Gen.colInt16Bits = 2 ∧ Gen.colInt32Bits = 4 := by
  decide

def mkCol (t : ColType) (l n k : Bool) (cat : Option Category) : Column :=
  { name := ['c'], coltype := t, isLocalizable := l, isNullable := n, isPrimaryKey := k, category := cat }

/-- the decoded column agrees with the original in everything the type word carries -/
def roundtripOk (c : Column) : Bool :=
  match Column.withBitfield { c with coltype := .int16, isLocalizable := false, isPrimaryKey := false }
      c.bitfield with
  | .ok d => d.coltype == c.coltype && d.isLocalizable == c.isLocalizable &&
      d.isNullable == c.isNullable && d.isPrimaryKey == c.isPrimaryKey
  | _ => false

def allTypes : List ColType := [.int16, .int32] ++ (List.range 256).map ColType.str
def bools : List Bool := [false, true]
def cats : List (Option Category) := [none, some .binary, some .text]

/-- exhaustive over every storable type (both integer types, all 256 string widths), every
flag combination and the categories that influence the word: 3,096 type words -/
theorem typeword_roundtrip_all :
    allTypes.all (fun t => bools.all fun l => bools.all fun n => bools.all fun k => cats.all fun cat =>
      roundtripOk (mkCol t l n k cat)) = true := by
  decide +kernel

/-- the type word does not depend on anything but type, flags and (for width 0) whether the
category is Binary; so the exhaustive check covers every storable column -/
theorem bitfield_depends (c : Column) :
    c.bitfield = (mkCol c.coltype c.isLocalizable c.isNullable c.isPrimaryKey
      (if c.category = some .binary then some .binary else none)).bitfield := by
  unfold Column.bitfield mkCol
  simp only
  cases c.coltype with
  | int16 => rfl
  | int32 => rfl
  | str n =>
    cases n with
    | zero =>
      by_cases h : c.category = some .binary
      · simp [h]
      · simp [h]
    | succ m => rfl

/-- **round trip of the type word for every storable column** -/
theorem typeword_roundtrip (c : Column)
    (hw : match c.coltype with | .str n => n ≤ 255 | _ => True) :
    ∃ d, Column.withBitfield { c with coltype := .int16, isLocalizable := false, isPrimaryKey := false }
        c.bitfield = .ok d ∧
      d.coltype = c.coltype ∧ d.isLocalizable = c.isLocalizable ∧ d.isNullable = c.isNullable ∧
      d.isPrimaryKey = c.isPrimaryKey ∧ d.name = c.name ∧ d.valueRange = c.valueRange ∧
      d.foreignKey = c.foreignKey ∧ d.category = c.category ∧ d.enumValues = c.enumValues := by
  have hall := typeword_roundtrip_all
  simp only [List.all_eq_true] at hall
  have ht : c.coltype ∈ allTypes := by
    unfold allTypes
    cases hc : c.coltype with
    | int16 => simp
    | int32 => simp
    | str n =>
      rw [hc] at hw
      simp only [List.mem_append, List.mem_map, List.mem_range]
      exact Or.inr ⟨n, by omega, rfl⟩
  have hb : ∀ b : Bool, b ∈ bools := fun b => by cases b <;> simp [bools]
  have hcat : (if c.category = some .binary then some Category.binary else none) ∈ cats := by
    split <;> simp [cats]
  have := hall c.coltype ht c.isLocalizable (hb _) c.isNullable (hb _) c.isPrimaryKey (hb _) _ hcat
  unfold roundtripOk at this
  rw [← bitfield_depends] at this
  -- the builder's other fields do not influence decoding of the word
  unfold Column.withBitfield at this ⊢
  simp only [mkCol] at this
  cases ht2 : Column.typeOfBits c.bitfield with
  | ok t =>
    simp only [ht2, bind, Res.bind, pure] at this ⊢
    simp only [Bool.and_eq_true, beq_iff_eq] at this
    exact ⟨_, rfl, this.1.1.1, this.1.1.2, this.1.2, this.2, rfl, rfl, rfl, rfl, rfl⟩
  | err k => simp [ht2, bind, Res.bind] at this
  | panic w => simp [ht2, bind, Res.bind] at this

/-- a column that is not storable is refused by `create_table`, and nothing changes -/
theorem unstorable_refused (s : Pkg) (name : List Char) (cols : List Column)
    (h : ∃ c ∈ cols, Pkg.isStorable c = false) :
    ∃ k, Pkg.createTable s name cols = (s, .err k) := by
  have hany : cols.any (fun c => !Pkg.isStorable c) = true := by
    obtain ⟨c, hc, hs⟩ := h
    exact List.any_eq_true.mpr ⟨c, hc, by simp [hs]⟩
  have : ∃ k, Pkg.createError s name cols = some k := by
    unfold Pkg.createError
    split; · exact ⟨_, rfl⟩
    split; · exact ⟨_, rfl⟩
    split; · exact ⟨_, rfl⟩
    split; · exact ⟨_, rfl⟩
    split; · exact ⟨_, rfl⟩
    split; · exact ⟨_, rfl⟩
    split; · exact ⟨_, rfl⟩
    split; · exact ⟨_, rfl⟩
    exact ⟨_, rfl⟩
  obtain ⟨k, hk⟩ := this
  exact ⟨k, by unfold Pkg.createTable; rw [hk]⟩

/-- what `is_storable` excludes: widths beyond the 8-bit field, empty or `;`-containing
enumeration values -/
theorem isStorable_iff (c : Column) :
    Pkg.isStorable c = true ↔
      (match c.coltype with | .str n => n ≤ 255 | _ => True) ∧
      ∀ v ∈ c.enumValues, v ≠ [] ∧ ';' ∉ v := by
  unfold Pkg.isStorable
  have e : Gen.colFieldSizeMask = 255 := rfl
  rw [e]
  cases c.coltype <;> simp [List.isEmpty_iff] <;> grind

example : Pkg.isStorable (mkCol (.str 4096) false false true none) = false := by decide
example : Pkg.isStorable { mkCol (.str 8) false false false none with enumValues := [['a', ';', 'b']] } = false := by decide

end MsiProofs.C06
