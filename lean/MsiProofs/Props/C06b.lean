import MsiProofs.Props.C06
import MsiProofs.Lemmas.CatalogCodec
import MsiProofs.Lemmas.CatalogOpen
import MsiProofs.Lemmas.Lifecycle
/-
C06, second half — the `_Validation` side and whole tables: the catalog rows `create_table`
writes for a storable column decode to that column (name, type and width, flags, value range,
foreign key, category, enumeration), and the loop of `open` rebuilds all columns of a table, in
order, from its `_Columns` entries and `_Validation` rows.
-/
namespace MsiProofs.C06
open MsiModel MsiModel.Pkg MsiProofs.CatalogCodec

/-- one column: builder from the `_Validation` row + type word from `_Columns` = the column -/
def column_roundtrip := @MsiProofs.CatalogCodec.column_roundtrip
/-- all columns of a table, in order -/
def openColumns_spec := @MsiProofs.CatalogCodec.openColumns_spec
/-- every category's text form reads back as that category (26 categories, regenerated tables) -/
def category_roundtrip := @MsiProofs.CatalogCodec.category_roundtrip
/-- `split(';')` undoes `join(";")` on enumeration values without `;` -/
def splitOn_intercalate := @MsiProofs.CatalogCodec.splitOn_intercalate

/-- non-vacuity: a nullable, localizable string column with range-free validation, a foreign key,
a category and an enumeration is accepted by the codec's precondition -/
def demoCol : Column :=
  { name := "Kind".toList, coltype := .str 72, isNullable := true, isLocalizable := true,
    foreignKey := some ("Other".toList, 1), category := some .identifier,
    enumValues := ["a".toList, "Zed".toList] }
example : ColOk demoCol := by
  refine ⟨by decide, ?_⟩
  intro t i h
  cases h
  decide

/-- the precondition is needed: an enumeration value containing `;` does not survive -/
example : Category.splitOn ';' (List.intercalate [';'] ["a;b".toList]) ≠ ["a;b".toList] := by decide


/-- **the catalog pass of `open`, decoded**: if the three catalog streams hold, in any row order,
the rows `create_table` writes for a name-sorted list of tables with storable columns, `open`'s
catalog pass returns exactly those tables (plus the two built-in catalog tables) -/
def openTables_of_catalog := @MsiProofs.CatalogOpen.openTables_of_catalog
/-- one table from the scanned entries -/
def decode_table := @MsiProofs.CatalogOpen.decode_table
/-- the table list is determined by its members: name-sorted lists with the same members are equal -/
def nameSorted_unique := @MsiProofs.CatalogOpen.nameSorted_unique


/-- **`create_table`, accepted, is read back by `open`**: in any state satisfying the package
invariants, after an accepted `create_table` the catalog pass of `open` returns the table list
with the new definition in it, column for column -/
def createTable_then_open := @MsiProofs.Lifecycle.createTable_then_open
/-- an accepted `create_table` extends the catalog tables by exactly the rows of the new definition -/
def createTable_full := @MsiProofs.CreateTable.createTable_full
/-- an accepted `drop_table` leaves the catalog tables holding exactly the rows of the remaining definitions -/
def dropTable_full := @MsiProofs.DropTable.dropTable_full
/-- the membership form of the catalog invariant implies the decode form -/
def synced_of_rows := @MsiProofs.CatalogRows.synced_of_rows
/-- the state `Package::create` builds has its catalog in sync (non-vacuity of the invariants) -/
def created_full := @MsiProofs.Created.created_full

end MsiProofs.C06
