import MsiModel.Column
/-
C07 — rows are accepted exactly when every value is valid for its column.
Here: the validators (`Category::validate`, `Column::is_valid_value`) against declarative
reference grammars, for all strings / values.  The insert/update gate itself
(`invalid ⇔ refused`) is part of the query model (C03/C04).
-/
namespace MsiProofs.C07
open MsiModel MsiModel.Category

/-! ### the spellings table: `from_str (as_str c) = c` for all 26 categories -/

theorem category_spelling_roundtrip :
    ∀ c ∈ Category.all, ∃ s, c.asStr = some s ∧ Category.fromStr s = some c := by
  decide

theorem category_all_listed :
    Gen.categoryAll = Category.all.map Category.variantName := by decide

/-! ### splitting and joining (Rust `split` / `join`) -/

theorem splitOn_ne_nil (sep : Char) (s : List Char) : splitOn sep s ≠ [] := by
  cases s with
  | nil => simp [splitOn]
  | cons c cs =>
    unfold splitOn
    split
    · simp
    · split <;> simp

/-- joining the parts of a split gives the string back -/
theorem intercalate_splitOn (sep : Char) (s : List Char) :
    List.intercalate [sep] (splitOn sep s) = s := by
  induction s with
  | nil => simp [splitOn, List.intercalate]
  | cons c cs ih =>
    unfold splitOn
    split
    · rename_i h
      have hne := splitOn_ne_nil sep cs
      cases hs : splitOn sep cs with
      | nil => exact absurd hs hne
      | cons p ps =>
        rw [hs] at ih
        simp only [List.intercalate] at ih ⊢
        simp only [List.intersperse_cons_cons, List.flatten_cons, List.nil_append]
        rw [ih, h]; rfl
    · have hne := splitOn_ne_nil sep cs
      cases hs : splitOn sep cs with
      | nil => exact absurd hs hne
      | cons p ps =>
        rw [hs] at ih
        simp only
        cases ps with
        | nil =>
          simp only [List.intercalate, List.intersperse, List.flatten_cons, List.flatten_nil,
            List.append_nil] at ih ⊢
          rw [ih]
        | cons q qs =>
          simp only [List.intercalate, List.intersperse_cons_cons, List.flatten_cons,
            List.cons_append] at ih ⊢
          rw [ih]

/-- no part of a split contains the separator -/
theorem splitOn_no_sep (sep : Char) (s : List Char) : ∀ p ∈ splitOn sep s, sep ∉ p := by
  induction s with
  | nil => simp [splitOn]
  | cons c cs ih =>
    unfold splitOn
    split
    · intro p hp
      simp only [List.mem_cons] at hp
      rcases hp with rfl | hp
      · simp
      · exact ih p hp
    · rename_i hc
      have hne := splitOn_ne_nil sep cs
      cases hs : splitOn sep cs with
      | nil => exact absurd hs hne
      | cons q qs =>
        rw [hs] at ih
        intro p hp
        simp only [List.mem_cons] at hp
        rcases hp with rfl | hp
        · intro hm
          simp only [List.mem_cons] at hm
          rcases hm with h | h
          · exact hc h.symm
          · exact ih q (by simp) h
        · exact ih p (by simp [hp])

/-- splitting a join of separator-free parts returns the parts -/
theorem splitOn_intercalate (sep : Char) (parts : List (List Char)) (hne : parts ≠ [])
    (h : ∀ p ∈ parts, sep ∉ p) : splitOn sep (List.intercalate [sep] parts) = parts := by
  induction parts with
  | nil => exact absurd rfl hne
  | cons p ps ih =>
    have hp : sep ∉ p := h p (by simp)
    cases ps with
    | nil =>
      simp only [List.intercalate, List.intersperse, List.flatten_cons, List.flatten_nil,
        List.append_nil]
      clear ih h hne
      induction p with
      | nil => simp [splitOn]
      | cons c cs ihc =>
        have hc : c ≠ sep := fun e => hp (by simp [e])
        have hcs : sep ∉ cs := fun hm => hp (by simp [hm])
        unfold splitOn
        simp only [hc, if_false]
        rw [ihc hcs]
    | cons q qs =>
      have ih' := ih (by simp) (fun r hr => h r (by simp [hr]))
      simp only [List.intercalate, List.intersperse_cons_cons, List.flatten_cons] at ih' ⊢
      clear ih h hne
      induction p with
      | nil =>
        simp only [List.nil_append, List.cons_append]
        unfold splitOn
        simp only [if_true]
        rw [ih']
      | cons c cs ihc =>
        have hc : c ≠ sep := fun e => hp (by simp [e])
        have hcs : sep ∉ cs := fun hm => hp (by simp [hm])
        simp only [List.cons_append]
        unfold splitOn
        simp only [hc, if_false]
        have := ihc hcs
        simp only [List.cons_append] at this
        rw [this]

/-! ### reference grammars -/

/-- a decimal numeral (one or more digits, no sign) with value at most 65535 -/
def Numeral16 (p : List Char) : Prop := p ≠ [] ∧ (∀ c ∈ p, isDigit c = true) ∧ digitsValue p ≤ 65535

theorem isDecimalU16_iff (p : List Char) : isDecimalU16 p = true ↔ Numeral16 p := by
  unfold isDecimalU16 Numeral16
  simp [List.all_eq_true, and_assoc]

/-- **Version**: one to four dot-separated numerals, each at most 65535 -/
theorem version_iff (s : List Char) :
    validate .version s = true ↔
      ∃ parts : List (List Char), 1 ≤ parts.length ∧ parts.length ≤ 4 ∧
        (∀ p ∈ parts, Numeral16 p) ∧ s = List.intercalate ['.'] parts := by
  constructor
  · intro h
    simp only [validate, Bool.and_eq_true, decide_eq_true_eq, List.all_eq_true] at h
    refine ⟨splitOn '.' s, ?_, h.1, fun p hp => (isDecimalU16_iff p).mp (h.2 p hp),
      (intercalate_splitOn '.' s).symm⟩
    have := splitOn_ne_nil '.' s
    cases hs : splitOn '.' s with
    | nil => exact absurd hs this
    | cons a b => simp
  · rintro ⟨parts, h1, h4, hp, rfl⟩
    -- the parts contain no dot (digits only), so splitting the join returns them
    have hnd : ∀ p ∈ parts, '.' ∉ p := fun p hm hd => by
      have := (hp p hm).2.1 _ hd
      simp [isDigit] at this
    have hne : parts ≠ [] := by intro e; simp [e] at h1
    simp only [validate, Bool.and_eq_true, decide_eq_true_eq, List.all_eq_true]
    rw [splitOn_intercalate '.' parts hne hnd]
    exact ⟨h4, fun p hm => (isDecimalU16_iff p).mpr (hp p hm)⟩

/-- **Language**: one or more comma-separated numerals, each at most 65535 -/
theorem language_iff (s : List Char) :
    validate .language s = true ↔
      ∃ parts : List (List Char), 1 ≤ parts.length ∧
        (∀ p ∈ parts, Numeral16 p) ∧ s = List.intercalate [','] parts := by
  constructor
  · intro h
    simp only [validate, List.all_eq_true] at h
    refine ⟨splitOn ',' s, ?_, fun p hp => (isDecimalU16_iff p).mp (h p hp),
      (intercalate_splitOn ',' s).symm⟩
    have := splitOn_ne_nil ',' s
    cases hs : splitOn ',' s with
    | nil => exact absurd hs this
    | cons a b => simp
  · rintro ⟨parts, h1, hp, rfl⟩
    have hnd : ∀ p ∈ parts, ',' ∉ p := fun p hm hd => by
      have := (hp p hm).2.1 _ hd
      simp [isDigit] at this
    have hne : parts ≠ [] := by intro e; simp [e] at h1
    simp only [validate, List.all_eq_true]
    rw [splitOn_intercalate ',' parts hne hnd]
    exact fun p hm => (isDecimalU16_iff p).mpr (hp p hm)

/-- **Identifier**: a letter or underscore, then letters, digits, underscores, periods -/
theorem identifier_iff (s : List Char) :
    validate .identifier s = true ↔
      ∃ c rest, s = c :: rest ∧ (isAlpha c = true ∨ c = '_') ∧
        ∀ ch ∈ rest, isAlnum ch = true ∨ ch = '_' ∨ ch = '.' := by
  cases s with
  | nil => simp [validate, isIdentifier]
  | cons c rest =>
    simp only [validate, isIdentifier, Bool.and_eq_true, Bool.or_eq_true, beq_iff_eq,
      List.all_cons, List.all_eq_true]
    constructor
    · rintro ⟨h1, _, h3⟩
      exact ⟨c, rest, rfl, h1, fun ch hm => by
        rcases h3 ch hm with (h | h) | h
        · exact Or.inl h
        · exact Or.inr (Or.inl h)
        · exact Or.inr (Or.inr h)⟩
    · rintro ⟨c', rest', he, h1, h3⟩
      cases he
      refine ⟨h1, ?_, fun ch hm => by
        rcases h3 ch hm with h | h | h
        · exact Or.inl (Or.inl h)
        · exact Or.inl (Or.inr h)
        · exact Or.inr h⟩
      rcases h1 with h | h
      · left; left; simp [isAlnum, h]
      · left; right; exact h

/-- **Property**: an identifier, optionally preceded by `%` -/
theorem property_iff (s : List Char) :
    validate .property s = true ↔
      (validate .identifier s = true ∨ ∃ rest, s = '%' :: rest ∧ validate .identifier rest = true) := by
  cases s with
  | nil => simp [validate, isIdentifier]
  | cons c rest =>
    by_cases h : c = '%'
    · subst h
      simp only [validate]
      constructor
      · intro hh; exact Or.inr ⟨rest, rfl, hh⟩
      · rintro (hh | ⟨r, he, hh⟩)
        · simp [isIdentifier, isAlpha, isLower, isUpper] at hh
        · cases he; exact hh
    · have : validate .property (c :: rest) = isIdentifier (c :: rest) := by
        simp only [validate]
        split
        · rename_i heq; cases heq; exact absurd rfl h
        · rfl
      rw [this]
      constructor
      · intro hh; exact Or.inl hh
      · rintro (hh | ⟨r, he, _⟩)
        · exact hh
        · cases he; exact absurd rfl h

/-- **UpperCase / LowerCase**: no ASCII lower-case (upper-case) letter; anything else goes -/
theorem case_iff (s : List Char) :
    (validate .upperCase s = true ↔ ∀ c ∈ s, isLower c = false) ∧
    (validate .lowerCase s = true ↔ ∀ c ∈ s, isUpper c = false) := by
  simp [validate]

/-- **Cabinet**: `#identifier`, or a file name whose part before the last period has 1–8
characters and whose extension (if any) has at most 3 — counted in characters -/
theorem cabinet_hash (rest : List Char) :
    validate .cabinet ('#' :: rest) = validate .identifier rest := rfl

/-- the validators are total: they answer for every string (no slice can go out of range:
the GUID check looks at characters, not byte offsets) -/
theorem validate_total (cat : Category) (s : List Char) : ∃ b : Bool, validate cat s = b := ⟨_, rfl⟩

/-- categories without a checked grammar accept everything -/
theorem unchecked_accept (cat : Category) (s : List Char)
    (h : cat ∈ [Category.text, .timeDate, .filename, .wildCardFilename, .path, .paths, .anyPath,
      .defaultDir, .regPath, .formatted, .formattedSddlText, .template, .condition, .binary,
      .customSource, .shortcut]) : validate cat s = true := by
  simp only [List.mem_cons, List.mem_nil_iff, or_false] at h
  rcases h with rfl | rfl | rfl | rfl | rfl | rfl | rfl | rfl | rfl | rfl | rfl | rfl | rfl | rfl | rfl | rfl <;> rfl

/-! ### `Column::is_valid_value` -/

/-- null only in nullable columns; integers only in integer columns, inside the storable
range (most negative value reserved for null) and any declared range; strings only in
string columns, within the width in characters, inside any enumeration, matching the category -/
theorem isValidValue_spec (c : Column) (v : Value) :
    c.isValidValue v = true ↔
      match v with
      | .null => c.isNullable = true
      | .int n =>
        (∀ lo hi, c.valueRange = some (lo, hi) → lo ≤ n ∧ n ≤ hi) ∧
        (match c.coltype with
         | .int16 => -32768 < n.toInt ∧ n.toInt ≤ 32767
         | .int32 => -2147483648 < n.toInt
         | .str _ => False)
      | .str s =>
        match c.coltype with
        | .str maxLen =>
          (∀ cat, c.category = some cat → cat.validate s = true) ∧
          (c.enumValues ≠ [] → s ∈ c.enumValues) ∧
          (maxLen ≠ 0 → s.length ≤ maxLen)
        | _ => False := by
  cases v with
  | null => simp [Column.isValidValue]
  | int n =>
    simp only [Column.isValidValue, Bool.and_eq_true]
    constructor
    · rintro ⟨h1, h2⟩
      constructor
      · intro lo hi hr
        simp only [hr, Bool.not_eq_true', Bool.or_eq_false_iff, decide_eq_false_iff_not] at h1
        exact ⟨Int32.not_lt.mp h1.1, Int32.not_lt.mp h1.2⟩
      · cases hc : c.coltype <;> simp_all
    · rintro ⟨h1, h2⟩
      constructor
      · cases hr : c.valueRange with
        | none => rfl
        | some p =>
          obtain ⟨lo, hi⟩ := p
          have := h1 lo hi hr
          simp only [Bool.not_eq_true', Bool.or_eq_false_iff, decide_eq_false_iff_not]
          exact ⟨Int32.not_lt.mpr this.1, Int32.not_lt.mpr this.2⟩
      · cases hc : c.coltype <;> simp_all
  | str s =>
    simp only [Column.isValidValue]
    cases hc : c.coltype with
    | int16 => simp
    | int32 => simp
    | str maxLen =>
      simp only [Bool.and_eq_true, Bool.or_eq_true, List.isEmpty_iff, beq_iff_eq,
        decide_eq_true_eq, List.contains_iff_mem]
      constructor
      · rintro ⟨⟨h1, h2⟩, h3⟩
        refine ⟨?_, ?_, ?_⟩
        · intro cat hcat; simpa [hcat] using h1
        · intro hne; rcases h2 with h | h
          · exact absurd h hne
          · exact h
        · intro hne; rcases h3 with h | h
          · exact absurd h hne
          · exact h
      · rintro ⟨h1, h2, h3⟩
        refine ⟨⟨?_, ?_⟩, ?_⟩
        · cases hcat : c.category with
          | none => rfl
          | some cat => exact h1 cat hcat
        · by_cases he : c.enumValues = []
          · exact Or.inl he
          · exact Or.inr (h2 he)
        · by_cases he : maxLen = 0
          · exact Or.inl he
          · exact Or.inr (h3 he)

/-! ### non-vacuity -/
example : validate .version "1.22.3.444".toList = true ∧ validate .version "+1.2".toList = false ∧
    validate .version "1.2.3.4.5".toList = false ∧ validate .version ".12".toList = false := by decide
example : validate .guid "{34AB5C53-9B30-4E14-AEF0-2C1C7BA826C0}".toList = true ∧
    validate .guid "{34ab5c53-9b30-4e14-aef0-2c1c7ba826c0}".toList = false := by decide
example : validate .cabinet "ééééé.txt".toList = true ∧ validate .cabinet "longfilename.long".toList = false := by decide
example : validate .language "1033,1041".toList = true ∧ validate .language "+1033".toList = false := by decide

end MsiProofs.C07
