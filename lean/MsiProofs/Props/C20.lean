import MsiModel.PkgApi
/-
C20 — capacity limits are enforced as errors, and symmetrically.
-/
namespace MsiProofs.C20
open MsiModel MsiModel.Pkg

/-- the limits as the code states them (regenerated) -/
theorem limits : Gen.maxTableColumns = 32 ∧ Gen.maxTableRows = 65536 ∧ Gen.maxStringRef = 16777215 ∧
    Gen.maxShortRefStrings = 65535 ∧ Gen.snMaxNameLen = 31 := by decide

/-- **too many columns**: refused, and the package is unchanged -/
theorem too_many_columns (s : Pkg) (name : List Char) (cols : List Column)
    (h : cols.length > Gen.maxTableColumns) : ∃ k, createTable s name cols = (s, .err k) := by
  have : ∃ k, createError s name cols = some k := by
    unfold createError
    split; · exact ⟨_, rfl⟩
    split; · exact ⟨_, rfl⟩
    split; · exact ⟨_, rfl⟩
    exact ⟨_, rfl⟩
  obtain ⟨k, hk⟩ := this
  exact ⟨k, by unfold createTable; rw [hk]⟩

/-- **row limit, writer side**: an insert that would bring the table beyond what the reader
accepts is an error and leaves the state as it was (the reader's bound is the same constant) -/
theorem row_limit_insert (s : Pkg) (t : Table) (tname : List Char) (rows : List (List Value))
    (existing : List (List Cell)) (m : RowMap)
    (ht : s.findTable tname = some t)
    (hlen : ¬ (rows.any fun r => r.length ≠ t.columns.length) = true)
    (hval : ¬ (rows.any fun r => (t.columns.zip r).any fun (c, v) => !c.isValidValue v) = true)
    (hload : s.loadRows t = .ok existing)
    (hmap : loadMap s.pool t.keyIndices existing [] = some m)
    (hnew : checkNew t.keyIndices m (rows.map fun r => r.map storable) [] = none)
    (hbig : m.length + rows.length > Gen.maxTableRows) :
    insertExec s tname rows = (s, .err .invalidInput) := by
  unfold insertExec
  simp only [ht, hlen, hval, hload, hmap, hnew, List.length_map, hbig, if_true]
  simp

/-- **row limit, reader side**: a stream with more rows than the limit is refused -/
theorem row_limit_read (t : Table) (data : Bytes.Bytes)
    (h : t.rowSize > 0 ∧ data.length / t.rowSize > Gen.maxTableRows) :
    t.readRows data = .err .invalidData := by
  unfold Table.readRows
  simp [h.1, h.2]

/-- **string limit**: `incref` panics only when the pool is at the capacity of its reference
width; strictly below it a new string is always accepted (the panic at the limit itself is
a recorded finding) -/
theorem incref_below_limit (p : Pool) (s : List Char)
    (h : p.strings.length < Gen.maxShortRefStrings) : ∃ r, p.incref s = .ok r := by
  unfold Pool.incref
  split
  · exact ⟨_, rfl⟩
  · have e1 : Gen.maxShortRefStrings = 65535 := rfl
    have e2 : Gen.maxStringRef = 16777215 := rfl
    rw [e1] at h
    rw [e1, e2]
    have h1 : ¬ (p.strings.length ≥ 65535 ∧ (!p.longRefs) = true) := by omega
    have h2 : ¬ (p.strings.length ≥ 16777215) := by omega
    simp only [h1, h2, if_false]
    exact ⟨_, rfl⟩

/-- the recorded finding, as a theorem about the model: at the limit a fresh string panics -/
theorem incref_at_limit_panics (p : Pool) (s : List Char)
    (hfull : p.strings.length ≥ Gen.maxShortRefStrings) (hshort : p.longRefs = false)
    (hnone : Pool.increfScan s p.strings 0 = none) : ∃ w, p.incref s = .panic w := by
  unfold Pool.incref
  simp [hnone, hfull, hshort]

/-- **names**: a table name is accepted only if it fits the container (31 UTF-16 units once
packed, marker included) -/
theorem table_name_fits (n : List Char) (h : Table.isValidName n = true) :
    StreamName.utf16Len (StreamName.encode n true) ≤ 31 := by
  unfold Table.isValidName at h
  simp only [Bool.and_eq_true] at h
  have h2 := h.2
  unfold StreamName.isValid at h2
  split at h2
  · cases h2
  · split at h2
    · cases h2
    · have e : Gen.snMaxNameLen = 31 := rfl
      rw [e] at h2
      simpa using h2

end MsiProofs.C20
