import MsiProofs.Props.C11b
import MsiProofs.Lemmas.StreamsListing
/-
C11, third part — the stream LISTING over a whole life.  `streams()` lists exactly the accepted
names that were written and not removed since, each once, in the order of first writing; table
streams, the string pool, the summary and the signature streams are never listed; and no other
call of the API (statements, `create_table`, `drop_table`, summary and code-page setters, saves,
reopening) changes the listing.
-/
namespace MsiProofs.C11
open MsiModel MsiModel.Pkg MsiProofs.StreamsListing MsiProofs.Lifecycle

/-- the listing of a canonical container has no duplicates -/
def listing_nodup := @MsiProofs.StreamsListing.listing_nodup
/-- an accepted name is listed exactly when the container holds its stream -/
def listed_iff_exists := @MsiProofs.StreamsListing.listed_iff_exists
/-- **`write_stream`**: an accepted call lists the name (once), a refused one changes nothing -/
def streams_write := @MsiProofs.StreamsListing.streams_write
/-- **`remove_stream`**: an accepted call removes exactly that name -/
def streams_remove := @MsiProofs.StreamsListing.streams_remove
/-- writing a table's rows changes nothing in the listing -/
def streams_storeRows := @MsiProofs.StreamsListing.streams_storeRows
def createTable_streams := @MsiProofs.StreamsListing.createTable_streams
def dropTable_streams := @MsiProofs.StreamsListing.dropTable_streams
/-- a save changes nothing in the listing (summary and pool streams are never listed) -/
def finish_streams := @MsiProofs.StreamsListing.finish_streams
/-- **one call**: the listing after any call of the API is `specNames` of the listing before -/
def step_streams := @MsiProofs.StreamsListing.step_streams
/-- **any history** from a state with the package invariants -/
def history_streams := @MsiProofs.StreamsListing.history_streams
/-- **any history from a freshly created package**: the listing is the specification's -/
def created_streams := @MsiProofs.StreamsListing.created_streams

/-- the specification on a concrete history: two names written, the first overwritten and then
removed, a refused name, table calls in between -- only the second name is listed (non-vacuity of
`specAll`; kernel-evaluated) -/
example : specAll [] [.writeStream "logo".toList [1], .writeStream "Icon.1".toList [2, 3],
    .create "T".toList [], .writeStream "logo".toList [], .writeStream "a/b".toList [7],
    .save, .removeStream "logo".toList, .removeSignature] = ["Icon.1".toList] := by decide +kernel

end MsiProofs.C11
