import MsiModel.Timestamp
/-
C18 — creation times convert to and from Windows timestamps without drift.
All statements are over every `Int` (every system time) / every tick value; proofs are
linear integer arithmetic over the constants regenerated from timestamp.rs.
-/
namespace MsiProofs.C18
open MsiModel MsiModel.Timestamp

/-- the constants the proofs below are about are the documented ones (re-decided each run:
a changed constant in the source makes this fail and the property is re-examined) -/
theorem constants :
    Gen.unixEpochTicks = 116444736000000000 ∧ Gen.ticksPerSec = 10000000 ∧ Gen.nanosPerTick = 100 ∧
    Gen.backTicksPerSecDiv = 10000000 ∧ Gen.backTicksPerSecMod = 10000000 ∧ Gen.backNanosPerTick = 100 := by
  decide

theorem deltaToDuration_eq (d : Nat) :
    deltaToDuration d = some (d / 10000000, d % 10000000 * 100) := by
  unfold deltaToDuration
  have e2 : Gen.backTicksPerSecMod = 10000000 := rfl
  have e3 : Gen.backTicksPerSecDiv = 10000000 := rfl
  have e4 : Gen.backNanosPerTick = 100 := rfl
  rw [e2, e3, e4]
  have h0 : d % 10000000 % 4294967296 = d % 10000000 := by omega
  have h1 : d % 10000000 * 100 < 4294967296 := by omega
  simp only [h0, h1, if_true]

/-- `system_time_from_timestamp` never panics, never needs its `UNIX_EPOCH` fallback, and
is exactly `(k - epoch) * 100 ns` -/
theorem toSystemTime_total (k : Nat) (hk : k ≤ u64Max) :
    ∃ t : Int, toSystemTime k = some t ∧ t = (k : Int) * 100 - 11644473600000000000 := by
  unfold toSystemTime
  have e1 : Gen.unixEpochTicks = 116444736000000000 := rfl
  have e5 : u64Max = 18446744073709551615 := rfl
  have e6 : i64Max = 9223372036854775807 := rfl
  have e7 : nsPerSec = 1000000000 := rfl
  rw [e5] at hk
  rw [e1, e6, e7]
  split
  · rename_i h
    rw [deltaToDuration_eq]
    simp only
    have h2 : ¬ ((k - 116444736000000000) / 10000000 +
        (k - 116444736000000000) % 10000000 * 100 / 1000000000 > 9223372036854775807) := by
      omega
    simp only [h2, if_false]
    refine ⟨_, rfl, ?_⟩
    omega
  · rename_i h
    rw [deltaToDuration_eq]
    simp only
    have h2 : ¬ ((116444736000000000 - k) / 10000000 +
        (116444736000000000 - k) % 10000000 * 100 / 1000000000 > 9223372036854775807 + 1) := by
      omega
    simp only [h2, if_false]
    refine ⟨_, rfl, ?_⟩
    omega

theorem key (d : Nat) : d / 1000000000 * 10000000 + d % 1000000000 / 100 = d / 100 := by omega
theorem mins (a b E U : Nat) : min (E + min (min a U + b) U) U = min (E + (a + b)) U := by omega
theorem mins2 (a b E U : Nat) : E - min (min a U + b) U = E - min (a + b) U := by omega

/-- closed form of `timestamp_from_system_time`, at or after the Unix epoch -/
theorem fromSystemTime_nonneg (t : Int) (h : 0 ≤ t) :
    fromSystemTime t = min (116444736000000000 + t.toNat / 100) u64Max := by
  unfold fromSystemTime durationToDelta satAdd satMul
  have e1 : Gen.unixEpochTicks = 116444736000000000 := rfl
  have e2 : Gen.ticksPerSec = 10000000 := rfl
  have e3 : Gen.nanosPerTick = 100 := rfl
  have e7 : nsPerSec = 1000000000 := rfl
  rw [e1, e2, e3, e7, if_pos h]
  dsimp only
  rw [mins, key]

/-- ... and before it (`saturating_sub`) -/
theorem fromSystemTime_neg (t : Int) (h : ¬ 0 ≤ t) :
    fromSystemTime t = 116444736000000000 - min ((-t).toNat / 100) u64Max := by
  unfold fromSystemTime durationToDelta satAdd satMul
  have e1 : Gen.unixEpochTicks = 116444736000000000 := rfl
  have e2 : Gen.ticksPerSec = 10000000 := rfl
  have e3 : Gen.nanosPerTick = 100 := rfl
  have e7 : nsPerSec = 1000000000 := rfl
  rw [e1, e2, e3, e7, if_neg h]
  dsimp only
  rw [mins2, key]

theorem fromSystemTime_le (t : Int) : fromSystemTime t ≤ u64Max := by
  by_cases h : 0 ≤ t
  · rw [fromSystemTime_nonneg t h]; omega
  · rw [fromSystemTime_neg t h]; unfold u64Max; omega

theorem minNs_eq : minNs = -11644473600000000000 := by decide
theorem maxNs_eq : maxNs = 1833029933770955161500 := by decide

/-- **within resolution**: any time between 1601 and the 64-bit tick maximum (year 60056)
comes back within 100 ns of what was set -/
theorem within_resolution (t : Int) (h1 : minNs ≤ t) (h2 : t ≤ maxNs + 99) :
    ∃ r : Int, toSystemTime (fromSystemTime t) = some r ∧ (t - r < 100 ∧ r - t < 100) := by
  obtain ⟨r, hr, hv⟩ := toSystemTime_total _ (fromSystemTime_le t)
  refine ⟨r, hr, ?_⟩
  rw [minNs_eq] at h1
  rw [maxNs_eq] at h2
  by_cases h : 0 ≤ t
  · rw [fromSystemTime_nonneg t h] at hv
    have e5 : u64Max = 18446744073709551615 := rfl
    rw [e5] at hv
    generalize hq : t.toNat / 100 = q at hv
    have : q * 100 ≤ t.toNat ∧ t.toNat < q * 100 + 100 := by omega
    omega
  · rw [fromSystemTime_neg t h] at hv
    have e5 : u64Max = 18446744073709551615 := rfl
    rw [e5] at hv
    generalize hq : (-t).toNat / 100 = q at hv
    have : q * 100 ≤ (-t).toNat ∧ (-t).toNat < q * 100 + 100 := by omega
    omega

/-- **ticks are fixed points**: converting a timestamp to a system time and back is the
identity, so setting a returned creation time again returns it unchanged -/
theorem ticks_fixed (k : Nat) (hk : k ≤ u64Max) :
    ∃ t, toSystemTime k = some t ∧ fromSystemTime t = k := by
  obtain ⟨t, ht, hv⟩ := toSystemTime_total k hk
  refine ⟨t, ht, ?_⟩
  have e5 : u64Max = 18446744073709551615 := rfl
  rw [e5] at hk
  by_cases h : 0 ≤ t
  · rw [fromSystemTime_nonneg t h, e5]
    have : t.toNat / 100 = k - 116444736000000000 := by omega
    rw [this]; omega
  · rw [fromSystemTime_neg t h, e5]
    have : (-t).toNat / 100 = 116444736000000000 - k := by omega
    rw [this]; omega

theorem set_get_idempotent (t : Int) :
    ∃ r, toSystemTime (fromSystemTime t) = some r ∧ fromSystemTime r = fromSystemTime t :=
  ticks_fixed _ (fromSystemTime_le t)

/-- **monotone** -/
theorem monotone (t₁ t₂ : Int) (h : t₁ ≤ t₂) : fromSystemTime t₁ ≤ fromSystemTime t₂ := by
  have e5 : u64Max = 18446744073709551615 := rfl
  by_cases h1 : 0 ≤ t₁ <;> by_cases h2 : 0 ≤ t₂
  · rw [fromSystemTime_nonneg _ h1, fromSystemTime_nonneg _ h2]
    have : t₁.toNat / 100 ≤ t₂.toNat / 100 := Nat.div_le_div_right (by omega)
    omega
  · omega
  · rw [fromSystemTime_neg _ h1, fromSystemTime_nonneg _ h2, e5]; omega
  · rw [fromSystemTime_neg _ h1, fromSystemTime_neg _ h2]
    have : (-t₂).toNat / 100 ≤ (-t₁).toNat / 100 := Nat.div_le_div_right (by omega)
    omega

theorem toSystemTime_monotone (k₁ k₂ : Nat) (h : k₁ ≤ k₂) (h2 : k₂ ≤ u64Max) :
    ∃ a b, toSystemTime k₁ = some a ∧ toSystemTime k₂ = some b ∧ a ≤ b := by
  obtain ⟨a, ha, hva⟩ := toSystemTime_total k₁ (by omega)
  obtain ⟨b, hb, hvb⟩ := toSystemTime_total k₂ h2
  exact ⟨a, b, ha, hb, by omega⟩

/-- **saturation** at both ends instead of panicking -/
theorem saturates_low (t : Int) (h : t ≤ minNs) : fromSystemTime t = 0 := by
  rw [minNs_eq] at h
  have e5 : u64Max = 18446744073709551615 := rfl
  rw [fromSystemTime_neg t (by omega), e5]
  have : 116444736000000000 ≤ (-t).toNat / 100 := by omega
  omega

theorem saturates_high (t : Int) (h : maxNs ≤ t) : fromSystemTime t = u64Max := by
  rw [maxNs_eq] at h
  have e5 : u64Max = 18446744073709551615 := rfl
  rw [fromSystemTime_nonneg t (by omega), e5]
  have : 18330299337709551615 ≤ t.toNat / 100 := by omega
  omega

/-- non-vacuity: the range hypothesis is satisfiable on both sides of the epoch -/
example : minNs ≤ (-150 : Int) ∧ (-150 : Int) ≤ maxNs + 99 := by decide
example : fromSystemTime (-150) = 116444735999999999 ∧ toSystemTime 116444735999999999 = some (-100) := by decide
example : fromSystemTime 1489862796000000000 = 131343363960000000 := by decide

end MsiProofs.C18
