import MsiModel.Expr
import MsiProofs.Lemmas.ExprRead
import MsiProofs.Lemmas.ExprLex
/-
C19 — printed queries mean what the query objects mean.
-/
namespace MsiProofs.C19
open MsiModel

/-- the precedence ladder of the project's query grammar, as listed in the property:
OR < AND < NOT < comparison < | < ^ < & < shifts < + - < * / < unary minus and ~ -/
def ladderBin : BinOp → Nat
  | .eq | .ne | .lt | .le | .gt | .ge => 4
  | .bitOr => 5 | .bitXor => 6 | .bitAnd => 7
  | .shl | .shr => 8 | .add | .sub => 9 | .mul | .div => 10
def ladderUn : UnOp → Nat
  | .boolNot => 3 | .neg | .bitNot => 11
def ladderAnd : Nat := 2
def ladderOr : Nat := 1

/-- the precedences regenerated from `BinOp::precedence` / `UnOp::precedence` / the AND and OR
arms of `format_with_precedence` are the ladder's -/
theorem gen_table_agrees :
    (∀ op : BinOp, op.prec = ladderBin op) ∧ (∀ op : UnOp, op.prec = ladderUn op) ∧
    Gen.precAnd = ladderAnd ∧ Gen.precOr = ladderOr := by
  refine ⟨fun op => by cases op <;> rfl, fun op => by cases op <;> rfl, rfl, rfl⟩

/-- the translator recognised the printer's shape (left operand at the operator's level,
right operand one higher, parentheses iff looser than the context) -/
theorem printer_shape : Gen.printerShapeRecognised = true := rfl

/-- the operator spellings are the grammar's tokens -/
theorem spellings :
    Gen.textEq = " = " ∧ Gen.textNe = " != " ∧ Gen.textLt = " < " ∧ Gen.textLe = " <= " ∧
    Gen.textGt = " > " ∧ Gen.textGe = " >= " ∧ Gen.textAdd = " + " ∧ Gen.textSub = " - " ∧
    Gen.textMul = " * " ∧ Gen.textDiv = " / " ∧ Gen.textBitAnd = " & " ∧ Gen.textBitOr = " | " ∧
    Gen.textBitXor = " ^ " ∧ Gen.textShl = " << " ∧ Gen.textShr = " >> " ∧ Gen.textNeg = "-" ∧
    Gen.textBitNot = "~" ∧ Gen.textBoolNot = "NOT " ∧ Gen.textAnd = " AND " ∧ Gen.textOr = " OR " := by
  decide


/-! ### the reader round trip

`toks e p` is the token form of `format_with_precedence` (same recursion, same regenerated
precedences); `render_toks` shows it spells exactly the printed text (`Ast.fmt`, which is what
the correspondence check diffs against the real `to_string()`), and `read_print` shows that a
precedence-climbing reader using the grammar's ladder — written out independently of the
generated tables — reads those tokens back as the tree they were printed from, for every tree:
no bound on depth, every parent/child operator pair on either side. -/

/-- the token form spells the printed text -/
def render_toks := @MsiProofs.ExprRead.render_toks
/-- **read (print e) = e** -/
def read_print := @MsiProofs.ExprRead.readExpr_toks
/-- the same in any context (used for `WHERE`/`ON` clauses inside queries) -/
def read_print_in_context := @MsiProofs.ExprRead.parse_toks_in_context

/-- hence the expression read back evaluates identically on every row and names the same
columns and literals -/
theorem read_print_eval (e e' : Ast) (h : readExpr (toks e 0) = some e') (r : Row) :
    e'.eval r = e.eval r ∧ e'.columns = e.columns := by
  rw [read_print e] at h
  cases h
  exact ⟨rfl, rfl⟩

/-- the parenthesisation is needed, not just sufficient: without the parentheses the reader
returns a different tree (so a printer that drops them is caught by the theorem above) -/
example : readExpr [.ident ['a'], .op .mul, .ident ['b'], .op .add, .ident ['c']]
    = some (.bin .add (.bin .mul (.col ['a']) (.col ['b'])) (.col ['c'])) := by decide
example : toks (.bin .mul (.col ['a']) (.bin .add (.col ['b']) (.col ['c']))) 0
    = [.ident ['a'], .op .mul, .lp, .ident ['b'], .op .add, .ident ['c'], .rp] := by decide
example : toks (.bin .eq (.un .boolNot (.col ['a'])) (.col ['b'])) 0
    = [.lp, .not, .ident ['a'], .rp, .op .eq, .ident ['b']] := by decide


/-! ### from characters

`readText` = the grammar's lexical rules (`MsiModel/ExprLex.lean`: blanks, identifiers that are
not keywords, integers with an optional sign directly in front, quoted strings without escapes,
two-character operators) followed by the ladder reader.  The domain (`Good`): column names are
identifiers of the grammar, and a prefix minus is not applied directly to a non-negative integer
literal — which the API's constructors never produce (`good_build`), since they fold that case. -/

/-- **readText (to_string e) = e** for every expression in the domain whose text needs no escapes -/
def read_text_print := @MsiProofs.ExprLex.readText_fmt
/-- the lexer yields exactly the printer's token form -/
def lex_print := @MsiProofs.ExprLex.lex_fmtP
/-- expressions built through the API are in the domain -/
def good_build := @MsiProofs.ExprLex.good_build

/-- the statement of the property for expressions, end to end on the model: build any tree of
constructor calls over identifier column names; if its text prints without escapes, reading that
text gives back the built expression, which therefore evaluates identically on every row -/
theorem printed_means_same (e : Ast) (hc : ∀ n ∈ e.columns, MsiProofs.ExprLex.GoodIdent n)
    (s : List Char) (hs : e.build.fmt = some s) :
    ∃ e', readText s = some e' ∧ (∀ r : Row, e'.eval r = e.build.eval r) ∧ e'.columns = e.build.columns :=
  ⟨e.build, read_text_print e.build (good_build e hc) s hs, fun _ => rfl, rfl⟩

/-- the domain restriction is needed: `-` applied to the literal 5 prints like the literal -5 -/
example : (Ast.un .neg (.lit (.int 5))).fmt = (Ast.lit (.int (-5))).fmt := by decide
/-- non-vacuity: a nested expression in the domain, its text, and the text read back -/
example : MsiProofs.ExprLex.Good
    (.bin .mul (.col ['a']) (.bin .sub (.un .neg (.col ['b', '.', 'c'])) (.lit (.int (-5))))) :=
  ⟨⟨_, _, rfl, by decide, by decide, by decide⟩,
   ⟨⟨_, _, rfl, by decide, by decide, by decide⟩, fun _ n h => by cases h⟩, trivial⟩

end MsiProofs.C19
