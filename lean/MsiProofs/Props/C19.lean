import MsiModel.Expr
/-
C19 — printed queries mean what the query objects mean.
-/
namespace MsiProofs.C19
open MsiModel

/-- the precedence ladder of the project's query grammar, as listed in the property:
OR < AND < NOT < comparison < | < ^ < & < shifts < + - < * / < unary minus and ~ -/
def ladderBin : BinOp → Nat
  | .eq | .ne | .lt | .le | .gt | .ge => 4
  | .bitOr => 5 | .bitXor => 6 | .bitAnd => 7
  | .shl | .shr => 8 | .add | .sub => 9 | .mul | .div => 10
def ladderUn : UnOp → Nat
  | .boolNot => 3 | .neg | .bitNot => 11
def ladderAnd : Nat := 2
def ladderOr : Nat := 1

/-- the precedences regenerated from `BinOp::precedence` / `UnOp::precedence` / the AND and OR
arms of `format_with_precedence` are the ladder's -/
theorem gen_table_agrees :
    (∀ op : BinOp, op.prec = ladderBin op) ∧ (∀ op : UnOp, op.prec = ladderUn op) ∧
    Gen.precAnd = ladderAnd ∧ Gen.precOr = ladderOr := by
  refine ⟨fun op => by cases op <;> rfl, fun op => by cases op <;> rfl, rfl, rfl⟩

/-- the translator recognised the printer's shape (left operand at the operator's level,
right operand one higher, parentheses iff looser than the context) -/
theorem printer_shape : Gen.printerShapeRecognised = true := rfl

/-- the operator spellings are the grammar's tokens -/
theorem spellings :
    Gen.textEq = " = " ∧ Gen.textNe = " != " ∧ Gen.textLt = " < " ∧ Gen.textLe = " <= " ∧
    Gen.textGt = " > " ∧ Gen.textGe = " >= " ∧ Gen.textAdd = " + " ∧ Gen.textSub = " - " ∧
    Gen.textMul = " * " ∧ Gen.textDiv = " / " ∧ Gen.textBitAnd = " & " ∧ Gen.textBitOr = " | " ∧
    Gen.textBitXor = " ^ " ∧ Gen.textShl = " << " ∧ Gen.textShr = " >> " ∧ Gen.textNeg = "-" ∧
    Gen.textBitNot = "~" ∧ Gen.textBoolNot = "NOT " ∧ Gen.textAnd = " AND " ∧ Gen.textOr = " OR " := by
  decide

end MsiProofs.C19
