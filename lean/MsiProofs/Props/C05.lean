import MsiProofs.Lemmas.Order
/-
C05 — stored tables always keep unique, ordered keys and valid cells.
The code keeps each table's rows in a key-sorted map (`BTreeMap`) while inserting and writes
the map's values back; the model does the same with `mapInsert`.  Here: the derived
ordering is a strict total order, so the map is strictly sorted after any sequence of
insertions (hence keys are unique and ascending), and an insertion is refused exactly for a
key that is present.
-/
namespace MsiProofs.C05
open MsiModel MsiModel.Pkg MsiProofs.Order

/-- the ordering used for keys is a strict total order (irreflexive, transitive, connected) -/
theorem key_order_strict_total :
    (∀ a, keyLt a a = false) ∧
    (∀ a b c, keyLt a b = true → keyLt b c = true → keyLt a c = true) ∧
    (∀ a b, keyLt a b = false → keyLt b a = false → a = b) :=
  ⟨keyLt_irrefl, fun _ _ _ => keyLt_trans, fun _ _ => keyLt_connected⟩

/-- loading the stored rows keeps the map strictly sorted (`loadMap` of `Insert::exec`) -/
theorem loadMap_sorted {p keyIdx rows m m'} (hs : Sorted m) (h : loadMap p keyIdx rows m = some m') :
    Sorted m' := by
  induction rows generalizing m with
  | nil => simp [loadMap] at h; exact h ▸ hs
  | cons r rest ih =>
    simp only [loadMap] at h
    cases hm : mapInsert (keyOf keyIdx (rowValues p r)) r m with
    | none => simp [hm] at h
    | some m1 =>
      rw [hm] at h
      exact ih (mapInsert_sorted hs hm).1 h

theorem createCells_ok_or_panic (p : Pool) (vs : List Value) (acc : List Cell) :
    (∃ r, createCells p vs acc = .ok r) ∨ (∃ w, createCells p vs acc = .panic w) := by
  induction vs generalizing p acc with
  | nil => left; exact ⟨_, rfl⟩
  | cons v rest ih =>
    unfold createCells
    cases hc : Cell.create p v with
    | ok r => obtain ⟨p', c⟩ := r; simp only [bind, Res.bind]; exact ih p' (c :: acc)
    | err k =>
      -- `ValueRef::create` has no error outcome
      cases v <;> simp [Cell.create, bind, Res.bind, pure] at hc
      rename_i s
      cases hi : Pool.incref p s <;> simp [hi] at hc
      unfold Pool.incref at hi
      split at hi
      · cases hi
      · split at hi
        · cases hi
        · split at hi <;> cases hi
    | panic w => right; exact ⟨w, by simp [bind, Res.bind]⟩

/-- adding the new rows keeps the map strictly sorted (`addRows` of `Insert::exec`) -/
theorem addRows_sorted {keyIdx p rows m p' m'} (hs : Sorted m)
    (h : addRows keyIdx p rows m = .ok (p', m')) : Sorted m' := by
  induction rows generalizing p m with
  | nil => simp [addRows, pure] at h; exact h.2 ▸ hs
  | cons r rest ih =>
    unfold addRows at h
    cases hc : createCells p r [] with
    | ok pc =>
      obtain ⟨p1, cells⟩ := pc
      simp only [hc, bind, Res.bind] at h
      cases hm : mapInsert (keyOf keyIdx r) cells m with
      | none => simp [hm] at h
      | some m1 =>
        simp only [hm] at h
        exact ih (mapInsert_sorted hs hm).1 h
    | err k => simp [hc, bind, Res.bind] at h
    | panic w => simp [hc, bind, Res.bind] at h

/-- **unique, ascending keys**: whatever rows the stream held and whatever batch is
inserted, the rows that a successful `Insert::exec` writes back are in strictly ascending
key order with pairwise distinct keys -/
theorem insert_writes_sorted_unique {p keyIdx existing m newRows p' m'}
    (h1 : loadMap p keyIdx existing [] = some m) (h2 : addRows keyIdx p newRows m = .ok (p', m')) :
    (m'.map (·.1)).Pairwise (fun a b => keyLt a b = true) ∧ (m'.map (·.1)).Pairwise (· ≠ ·) := by
  have hs : Sorted m' := addRows_sorted (loadMap_sorted (by simp [Sorted]) h1) h2
  exact ⟨by rw [List.pairwise_map]; exact hs, sorted_keys_distinct hs⟩

/-- an insertion is refused exactly when the key is already present -/
theorem insert_refused_iff_present {k v m} (hs : Sorted m) :
    mapInsert k v m = none ↔ mapContains k m = true := mapInsert_none_iff hs

/-- the update path re-sorts: `sortByKey` returns a permutation of the row indices -/
theorem sortByKey_perm (keys : List (List Value)) (order : List Nat) :
    (sortByKey keys order).Perm order := by
  unfold sortByKey
  have ins_perm : ∀ (x : Nat) (sorted : List Nat), (insByKey keys x sorted).Perm (x :: sorted) := by
    intro x sorted
    induction sorted with
    | nil => simp [insByKey]
    | cons y ys ih =>
      unfold insByKey
      split
      · exact List.Perm.refl _
      · exact (List.Perm.cons y ih).trans (List.Perm.swap x y ys)
  have : ∀ (l acc : List Nat), (l.foldl (fun acc x => insByKey keys x acc) acc).Perm (l ++ acc) := by
    intro l
    induction l with
    | nil => intro acc; simp
    | cons x xs ih =>
      intro acc
      simp only [List.foldl_cons]
      refine (ih _).trans ?_
      refine (List.Perm.append_left xs (ins_perm x acc)).trans ?_
      simp
  have h := this order.reverse []
  simp only [List.append_nil] at h
  exact h.trans (List.reverse_perm order)

/-- non-vacuity -/
example : loadMap (Pool.new 0) [0] [[.int 2], [.int 1], [.null]] [] =
    some [([.null], [.null]), ([.int 1], [.int 1]), ([.int 2], [.int 2])] := by decide
example : loadMap (Pool.new 0) [0] [[.int 2], [.int 2]] [] = none := by decide

end MsiProofs.C05
