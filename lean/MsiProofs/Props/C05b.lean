import MsiProofs.Props.C05
import MsiProofs.Lemmas.SortedInv
import MsiProofs.Lemmas.SortUpd
import MsiProofs.Lemmas.Lifecycle
/-
C05 over histories — in every table the rows the state reads are in strictly ascending key order
(hence have pairwise distinct keys), and every insert or delete on any table, accepted or refused,
keeps it so for all tables of the package.
-/
namespace MsiProofs.C05
open MsiModel MsiModel.Pkg

abbrev SortedAll := MsiProofs.SortedInv.SortedAll
/-- a successful insert keeps every table in ascending key order -/
def insert_sorted := @MsiProofs.SortedInv.insert_sorted
/-- a successful delete keeps every table in ascending key order -/
def delete_sorted := @MsiProofs.SortedInv.delete_sorted
/-- **every history of inserts and deletes keeps every table's keys unique and ascending** -/
def history_sorted := @MsiProofs.SortedInv.history_sorted
def keys_distinct := @MsiProofs.SortedInv.keys_distinct
/-- rows read from a stream always fit their columns (type and width of every cell) -/
def readRows_rowOk := @MsiProofs.RowsOk.readRows_rowOk


/-- `sortByKey` really sorts; with the duplicate check the order is strictly ascending -/
def sortByKey_sorted := @MsiProofs.SortUpd.sortByKey_sorted
def strict_of_sorted_nodup := @MsiProofs.SortUpd.strict_of_sorted_nodup
/-- a successful update — re-sorting when a key column is assigned, keeping the order otherwise —
keeps every table in ascending key order -/
def update_sorted := @MsiProofs.SortUpd.update_sorted
/-- **every history of inserts, updates and deletes keeps every table's keys unique and ascending** -/
def dml_history_sorted := @MsiProofs.SortUpd.history_sorted

/-- **in every state reachable from `Package::create`** by statements on user tables, `create_table`,
`drop_table` and saves, every table — catalog tables included — is in strictly ascending key order -/
def created_history_sorted := @MsiProofs.Lifecycle.created_history_sorted

end MsiProofs.C05
