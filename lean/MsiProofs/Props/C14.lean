import MsiModel.CodePage
/-
C14 — code pages encode losslessly what they can represent and match their names.
What is proved here is the repository's own logic: the id tables, the wiring of ids to
`encoding_rs` encodings, the chunked encoder loop (for every buffer size that can hold one
character's code, every string length), the ASCII special case and UTF-8.  The
per-character tables of the 24 table-backed pages live in `encoding_rs`; their laws are a
finite statement decided by complete enumeration on the real implementation (harness).
-/
namespace MsiProofs.C14
open MsiModel MsiModel.CodePage

/-! ### identifier lookup and reverse lookup are mutually inverse -/

theorem id_fromId : ∀ cp < Gen.cpVariants.length, ∃ n, CodePage.id cp = some n ∧ fromId n = some cp := by
  decide

theorem fromId_id : ∀ p ∈ Gen.cpFromIdTable, p.1 ≠ 0 → fromId p.1 = some p.2 ∧ CodePage.id p.2 = some p.1 := by
  decide

/-- id 0 means the default code page -/
theorem fromId_zero : fromId 0 = some Gen.cpDefault := by decide

theorem fromId_unknown (n : Int) (h : n ∉ Gen.cpFromIdTable.map (·.1)) : fromId n = none := by
  unfold fromId
  rw [Option.map_eq_none_iff, List.find?_eq_none]
  intro p hp heq
  apply h
  have : p.1 = n := by simpa using heq
  exact this ▸ List.mem_map_of_mem hp

/-! ### each id is wired to the encoding its documentation name promises -/

/-- expected wiring, written from the documentation names of the variants: 932 Shift_JIS,
936 GBK, 949 Unified Hangul (EUC-KR/UHC), 950/951 Big5, 1250-1258, Macintosh Roman /
Cyrillic, ISO 8859-2..8, UTF-8.  28591 (ISO 8859-1) has no encoding of its own in
`encoding_rs` (WHATWG folds it into windows-1252) and US-ASCII is special-cased. -/
def expectedWiring : List (Int × String) := [
  (932, "SHIFT_JIS"), (936, "GBK"), (949, "EUC_KR"), (950, "BIG5"), (951, "BIG5"),
  (1250, "WINDOWS_1250"), (1251, "WINDOWS_1251"), (1252, "WINDOWS_1252"), (1253, "WINDOWS_1253"),
  (1254, "WINDOWS_1254"), (1255, "WINDOWS_1255"), (1256, "WINDOWS_1256"), (1257, "WINDOWS_1257"),
  (1258, "WINDOWS_1258"), (10000, "MACINTOSH"), (10007, "X_MAC_CYRILLIC"), (20127, "unreachable"),
  (28591, "WINDOWS_1252"), (28592, "ISO_8859_2"), (28593, "ISO_8859_3"), (28594, "ISO_8859_4"),
  (28595, "ISO_8859_5"), (28596, "ISO_8859_6"), (28597, "ISO_8859_7"), (28598, "ISO_8859_8"),
  (65001, "UTF_8")]

theorem wiring : Gen.cpWiring = expectedWiring := by decide

/-- decoding uses the code page's own decoder: no byte-order-mark sniffing; US-ASCII is
special-cased before `encoding()` is consulted (its arm is `unreachable!()`) -/
theorem decode_no_bom_sniffing : Gen.cpDecodeSniffsBom = false ∧ Gen.cpAsciiSpecialCased = true := by
  decide

/-! ### the encoder loop computes the concatenation of the per-character codes -/

theorem encChunk_len (enc : Char → Option (List UInt8)) (cap : Nat) (s : List Char) (acc : List UInt8) :
    (encChunk enc cap s acc).2.1.length ≤ s.length := by
  induction s generalizing acc with
  | nil => simp [encChunk]
  | cons c cs ih =>
    unfold encChunk
    split
    · simp
    · rename_i bs _
      split
      · have := ih (acc ++ bs); simp only [List.length_cons]; omega
      · simp

/-- a call on a non-empty input with an empty buffer makes progress, provided one code fits -/
theorem encChunk_progress (enc : Char → Option (List UInt8)) (cap : Nat)
    (hfit : ∀ c bs, enc c = some bs → bs.length ≤ cap) (c : Char) (cs : List Char) :
    (encChunk enc cap (c :: cs) []).2.1.length < (c :: cs).length ∨
    (encChunk enc cap (c :: cs) []).1 = .inputEmpty := by
  unfold encChunk
  split
  · left; simp
  · rename_i bs h
    have := hfit c bs h
    simp only [List.length_nil, Nat.zero_add, this, if_true]
    left
    have := encChunk_len enc cap cs ([] ++ bs)
    simp only [List.length_cons]; omega

def tailSpec (enc : Char → Option (List UInt8)) : EncResult → List Char → List UInt8
  | .inputEmpty, _ => []
  | .outputFull, rest => encodeSpec enc rest
  | .unmappable, rest => UInt8.ofNat Gen.cpReplacementByte :: encodeSpec enc rest

theorem encodeSpec_cons (enc : Char → Option (List UInt8)) (c : Char) (cs : List Char) :
    encodeSpec enc (c :: cs) = (enc c).getD [UInt8.ofNat Gen.cpReplacementByte] ++ encodeSpec enc cs := by
  simp [encodeSpec]

/-- what one call contributes, whatever the reason it stopped -/
theorem encChunk_spec (enc : Char → Option (List UInt8)) (cap : Nat) (s : List Char) (acc : List UInt8) :
    (encChunk enc cap s acc).2.2 ++ tailSpec enc (encChunk enc cap s acc).1 (encChunk enc cap s acc).2.1
      = acc ++ encodeSpec enc s := by
  induction s generalizing acc with
  | nil => simp [encChunk, tailSpec, encodeSpec]
  | cons c cs ih =>
    unfold encChunk
    split
    · rename_i h
      simp [tailSpec, encodeSpec_cons, h]
    · rename_i bs h
      split
      · rw [ih]; simp [encodeSpec_cons, h]
      · simp [tailSpec, encodeSpec_cons, h]

theorem encChunk_inputEmpty_rest (enc : Char → Option (List UInt8)) (cap : Nat) (s : List Char) (acc : List UInt8) :
    (encChunk enc cap s acc).1 = .inputEmpty → (encChunk enc cap s acc).2.1 = [] := by
  induction s generalizing acc with
  | nil => simp [encChunk]
  | cons c cs ih =>
    unfold encChunk
    split
    · simp
    · split
      · exact ih _
      · simp

/-- **the encoding of a string is the concatenation of the encodings of its characters,
whatever its length**: for every per-character encoder, every buffer size that can hold
one code, every string — and the loop terminates within `length + 1` iterations -/
theorem encode_is_concat (enc : Char → Option (List UInt8)) (cap : Nat)
    (hfit : ∀ c bs, enc c = some bs → bs.length ≤ cap) :
    ∀ (fuel : Nat) (s : List Char) (bytes : List UInt8), s.length < fuel →
      encodeLoop enc cap fuel s bytes = some (bytes ++ encodeSpec enc s) := by
  intro fuel
  induction fuel with
  | zero => intro s bytes h; omega
  | succ n ih =>
    intro s bytes h
    unfold encodeLoop
    have hspec := encChunk_spec enc cap s []
    have hlen := encChunk_len enc cap s []
    generalize hr : encChunk enc cap s [] = r at hspec hlen
    obtain ⟨res, rest, out⟩ := r
    simp only at hspec hlen
    have hprog : rest.length < s.length ∨ res = .inputEmpty := by
      cases s with
      | nil => right; simp [encChunk] at hr; exact hr.1.symm
      | cons c cs => have := encChunk_progress enc cap hfit c cs; rw [hr] at this; exact this
    cases res with
    | inputEmpty =>
      simp only [tailSpec, List.append_nil, List.nil_append] at hspec
      simp [hspec]
    | outputFull =>
      simp only [tailSpec, List.nil_append] at hspec
      have hlt : rest.length < n := by rcases hprog with h1 | h1 <;> first | omega | cases h1
      simp only
      rw [ih rest (bytes ++ out) hlt, List.append_assoc, hspec]
    | unmappable =>
      simp only [tailSpec, List.nil_append] at hspec
      have hlt : rest.length < n := by rcases hprog with h1 | h1 <;> first | omega | cases h1
      simp only
      rw [ih rest _ hlt]
      simp only [List.append_assoc]
      rw [← hspec]; simp

/-- corollary: encoding distributes over concatenation of strings -/
theorem encodeSpec_append (enc : Char → Option (List UInt8)) (s t : List Char) :
    encodeSpec enc (s ++ t) = encodeSpec enc s ++ encodeSpec enc t := by
  simp [encodeSpec]

/-- per-character law, for any encoder/decoder pair whose table is consistent -/
theorem per_char_law (enc : Char → Option (List UInt8)) (dec : List UInt8 → List Char)
    (hcons : ∀ c bs, enc c = some bs → dec bs = [c]) (c : Char) :
    encodeSpec enc [c] = [UInt8.ofNat Gen.cpReplacementByte] ∨ dec (encodeSpec enc [c]) = [c] := by
  cases h : enc c with
  | none => left; simp [encodeSpec, h]
  | some bs => right; simp [encodeSpec, h, hcons c bs h]

/-! ### UTF-8 -/

theorem utf8_fits (c : Char) (bs : List UInt8) (h : utf8Char c = some bs) : bs.length ≤ Gen.cpEncodeBufferSize := by
  simp only [utf8Char, Option.some.injEq] at h
  subst h
  have : (String.utf8EncodeChar c).length ≤ 4 := by
    unfold String.utf8EncodeChar
    simp only
    split
    · simp
    · split
      · simp
      · split <;> simp
  have e : Gen.cpEncodeBufferSize = 1024 := rfl
  omega

/-- `CodePage::Utf8.encode(s)` is the UTF-8 encoding of `s` for strings of every length
(the 1024-byte buffer never splits a character) -/
theorem utf8_encode (s : List Char) : utf8Encode s = some (s.flatMap String.utf8EncodeChar) := by
  unfold utf8Encode
  rw [encode_is_concat utf8Char _ utf8_fits _ s [] (by omega)]
  simp [encodeSpec, utf8Char]

/-- … and it is lossless: core's UTF-8 decoder recovers exactly the characters -/
theorem utf8_lossless (s : List Char) : (s.utf8Encode).utf8Decode? = some s.toArray :=
  List.utf8Decode?_utf8Encode

/-! ### US-ASCII -/

theorem ascii_concat (s t : List Char) : asciiEncode (s ++ t) = asciiEncode s ++ asciiEncode t := by
  simp [asciiEncode]

theorem ascii_per_char (c : Char) :
    asciiEncode [c] = [63] ∨ asciiDecode (asciiEncode [c]) = [c] := by
  by_cases h : c.toNat < 128
  · right
    simp only [asciiEncode, asciiDecode, List.map_cons, List.map_nil, h, if_true]
    have h2 : (UInt8.ofNat c.toNat).toNat = c.toNat := by
      simp [UInt8.toNat_ofNat']; omega
    simp only [h2, h, if_true]
    congr 1
    exact Char.ofNat_toNat c
  · left; simp [asciiEncode, h]

/-- decoding accepts any bytes (total by construction) and maps non-ASCII to U+FFFD -/
theorem ascii_decode_total (bs : List UInt8) : (asciiDecode bs).length = bs.length := by
  simp [asciiDecode]

/-! ### non-vacuity -/
example : utf8Encode "é€".toList = some [0xC3, 0xA9, 0xE2, 0x82, 0xAC] := by decide
example : fromId 932 = some 0 ∧ fromId 4711 = none := by decide
example : encodeLoop (fun c => if c = 'x' then none else some [1, 2, 3]) 4 9 "abxc".toList [] =
    some [1, 2, 3, 1, 2, 3, 63, 1, 2, 3] := by decide

end MsiProofs.C14
