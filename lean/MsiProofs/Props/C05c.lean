import MsiProofs.Props.C05b
import MsiProofs.Lemmas.RelationalLife
/-
C05, valid cells — in every reachable state every stored cell is a value its column declares
valid (type, nullability, integer range, category, enumeration, maximum length), "" being stored
as null.
-/
namespace MsiProofs.C05

/-- a validated row, stored, is a valid row -/
def rowValid_of_checked := @MsiProofs.ValidCells.rowValid_of_checked
/-- the assignments of an UPDATE keep a row valid -/
def rowValid_applyUps := @MsiProofs.ValidCells.rowValid_applyUps
/-- **one statement, accepted or refused, keeps every cell of every table valid** -/
def op_valid := @MsiProofs.ValidCells.op_valid
/-- **every history of statements keeps every cell valid** -/
def dml_history_valid := @MsiProofs.ValidCells.history_valid
/-- **one call of the whole API keeps every cell valid** -/
def step_valid := @MsiProofs.RelationalLife.step_valid
/-- **in every state reachable from `Package::create`, every stored cell of every table — the
catalog tables included — is valid for its column** -/
def created_history_valid := @MsiProofs.RelationalLife.created_history_valid

end MsiProofs.C05
