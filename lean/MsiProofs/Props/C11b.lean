import MsiProofs.Props.C11
import MsiProofs.Lemmas.OtherCalls
import MsiProofs.Lemmas.StreamsMap
/-
C11, second half — stream contents: user streams behave like a map from names to byte strings.
Reading returns the last write; writing or removing one name leaves every other name as it was
(names compared the way cfb compares them: by UTF-16 length and upper-cased text); no insert,
update or delete — accepted or refused — changes what a stream reads as, and no stream write
changes a table's stored rows.
-/
namespace MsiProofs.C11
open MsiModel MsiModel.Pkg MsiProofs.StreamsMap

/-- names that differ never denote the same stream, also under cfb's case-insensitive comparison -/
def user_stream_injective := @MsiProofs.StreamsMap.user_stream_injective
/-- **read returns the last write** -/
def read_after_write := @MsiProofs.StreamsMap.read_after_write
/-- **other names are untouched by a write** -/
def write_other := @MsiProofs.StreamsMap.write_other
/-- **a removed stream is gone** -/
def remove_then_read := @MsiProofs.StreamsMap.remove_then_read
/-- **other names are untouched by a removal** -/
def remove_other := @MsiProofs.StreamsMap.remove_other
/-- **streams are independent of tables** (every data-manipulation statement, accepted or refused) -/
def dml_keeps_streams := @MsiProofs.StreamsMap.dml_keeps_streams
def insertExec_shape := @MsiProofs.StreamsMap.insertExec_shape
def updateExec_shape := @MsiProofs.StreamsMap.updateExec_shape
def deleteExec_shape := @MsiProofs.StreamsMap.deleteExec_shape
/-- **tables are independent of streams** -/
def write_keeps_rows := @MsiProofs.StreamsMap.write_keeps_rows

/-- overwriting truncates: after writing shorter contents the stream reads as exactly those -/
example (s : Pkg) (n : List Char) (hv : StreamName.isValid n false = true) :
    readStream (writeStream (writeStream s n [1, 2, 3, 4, 5]).1 n [9]).1 n = .ok [9] :=
  (read_after_write _ n [9] hv).2

/-- stream writes and removals, and the removal of the signature streams, keep every package
invariant: they touch no table stream (a signature stream is not a table stream: `sig_ne_table`) -/
def writeStream_full := @MsiProofs.OtherCalls.writeStream_full
def removeStream_full := @MsiProofs.OtherCalls.removeStream_full
def removeSignature_full := @MsiProofs.OtherCalls.removeSignature_full
def sig_ne_table := @MsiProofs.OtherCalls.sig_ne_table

end MsiProofs.C11
