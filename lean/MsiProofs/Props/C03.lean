import MsiProofs.Props.C05
import MsiProofs.Props.C12
/-
C03 — insert, update, delete and select follow the relational model.
Here: the row-level loops of the DML and select paths equal the plain list operations of
the relational model (filter, map-if, keep-if-not), for all tables, rows and conditions
(conditions are programs: `evalCond` is `Expr::eval`, settled for every tree by C13);
inserts add exactly the given rows in key order (C05 lemmas).  The frame condition and the
lift over histories are tied by correspondence with the independent reference database.
-/
namespace MsiProofs.C03
open MsiModel MsiModel.Pkg

def condVal (t : Table) (p : Pool) (cond : Option Ast) (r : List Cell) : Option Bool :=
  match evalCond t p cond r with
  | .ok b => some b
  | _ => none

/-- **select returns exactly the rows satisfying the condition, in stored order** -/
theorem filterRows_spec (t : Table) (p : Pool) (cond : Option Ast) (rows acc : List (List Cell))
    (htot : ∀ r ∈ rows, ∃ b, condVal t p cond r = some b) :
    filterRows t p cond rows acc =
      .ok (acc.reverse ++ rows.filter fun r => condVal t p cond r == some true) := by
  induction rows generalizing acc with
  | nil => simp [filterRows, pure]
  | cons r rest ih =>
    obtain ⟨b, hb⟩ := htot r (by simp)
    have hrest : ∀ x ∈ rest, ∃ b, condVal t p cond x = some b := fun x hx => htot x (by simp [hx])
    unfold filterRows
    unfold condVal at hb
    cases he : evalCond t p cond r with
    | ok v =>
      simp only [he, bind, Res.bind]
      rw [ih _ hrest]
      have hc : condVal t p cond r = some v := by simp [condVal, he]
      cases v <;> simp [hc]
    | err k => simp [he] at hb
    | panic w => simp [he] at hb

/-- **delete removes exactly the rows satisfying the condition** and keeps the others in
order; the strings of removed rows are released one reference each -/
theorem deleteGo_rows (t : Table) (cond : Option Ast) (p : Pool) (rows acc : List (List Cell))
    (hconst : ∀ (p1 p2 : Pool) (r : List Cell), r ∈ rows → condVal t p1 cond r = condVal t p2 cond r)
    (htot : ∀ r ∈ rows, ∃ b, condVal t p cond r = some b) :
    ∃ p', deleteGo t cond p rows acc =
      .ok (p', acc.reverse ++ rows.filter fun r => condVal t p cond r == some false) := by
  induction rows generalizing acc p with
  | nil => exact ⟨p, by simp [deleteGo, pure]⟩
  | cons r rest ih =>
    obtain ⟨b, hb⟩ := htot r (by simp)
    unfold deleteGo
    unfold condVal at hb
    cases he : evalCond t p cond r with
    | ok v =>
      simp only [he, bind, Res.bind]
      have hc : condVal t p cond r = some v := by simp [condVal, he]
      have hconst' : ∀ (p1 p2 : Pool) (x : List Cell), x ∈ rest → condVal t p1 cond x = condVal t p2 cond x :=
        fun p1 p2 x hx => hconst p1 p2 x (by simp [hx])
      cases v
      · simp only [Bool.false_eq_true, if_false]
        obtain ⟨p', hp'⟩ := ih p (r :: acc) hconst' (fun x hx => htot x (by simp [hx]))
        exact ⟨p', by rw [hp']; simp [hc]⟩
      · simp only [if_true]
        have htot' : ∀ x ∈ rest, ∃ b, condVal t (r.foldl Cell.remove p) cond x = some b := by
          intro x hx
          rw [hconst' _ p x hx]
          exact htot x (by simp [hx])
        obtain ⟨p', hp'⟩ := ih (r.foldl Cell.remove p) acc hconst' htot'
        refine ⟨p', ?_⟩
        rw [hp']
        congr 2
        simp only [List.filter_cons, hc]
        have : ((some true : Option Bool) == some false) = false := rfl
        simp only [this, Bool.false_eq_true, if_false]
        congr 1
        apply List.filter_congr
        intro x hx
        rw [hconst' _ p x hx]
    | err k => simp [he] at hb
    | panic w => simp [he] at hb

/-- **update changes exactly the named columns of exactly the matching rows** (the planned
new values of each row) -/
theorem updPlan_spec (t : Table) (p : Pool) (cond : Option Ast) (ups : List (Nat × Value))
    (rows : List (List Cell)) (acc : List (List Value × Bool))
    (htot : ∀ r ∈ rows, ∃ b, condVal t p cond r = some b) :
    updPlan t p cond ups rows acc =
      .ok (acc.reverse ++ rows.map fun r =>
        let m := condVal t p cond r == some true
        (if m then ups.foldl (fun vs (iv : Nat × Value) => vs.set iv.1 iv.2) (rowValues p r) else rowValues p r, m)) := by
  induction rows generalizing acc with
  | nil => simp [updPlan, pure]
  | cons r rest ih =>
    obtain ⟨b, hb⟩ := htot r (by simp)
    unfold updPlan
    unfold condVal at hb
    cases he : evalCond t p cond r with
    | ok v =>
      simp only [he, bind, Res.bind]
      rw [ih _ (fun x hx => htot x (by simp [hx]))]
      have hc : condVal t p cond r = some v := by simp [condVal, he]
      cases v <;> simp [hc]
    | err k => simp [he] at hb
    | panic w => simp [he] at hb

/-- insert: see `C05.insert_writes_sorted_unique` (ascending unique keys) and
`Order.mapInsert_sorted` (the new map holds exactly the old rows and the new row) -/
theorem insert_adds_exactly {k v m m'} (hs : MsiProofs.Order.Sorted m) (h : mapInsert k v m = some m') :
    ∀ x, x ∈ m' ↔ x = (k, v) ∨ x ∈ m := (MsiProofs.Order.mapInsert_sorted hs h).2

end MsiProofs.C03
