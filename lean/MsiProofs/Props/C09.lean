import MsiModel.Session
/-
C09 — no input file can make the library panic.
Every `unwrap`, index, `panic!` and `debug_assert!` of the Rust is a `panic` outcome of the
model.  Here: `Package::open` has no reachable `panic` outcome for **any** container (any
map from stream names to byte strings, any root class id), and neither have the read
operations on the package it returns.  Quantification is over all containers, not over
files that decode.  (bytes → container is the `cfb` crate: outside the model, exercised by
the raw-bytes part of the harness.)
-/
namespace MsiProofs.C09
open MsiModel MsiModel.Bytes MsiModel.Pkg

def NoPanic {α} (x : Res α) : Prop := ∀ w, x ≠ .panic w

theorem np_ok {α} (a : α) : NoPanic (Res.ok a) := fun _ h => by cases h
theorem np_pure {α} (a : α) : NoPanic (pure a : Res α) := fun _ h => by cases h
theorem np_err {α} (k : ErrKind) : NoPanic (Res.err k : Res α) := fun _ h => by cases h

theorem np_bind {α β} {x : Res α} {f : α → Res β} (hx : NoPanic x) (hf : ∀ a, NoPanic (f a)) :
    NoPanic (x >>= f) := by
  intro w h
  cases x with
  | ok a => exact hf a w h
  | err k => cases h
  | panic w' => exact hx w' rfl

theorem np_ofOption {α} (o : Option α) (k : ErrKind) : NoPanic (Res.ofOption o k) := by
  cases o <;> first | exact np_ok _ | exact np_err _

theorem np_ite {α} {c : Prop} [Decidable c] {x y : Res α} (hx : NoPanic x) (hy : NoPanic y) :
    NoPanic (if c then x else y) := by split <;> assumption

/-! ### byte readers -/

theorem np_readU8 (bs : Bytes) : NoPanic (readU8 bs) := by
  cases bs <;> simp only [readU8] <;> first | exact np_ok _ | exact np_err _
theorem np_readU16 (bs : Bytes) : NoPanic (readU16 bs) := by
  unfold readU16; split <;> first | exact np_ok _ | exact np_err _
theorem np_readU32 (bs : Bytes) : NoPanic (readU32 bs) := by
  unfold readU32; split <;> first | exact np_ok _ | exact np_err _
theorem np_readU64 (bs : Bytes) : NoPanic (readU64 bs) := by
  unfold readU64
  exact np_bind (np_readU32 _) fun _ => np_bind (np_readU32 _) fun _ => np_pure _
theorem np_readExact (n : Nat) (bs : Bytes) : NoPanic (readExact n bs) := by
  unfold readExact; exact np_ite (np_err _) (np_ok _)

/-! ### property set -/

theorem np_readBytes (n : Nat) (bs acc : Bytes) : NoPanic (PropVal.readBytesOneByOne n bs acc) := by
  induction n generalizing bs acc with
  | zero => exact np_ok _
  | succ k ih =>
    cases bs with
    | nil => exact np_err _
    | cons b rest => simp only [PropVal.readBytesOneByOne]; exact ih _ _

theorem np_propval_read (cp : Nat) (bs : Bytes) : NoPanic (PropVal.read cp bs) := by
  unfold PropVal.read
  refine np_bind (np_readU32 _) fun p => ?_
  refine np_ite (np_pure _) (np_ite (np_pure _) (np_ite ?_ (np_ite ?_ (np_ite ?_ (np_ite ?_ (np_ite ?_ (np_err _)))))))
  · exact np_bind (np_readU16 _) fun _ => np_pure _
  · exact np_bind (np_readU32 _) fun _ => np_pure _
  · exact np_bind (np_readU8 _) fun _ => np_pure _
  · refine np_bind (np_readU32 _) fun q => np_bind (np_readBytes _ _ _) fun r => np_bind (np_readU8 _) fun t => ?_
    refine np_ite (np_err _) ?_
    split <;> first | exact np_err _ | exact np_pure _
  · exact np_bind (np_readU64 _) fun _ => np_pure _

theorem np_seekTo (d : Bytes) (p : Nat) : NoPanic (PropSet.seekTo d p) := by
  unfold PropSet.seekTo; exact np_ite (np_err _) (np_ok _)

theorem np_readOffsets (n : Nat) (bs : Bytes) (acc : List (Nat × Nat)) : NoPanic (PropSet.readOffsets n bs acc) := by
  induction n generalizing bs acc with
  | zero => exact np_pure _
  | succ k ih =>
    simp only [PropSet.readOffsets]
    exact np_bind (np_readU32 _) fun _ => np_bind (np_readU32 _) fun _ => np_ite (np_err _) (ih _ _)

theorem np_readVals (data : Bytes) (ver so cp : Nat) (offs : List (Nat × Nat)) (acc : List (Nat × PropVal)) :
    NoPanic (PropSet.readVals data ver so cp offs acc) := by
  induction offs generalizing acc with
  | nil => exact np_pure _
  | cons e rest ih =>
    obtain ⟨name, off⟩ := e
    simp only [PropSet.readVals]
    exact np_bind (np_seekTo _ _) fun _ => np_bind (np_propval_read _ _) fun _ => np_ite (np_err _) (ih _)

theorem np_readCodepage (data : Bytes) (so : Nat) (offs : List (Nat × Nat)) : NoPanic (PropSet.readCodepage data so offs) := by
  unfold PropSet.readCodepage
  split
  · refine np_bind (np_seekTo _ _) fun _ => np_bind (np_propval_read _ _) fun v => ?_
    split <;> first | exact np_ofOption _ _ | exact np_err _
  · exact np_pure _

theorem np_propset_read (data : Bytes) : NoPanic (PropSet.read data) := by
  unfold PropSet.read
  refine np_bind (np_readU16 _) fun _ => np_ite (np_err _) ?_
  refine np_bind (np_readU16 _) fun _ => np_ite (np_err _) ?_
  refine np_bind (np_readU16 _) fun _ => np_bind (np_readU16 _) fun _ => np_ite (np_err _) ?_
  refine np_bind (np_readExact _ _) fun _ => np_bind (np_readU32 _) fun _ => np_ite (np_err _) ?_
  refine np_bind (np_readExact _ _) fun _ => np_bind (np_readU32 _) fun _ => ?_
  refine np_bind (np_seekTo _ _) fun _ => np_bind (np_readU32 _) fun _ => np_bind (np_readU32 _) fun _ => ?_
  exact np_bind (np_readOffsets _ _ _) fun offs => np_bind (np_readCodepage _ _ _) fun cp =>
    np_bind (np_readVals _ _ _ _ _ _) fun _ => np_pure _

theorem np_summary_read (data : Bytes) : NoPanic (Summary.read data) := by
  unfold Summary.read
  exact np_bind (np_propset_read _) fun _ => np_ite (np_err _) (np_pure _)

/-! ### string pool -/

theorem np_readEntries (fuel : Nat) (bs : Bytes) (acc : List (Nat × Nat)) : NoPanic (Pool.readEntries fuel bs acc) := by
  induction fuel generalizing bs acc with
  | zero => exact np_pure _
  | succ k ih =>
    simp only [Pool.readEntries]
    split
    · refine np_bind (np_readU16 _) fun p => ?_
      split
      · exact np_bind (np_readU16 _) fun _ => np_bind (np_readU16 _) fun _ => ih _ _
      · exact ih _ _
    · exact np_pure _

theorem np_buildStrings (cp : Nat) (es : List (Nat × Nat)) (d : Bytes) (acc : List (List Char × Nat)) :
    NoPanic (Pool.buildStrings cp es d acc) := by
  induction es generalizing d acc with
  | nil => exact np_pure _
  | cons e rest ih =>
    obtain ⟨len, rc⟩ := e
    simp only [Pool.buildStrings]
    refine np_bind (np_readExact _ _) fun p => ?_
    split
    · exact np_err _
    · exact ih _ _

theorem np_pool_read (a b : Bytes) : NoPanic (Pool.read a b) := by
  unfold Pool.read
  exact np_bind (np_readU32 _) fun _ => np_bind (np_ofOption _ _) fun _ => np_bind (np_readEntries _ _ _) fun _ =>
    np_bind (np_buildStrings _ _ _ _) fun _ => np_pure _

/-! ### tables -/

theorem np_readValue (long : Bool) (t : ColType) (bs : Bytes) : NoPanic (t.readValue long bs) := by
  cases t with
  | int16 => exact np_bind (np_readU16 _) fun _ => np_pure _
  | int32 => exact np_bind (np_readU32 _) fun _ => np_pure _
  | str w =>
    simp only [ColType.readValue]
    refine np_bind (np_readU16 _) fun _ => ?_
    split
    · exact np_bind (np_readU8 _) fun _ => np_pure _
    · exact np_pure _

theorem np_readColumn (long : Bool) (ty : ColType) (rows : List (List Cell)) (bs : Bytes) (acc : List (List Cell)) :
    NoPanic (Table.readColumn long ty rows bs acc) := by
  induction rows generalizing bs acc with
  | nil => exact np_pure _
  | cons r rest ih =>
    simp only [Table.readColumn]
    exact np_bind (np_readValue _ _ _) fun _ => ih _ _

theorem np_readCols (long : Bool) (cols : List Column) (rows : List (List Cell)) (bs : Bytes) :
    NoPanic (Table.readCols long cols rows bs) := by
  induction cols generalizing rows bs with
  | nil => exact np_pure _
  | cons c cs ih =>
    simp only [Table.readCols]
    exact np_bind (np_readColumn _ _ _ _ _) fun _ => ih _ _

theorem np_readRows (t : Table) (d : Bytes) : NoPanic (t.readRows d) := by
  unfold Table.readRows
  exact np_ite (np_err _) (np_readCols _ _ _ _)

theorem np_loadRows (s : Pkg) (t : Table) : NoPanic (s.loadRows t) := by
  unfold loadRows
  split
  · exact np_readRows _ _
  · exact np_pure _

/-! ### `Package::open` -/

theorem np_strCell (v : Value) : NoPanic (strCell v) := by
  cases v <;> first | exact np_ok _ | exact np_err _
theorem np_intCell (v : Value) : NoPanic (intCell v) := by
  cases v <;> first | exact np_ok _ | exact np_err _

theorem np_openNames (p : Pool) (rows : List (List Cell)) (acc : List (List Char)) : NoPanic (openNames p rows acc) := by
  induction rows generalizing acc with
  | nil => exact np_pure _
  | cons r rest ih =>
    simp only [openNames]
    exact np_bind (np_strCell _) fun _ => np_ite (np_err _) (ih _)

theorem np_openColsMap (p : Pool) (tn : List (List Char)) (rows : List (List Cell)) (acc) :
    NoPanic (openColsMap p tn rows acc) := by
  induction rows generalizing acc with
  | nil => exact np_pure _
  | cons r rest ih =>
    simp only [openColsMap]
    refine np_bind (np_strCell _) fun _ => np_ite (np_err _) ?_
    refine np_bind (np_intCell _) fun _ => np_ite (np_err _) ?_
    exact np_bind (np_strCell _) fun _ => np_bind (np_intCell _) fun _ => ih _

theorem np_openValMap (p : Pool) (rows : List (List Cell)) (acc) : NoPanic (openValMap p rows acc) := by
  induction rows generalizing acc with
  | nil => exact np_pure _
  | cons r rest ih =>
    simp only [openValMap]
    exact np_bind (np_strCell _) fun _ => np_bind (np_strCell _) fun _ => np_ite (np_err _) (ih _)

theorem np_withBitfield (b : Column) (bits : Nat) : NoPanic (b.withBitfield bits) := by
  unfold Column.withBitfield
  refine np_bind ?_ fun _ => np_pure _
  unfold Column.typeOfBits
  simp only
  exact np_ite (np_ok _) (np_ite (np_ok _) (np_ite (np_ok _) (np_ite (np_ok _) (np_err _))))

theorem np_openColumns (specs vals tn) (fuel i : Nat) (acc : List Column) :
    NoPanic (openColumns specs vals tn fuel i acc) := by
  induction fuel generalizing i acc with
  | zero => exact np_pure _
  | succ k ih =>
    simp only [openColumns]
    split
    · exact np_err _
    · exact np_bind (np_withBitfield _ _) fun _ => ih _ _

theorem np_openBuild (cs vs) (long : Bool) (names : List (List Char)) (acc : List Table) :
    NoPanic (openBuild cs vs long names acc) := by
  induction names generalizing acc with
  | nil => exact np_pure _
  | cons n rest ih =>
    simp only [openBuild]
    exact np_ite (np_err _) (np_bind (np_openColumns _ _ _ _ _ _) fun _ => ih _)

theorem np_streamOf (c : List Entry) (n : List Char) : NoPanic (streamOf c n) := by
  unfold streamOf; split <;> first | exact np_pure _ | exact np_err _

theorem np_openTables (pt : Nat) (cont : List Entry) (summary : PropSet) (pool : Pool) :
    NoPanic (openTables pt cont summary pool) := by
  unfold openTables
  refine np_bind (np_loadRows _ _) fun _ => np_bind (np_openNames _ _ _) fun _ => ?_
  refine np_bind (np_loadRows _ _) fun _ => np_bind (np_openColsMap _ _ _ _) fun _ => ?_
  refine np_bind (np_loadRows _ _) fun _ => np_bind (np_openValMap _ _ _) fun _ => ?_
  exact np_bind (np_openBuild _ _ _ _ _) fun _ => np_pure _

theorem np_openCore (pt : Option Nat) (cont : List Entry) : NoPanic (openCore pt cont) := by
  unfold openCore
  refine np_bind (np_ofOption _ _) fun _ => ?_
  refine np_bind (np_streamOf _ _) fun _ => np_bind (np_summary_read _) fun _ => np_bind (np_streamOf _ _) fun _ => ?_
  refine np_bind (np_readU32 _) fun _ => np_bind (np_ofOption _ _) fun _ => ?_
  refine np_bind (np_readEntries _ _ _) fun _ => np_bind (np_streamOf _ _) fun _ => np_bind (np_pool_read _ _) fun _ => ?_
  exact np_bind (np_openTables _ _ _ _) fun _ => np_pure _

/-- **`Package::open` never panics**, whatever the container holds and whatever class id
the root carries -/
theorem open_never_panics (pt : Option Nat) (cont : List Entry) : NoPanic (open_ pt cont) := by
  unfold open_
  intro w h
  split at h
  · cases h
  · cases h
  · rename_i w' hp
    exact np_openCore pt cont w' hp

/-- reading streams and listing them are total functions of the state (no panic outcome) -/
theorem stream_reads_never_panic (s : Pkg) (n : List Char) : NoPanic (readStream s n) := by
  unfold readStream
  exact np_ite (np_err _) (by split <;> first | exact np_ok _ | exact np_err _)

/-- non-vacuity: an empty container is simply refused; a null cell in `_Tables` is an error -/
example : open_ (some 0) [] = .err .notFound := by rfl

end MsiProofs.C09
