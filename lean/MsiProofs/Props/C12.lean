import MsiModel.PkgApi
/-
C12 — joins and projections produce the documented row combinations.
-/
namespace MsiProofs.C12
open MsiModel MsiModel.Pkg

/-- truth value of the join condition on the concatenated row (`none` = evaluation panicked) -/
def condOn (p : Pool) (t : Table) (on : Ast) (row : List Cell) : Option Bool :=
  match on.eval (mkRow t (rowValues p row)) with
  | .ok v => some v.toBool
  | _ => none

/-- the inner loop: for one left row, the concatenations with the right rows on which the
condition holds, in the order of the right rows (accumulated in reverse) -/
theorem joinInner_spec (p : Pool) (t : Table) (on : Ast) (r1 : List Cell) (rows2 : List (List Cell))
    (acc : List (List Cell)) (found : Bool)
    (htot : ∀ r2 ∈ rows2, ∃ b, condOn p t on (r1 ++ r2) = some b) :
    joinInner p t on r1 rows2 acc found =
      .ok (((rows2.filter fun r2 => condOn p t on (r1 ++ r2) == some true).map (r1 ++ ·)).reverse ++ acc,
           found || rows2.any fun r2 => condOn p t on (r1 ++ r2) == some true) := by
  induction rows2 generalizing acc found with
  | nil => simp [joinInner, pure]
  | cons r2 rest ih =>
    obtain ⟨b, hb⟩ := htot r2 (by simp)
    have hrest : ∀ r ∈ rest, ∃ b, condOn p t on (r1 ++ r) = some b := fun r hr => htot r (by simp [hr])
    unfold joinInner
    unfold condOn at hb
    cases he : on.eval (mkRow t (rowValues p (r1 ++ r2))) with
    | ok v =>
      simp only [he, bind, Res.bind]
      have hc : condOn p t on (r1 ++ r2) = some v.toBool := by simp [condOn, he]
      cases hv : v.toBool
      · simp only [Bool.false_eq_true, if_false]
        rw [ih acc found hrest]
        simp [hc, hv]
      · simp only [if_true]
        rw [ih _ true hrest]
        simp [hc, hv]
    | err k => simp [he] at hb
    | panic w => simp [he] at hb

/-- **inner join**: for each left row in order and each right row in order, the
concatenated row exactly when the condition holds; **left join**: additionally each
unmatched left row once, padded with nulls -/
theorem joinRows_spec (p : Pool) (t : Table) (on : Ast) (isLeft : Bool) (k : Nat)
    (rows2 rows1 acc : List (List Cell))
    (htot : ∀ r1 ∈ rows1, ∀ r2 ∈ rows2, ∃ b, condOn p t on (r1 ++ r2) = some b) :
    joinRows p t on isLeft k rows2 rows1 acc =
      .ok (acc.reverse ++ rows1.flatMap fun r1 =>
        let ms := (rows2.filter fun r2 => condOn p t on (r1 ++ r2) == some true).map (r1 ++ ·)
        if isLeft && ms.isEmpty then [r1 ++ List.replicate k Cell.null] else ms) := by
  induction rows1 generalizing acc with
  | nil => simp [joinRows, pure]
  | cons r1 rest ih =>
    have h1 := joinInner_spec p t on r1 rows2 acc false (htot r1 (by simp))
    have hrest : ∀ r ∈ rest, ∀ r2 ∈ rows2, ∃ b, condOn p t on (r ++ r2) = some b :=
      fun r hr => htot r (by simp [hr])
    unfold joinRows
    rw [h1]
    simp only [bind, Res.bind, Bool.false_or]
    rw [ih _ hrest]
    congr 1
    simp only [List.flatMap_cons]
    by_cases hany : (rows2.any fun r2 => condOn p t on (r1 ++ r2) == some true) = true
    · have hne : (List.map (fun x => r1 ++ x)
          (List.filter (fun r2 => condOn p t on (r1 ++ r2) == some true) rows2)).isEmpty = false := by
        rw [List.any_eq_true] at hany
        obtain ⟨x, hx, hc⟩ := hany
        cases hf : List.filter (fun r2 => condOn p t on (r1 ++ r2) == some true) rows2 with
        | nil =>
          have : x ∈ List.filter (fun r2 => condOn p t on (r1 ++ r2) == some true) rows2 :=
            List.mem_filter.mpr ⟨hx, hc⟩
          rw [hf] at this; cases this
        | cons a b => simp
      simp [hany, hne]
    · have hany' : (rows2.any fun r2 => condOn p t on (r1 ++ r2) == some true) = false := by
        simpa using hany
      have hf : List.filter (fun r2 => condOn p t on (r1 ++ r2) == some true) rows2 = [] := by
        rw [List.filter_eq_nil_iff]
        intro a ha hc
        rw [List.any_eq_false] at hany'
        exact hany' a ha hc
      cases isLeft <;> simp [hany', hf]

/-- result columns are named `table.column` for named operands; a left join makes the
right side nullable -/
theorem prefixed_spec (pre : List Char) (c : Column) :
    (prefixed pre c).name = (if pre.isEmpty then c.name else pre ++ ['.'] ++ c.name) ∧
    (prefixed pre c).coltype = c.coltype ∧ (prefixed pre c).isNullable = c.isNullable := by
  unfold prefixed
  split <;> simp

/-- an unknown table is `NotFound`; an unknown column in a join condition, a projection or
a filter is `InvalidInput` — errors, never panics -/
theorem unknown_table (s : Pkg) (n : List Char) (h : s.findTable n = none) :
    joinExec s (.table n) = .err .notFound := by
  unfold joinExec; simp [h]

theorem unknown_projection (t : Table) (names : List (List Char)) (acc : List Nat)
    (h : ∃ n ∈ names, t.indexOfColumn n = none) : projIndices t names acc = .err .invalidInput := by
  induction names generalizing acc with
  | nil => obtain ⟨n, hn, _⟩ := h; cases hn
  | cons x rest ih =>
    unfold projIndices
    cases hx : t.indexOfColumn x with
    | none => rfl
    | some i =>
      simp only
      apply ih
      obtain ⟨n, hn, hnone⟩ := h
      simp only [List.mem_cons] at hn
      rcases hn with rfl | hn
      · rw [hx] at hnone; cases hnone
      · exact ⟨n, hn, hnone⟩

end MsiProofs.C12
