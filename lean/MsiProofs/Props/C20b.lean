import MsiProofs.Props.C20
import MsiProofs.Lemmas.Lifecycle2
/-
C20, limits at state level — the row bound is enforced by the gate of `Insert::exec` before any
change (`insert_reply`: more than 65,536 rows = `InvalidInput`, and an accepted insert is read
back: `insert_view`); at the row bound of the catalog tables `create_table` is refused by its
first insert having changed nothing (`createTable_atomic`).
-/
namespace MsiProofs.C20

def insert_reply := @MsiProofs.Gate.insert_reply
def createTable_atomic := @MsiProofs.CreateAtomic.createTable_atomic
def tables_le_columns := @MsiProofs.CreateAtomic.tables_le_columns
def validation_le_columns := @MsiProofs.CreateAtomic.validation_le_columns

end MsiProofs.C20
