import MsiModel.Session
/-
C16 — opening and reading a package never modifies it.
In the model the read operations (`selectExec`, `readStream`, `streams`, `hasStream`,
`hasDigitalSignature`, the summary getters, table and column inspection) are functions of
the state that return no new state: they cannot write.  What remains is closing: an opened
package has no finisher, read operations never install one, and closing a package without
a finisher — by flush, by taking the medium back, or by dropping it — writes nothing.
-/
namespace MsiProofs.C16
open MsiModel MsiModel.Pkg

/-- an opened package holds exactly the container it was opened from; nothing is pending -/
theorem open_clean (pt : Option Nat) (cont : List Entry) (s : Pkg) (h : open_ pt cont = .ok s) :
    s.cont = cont ∧ s.finisher = false ∧ s.summaryModified = false := by
  unfold open_ at h
  split at h
  · cases h; exact ⟨rfl, rfl, rfl⟩
  · cases h
  · cases h

/-- the read-only requests of the session protocol -/
def isReadOnly : List String → Bool
  | "select" :: _ => true
  | ["stream_read", _] => true
  | ["has_stream", _] => true
  | ["streams"] => true
  | ["has_sig"] => true
  | ["snapshot"] => true
  | ["raw"] => true
  | _ => false

theorem withPkg_ro (st : Session.State) (g : Pkg → String) :
    (Session.withPkg st fun s => (st, g s)).1.pkg = st.pkg := by
  unfold Session.withPkg; split <;> rfl

/-- **a read-only request leaves the whole package state as it is** (container, pool,
tables, summary, pending-change flags and finisher) -/
theorem readonly_step_same (st : Session.State) (toks : List String) (st' : Session.State) (r : String)
    (hro : isReadOnly toks = true) (h : Session.step st toks = some (st', r)) : st'.pkg = st.pkg := by
  unfold isReadOnly at hro
  split at hro
  · -- select
    unfold Session.step at h
    simp only at h
    split at h
    · injection h with h
      have e := congrArg Prod.fst h
      simp only at e
      rw [← e]; exact withPkg_ro st _
    · cases h
  · unfold Session.step at h
    simp only [Option.map_eq_some_iff] at h
    obtain ⟨n, _, h⟩ := h
    have e := congrArg Prod.fst h
    simp only at e
    rw [← e]; exact withPkg_ro st _
  · unfold Session.step at h
    simp only [Option.map_eq_some_iff] at h
    obtain ⟨n, _, h⟩ := h
    have e := congrArg Prod.fst h
    simp only at e
    rw [← e]; exact withPkg_ro st _
  · unfold Session.step at h
    injection h with h
    have e := congrArg Prod.fst h
    simp only at e
    rw [← e]; exact withPkg_ro st _
  · unfold Session.step at h
    injection h with h
    have e := congrArg Prod.fst h
    simp only at e
    rw [← e]; exact withPkg_ro st _
  · unfold Session.step at h
    injection h with h
    have e := congrArg Prod.fst h
    simp only at e
    rw [← e]; exact withPkg_ro st _
  · unfold Session.step at h
    injection h with h
    have e := congrArg Prod.fst h
    simp only at e
    rw [← e]; exact withPkg_ro st _
  · cases hro

/-- closing a package that has no finisher writes nothing, in any of the three ways
(all three run `flush`'s finisher step; `dropClose` is the bytes left after a drop) -/
theorem close_clean (s : Pkg) (h : s.finisher = false) :
    flush s = (s, .ok ()) ∧ dropClose s = s.cont := by
  have hf : flush s = (s, .ok ()) := by simp [flush, h]
  exact ⟨hf, by simp [dropClose, hf]⟩

/-- **read-only sessions**: open, any sequence of read-only requests, close in any way:
the container is byte-for-byte what was opened and the finisher step found nothing to do -/
theorem readonly_session (pt : Option Nat) (cont : List Entry) (s : Pkg) (prof : Profile)
    (hopen : open_ pt cont = .ok s) (reqs : List (List String)) (hro : ∀ q ∈ reqs, isReadOnly q = true) :
    ∀ st', (reqs.foldl (fun (st : Option Session.State) q =>
        st.bind fun st => (Session.step st q).map (·.1)) (some ⟨prof, some s⟩)) = some st' →
      st'.pkg = some s ∧ flush s = (s, .ok ()) ∧ dropClose s = cont := by
  have hc := open_clean pt cont s hopen
  have hclose := close_clean s hc.2.1
  have key : ∀ (reqs : List (List String)) (st0 : Session.State), (∀ q ∈ reqs, isReadOnly q = true) →
      ∀ st', (reqs.foldl (fun (st : Option Session.State) q =>
        st.bind fun st => (Session.step st q).map (·.1)) (some st0)) = some st' → st'.pkg = st0.pkg := by
    intro reqs
    induction reqs with
    | nil => intro st0 _ st' h; simp at h; rw [← h]
    | cons q rest ih =>
      intro st0 hro st' h
      simp only [List.foldl_cons, Option.bind_some] at h
      cases hs : Session.step st0 q with
      | none =>
        rw [hs] at h
        simp only [Option.map_none] at h
        have : ∀ l : List (List String), l.foldl (fun (st : Option Session.State) q =>
            st.bind fun st => (Session.step st q).map (·.1)) none = none := by
          intro l; induction l with
          | nil => rfl
          | cons a b ihb => simpa using ihb
        rw [this] at h; cases h
      | some p =>
        obtain ⟨st1, r⟩ := p
        rw [hs] at h
        simp only [Option.map_some] at h
        have h1 := readonly_step_same st0 q st1 r (hro q (by simp)) hs
        have := ih st1 (fun x hx => hro x (by simp [hx])) st' h
        rw [this, h1]
  intro st' h
  have := key reqs ⟨prof, some s⟩ hro st' h
  exact ⟨this, hclose.1, by rw [hclose.2, hc.1]⟩

end MsiProofs.C16
