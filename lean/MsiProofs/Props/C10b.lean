import MsiProofs.Props.C10
import MsiProofs.Lemmas.ClosedLifecycle
/-
C10 over histories — from the summary information `SummaryInfo::new` builds (UTF-8), after ANY
sequence of the covered setters and clearers (title, subject, author, comments, creating
application with any text below 128 MiB; UUID; word count; creation time; clearing any of them),
the property set is well-formed, so it is written, and reading what was written gives it back.
-/
namespace MsiProofs.C10
open MsiModel MsiProofs.SummaryInv MsiProofs.ClosedLifecycle MsiProofs.PropSetCodec

/-- the summary setters and clearers keep the summary information well-formed -/
def sumInv_apply := @MsiProofs.SummaryInv.sumInv_apply
def sumInv_wf := @MsiProofs.SummaryInv.sumInv_wf
/-- what `SummaryInfo::new` builds satisfies the invariant -/
def newSummary_inv := @MsiProofs.ClosedLifecycle.newSummary_inv

theorem history_sumInv (ops : List SumOp) : ∀ (p : PropSet), SumInv p → (∀ op ∈ ops, op.Ok) →
    SumInv (ops.foldl (fun p op => op.apply p) p) := by
  induction ops with
  | nil => intro p h _; exact h
  | cons op rest ih =>
    intro p h hok
    exact ih _ (MsiProofs.SummaryInv.sumInv_apply p h op (hok op (by simp))) (fun o ho => hok o (by simp [ho]))

/-- **summary information survives saving over every history of setters and clearers** -/
theorem summary_history_roundtrip (ops : List SumOp) (hok : ∀ op ∈ ops, op.Ok) :
    ∃ bytes, (ops.foldl (fun p op => op.apply p) newSummary).write = .ok bytes ∧
      PropSet.read bytes = .ok (ops.foldl (fun p op => op.apply p) newSummary) :=
  propset_roundtrip _ (MsiProofs.SummaryInv.sumInv_wf _ (history_sumInv ops newSummary MsiProofs.ClosedLifecycle.newSummary_inv hok)).1

/-! ### with the template setters (`set_arch`, `set_languages`) -/

/-- the template setters keep the summary information well-formed -/
def sumInv_templ := @MsiProofs.SummaryInv.sumInv_templ

/-- any setter or clearer of the summary API -/
inductive AnyOp
  | basic (op : SumOp)
  | templ (op : TemplOp)

def AnyOp.apply : AnyOp → PropSet → PropSet
  | .basic op, p => op.apply p
  | .templ op, p => op.apply p

/-- admitted in state `p`: the arguments the API admits; for the template setters, a resulting
template text below 128 MiB -/
def AnyOp.OkIn (p : PropSet) : AnyOp → Prop
  | .basic op => op.Ok
  | .templ op => op.OkIn p

def runOps (p : PropSet) (ops : List AnyOp) : PropSet := ops.foldl (fun p op => op.apply p) p

def AdmOps : PropSet → List AnyOp → Prop
  | _, [] => True
  | p, op :: rest => op.OkIn p ∧ AdmOps (op.apply p) rest

theorem history_sumInv_all (ops : List AnyOp) : ∀ (p : PropSet), SumInv p → AdmOps p ops → SumInv (runOps p ops) := by
  induction ops with
  | nil => intro p h _; exact h
  | cons op rest ih =>
    intro p h hok
    refine ih _ ?_ hok.2
    cases op with
    | basic o => exact MsiProofs.SummaryInv.sumInv_apply p h o hok.1
    | templ o => exact MsiProofs.SummaryInv.sumInv_templ p h o hok.1

/-- **summary information survives saving over every history of ALL the setters and clearers**
(the five text properties, UUID, word count, creation time, architecture, languages) -/
theorem summary_history_roundtrip_all (ops : List AnyOp) (hok : AdmOps newSummary ops) :
    ∃ bytes, (runOps newSummary ops).write = .ok bytes ∧ PropSet.read bytes = .ok (runOps newSummary ops) :=
  propset_roundtrip _ (MsiProofs.SummaryInv.sumInv_wf _
    (history_sumInv_all ops newSummary MsiProofs.ClosedLifecycle.newSummary_inv hok)).1

/-- non-vacuity: architecture, languages, a title and a clear are admitted after `new` -/
example : AdmOps newSummary [.templ (.arch "x64".toList), .templ (.languages [1033, 1041]),
    .basic (.str Gen.propTitle "T".toList), .templ (.arch "Intel".toList), .basic (.clear Gen.propTitle)] := by
  refine ⟨?_, ?_, ?_, ?_, ?_, trivial⟩
  · show (MsiProofs.Utf8Lifecycle.utf8Bytes _).length < bound; decide +kernel
  · show (MsiProofs.Utf8Lifecycle.utf8Bytes _).length < bound; decide +kernel
  · show _ ∈ _ ∧ (MsiProofs.Utf8Lifecycle.utf8Bytes _).length < bound; decide +kernel
  · show (MsiProofs.Utf8Lifecycle.utf8Bytes _).length < bound; decide +kernel
  · show _ ∈ _; decide +kernel

end MsiProofs.C10
