import MsiProofs.Props.C10
import MsiProofs.Lemmas.ClosedLifecycle
/-
C10 over histories — from the summary information `SummaryInfo::new` builds (UTF-8), after ANY
sequence of the covered setters and clearers (title, subject, author, comments, creating
application with any text below 128 MiB; UUID; word count; creation time; clearing any of them),
the property set is well-formed, so it is written, and reading what was written gives it back.
-/
namespace MsiProofs.C10
open MsiModel MsiProofs.SummaryInv MsiProofs.ClosedLifecycle MsiProofs.PropSetCodec

/-- the summary setters and clearers keep the summary information well-formed -/
def sumInv_apply := @MsiProofs.SummaryInv.sumInv_apply
def sumInv_wf := @MsiProofs.SummaryInv.sumInv_wf
/-- what `SummaryInfo::new` builds satisfies the invariant -/
def newSummary_inv := @MsiProofs.ClosedLifecycle.newSummary_inv

theorem history_sumInv (ops : List SumOp) : ∀ (p : PropSet), SumInv p → (∀ op ∈ ops, op.Ok) →
    SumInv (ops.foldl (fun p op => op.apply p) p) := by
  induction ops with
  | nil => intro p h _; exact h
  | cons op rest ih =>
    intro p h hok
    exact ih _ (MsiProofs.SummaryInv.sumInv_apply p h op (hok op (by simp))) (fun o ho => hok o (by simp [ho]))

/-- **summary information survives saving over every history of setters and clearers** -/
theorem summary_history_roundtrip (ops : List SumOp) (hok : ∀ op ∈ ops, op.Ok) :
    ∃ bytes, (ops.foldl (fun p op => op.apply p) newSummary).write = .ok bytes ∧
      PropSet.read bytes = .ok (ops.foldl (fun p op => op.apply p) newSummary) :=
  propset_roundtrip _ (MsiProofs.SummaryInv.sumInv_wf _ (history_sumInv ops newSummary MsiProofs.ClosedLifecycle.newSummary_inv hok)).1

end MsiProofs.C10
