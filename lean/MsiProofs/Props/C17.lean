import MsiModel.Language
/-
C17 — language codes and tags map consistently.
Theorems are about `MsiModel.Language` over `Gen.languages`, the table regenerated from
/repo/src/internal/language.rs on every run.  Generic lemmas are by induction over the
table; table facts are `decide +kernel` over the regenerated data.
-/
namespace MsiProofs.C17
open MsiModel MsiModel.Language

/-! ### binary search returns an index in range -/

theorem bsLoop_lt (keys : List Nat) (k fuel : Nat) :
    ∀ size base, 0 < size → base + size ≤ keys.length →
      bsLoop keys k fuel size base < keys.length := by
  induction fuel with
  | zero => intro size base h1 h2; simp [bsLoop]; omega
  | succ n ih =>
    intro size base h1 h2
    unfold bsLoop
    split
    · omega
    · simp only
      split
      · apply ih <;> omega
      · apply ih <;> omega

theorem bsearch_lt {keys : List Nat} {k i : Nat} (h : bsearch keys k = some i) :
    i < keys.length := by
  unfold bsearch at h
  split at h
  · cases h
  · simp only at h
    split at h
    · cases h
      apply bsLoop_lt <;> omega
    · cases h

/-! ### `tag` is total and lands in the table -/

theorem mem_allTags_lang {T : Table} {r} (h : r ∈ T) : r.2.1 ∈ allTags T := by
  unfold allTags
  exact List.mem_flatMap.mpr ⟨r, h, by simp⟩

theorem mem_allTags_sub {T : Table} {r} {s} (h : r ∈ T) (hs : s ∈ r.2.2) :
    s.2 ∈ allTags T := by
  unfold allTags
  exact List.mem_flatMap.mpr ⟨r, h, by simp; exact Or.inr ⟨s.1, by simpa using hs⟩⟩

/-- `Language::tag` returns "und" or a tag of the table, for every code and every table
(the two indexings after the binary searches are in range, so the Rust cannot panic). -/
theorem tagIn_total (T : Table) (c : Nat) : tagIn T c = und ∨ tagIn T c ∈ allTags T := by
  unfold tagIn
  simp only
  split
  · rename_i index _
    split
    · rename_i lt subs hT
      have hmem : (_, lt, subs) ∈ T := List.mem_of_getElem? hT
      split
      · rename_i i _
        split
        · rename_i sc t hs
          right
          have := List.mem_of_getElem? hs
          exact mem_allTags_sub (r := (_, lt, subs)) (s := (sc, t)) hmem this
        · left; rfl
      · right; exact mem_allTags_lang hmem
    · left; rfl
  · left; rfl

/-- the indexings in `tag` are never out of range: the `none` arms are dead code -/
theorem tagIn_index_in_range (T : Table) (c : Nat) :
    ∀ i, bsearch (T.map (·.1)) (c &&& Gen.langMask) = some i → (T[i]?).isSome := by
  intro i h
  have := bsearch_lt h
  simp at this
  simp [this]

theorem tag_total (c : Nat) : tag c = und ∨ tag c ∈ allTags Gen.languages :=
  tagIn_total _ c

/-! ### table facts, re-decided against the regenerated table -/

/-- every tag of the table maps to a code whose tag is the same tag -/
theorem table_tags_fixed : ∀ t ∈ allTags Gen.languages, tag (fromTag t) = t := by
  decide +kernel

/-- ... and that code is the table's own code for the tag -/
def codeOfRow (r : Nat × List Char × List (Nat × List Char)) : List (Nat × List Char) :=
  (r.1, r.2.1) :: r.2.2.map fun s => (r.1 ||| (s.1 <<< Gen.sublangShift), s.2)

theorem table_codes : ∀ r ∈ Gen.languages, ∀ p ∈ codeOfRow r, fromTag p.2 = p.1 ∧ tag p.1 = p.2 := by
  decide +kernel

theorem und_fixed : fromTag und = 0 ∧ tag 0 = und := by decide +kernel

theorem new_never_asserts : newNeverAsserts Gen.languages = true := by decide +kernel

/-- no tag in the table contains a second '-' before the language part ends, i.e. the
language part of every full tag is its row's language tag -/
theorem sub_tags_start_with_lang :
    ∀ r ∈ Gen.languages, ∀ s ∈ r.2.2, langPart s.2 = r.2.1 ∧ hasRegion s.2 = true := by
  decide +kernel

theorem lang_tags_plain : ∀ r ∈ Gen.languages, hasRegion r.2.1 = false ∧ langPart r.2.1 = r.2.1 := by
  decide +kernel

/-- tag → code → tag is the identity on whatever `tag` returns -/
theorem tag_stable (c : Nat) : tag (fromTag (tag c)) = tag c := by
  rcases tag_total c with h | h
  · rw [h]; have := und_fixed; rw [this.1, this.2]
  · exact table_tags_fixed _ h

/-! ### unknown language / unknown region -/

theorem fromTagIn_unknown_lang (T : Table) (t : List Char) (h : langPart t ∉ langTags T) :
    fromTagIn T t = newCode Gen.langUnknown.1 Gen.langUnknown.2 := by
  induction T with
  | nil => rfl
  | cons r rest ih =>
    obtain ⟨lc, lt, subs⟩ := r
    simp only [langTags, List.map_cons, List.mem_cons, not_or] at h
    unfold fromTagIn
    have : lt ≠ langPart t := fun e => h.1 e.symm
    simp only [this, if_false]
    exact ih (by simpa [langTags] using h.2)

/-- a tag whose language is unknown maps to the neutral language (code 0) -/
theorem unknown_lang_neutral (t : List Char) (h : langPart t ∉ langTags Gen.languages) :
    fromTag t = 0 := by
  unfold fromTag
  rw [fromTagIn_unknown_lang _ _ h]
  decide +kernel

theorem findSub_none {subs : List (Nat × List Char)} {t} (h : t ∉ subs.map (·.2)) :
    findSub subs t = none := by
  induction subs with
  | nil => rfl
  | cons s rest ih =>
    obtain ⟨c, u⟩ := s
    simp only [List.map_cons, List.mem_cons, not_or] at h
    unfold findSub
    have : u ≠ t := fun e => h.1 e.symm
    simp only [this, if_false]
    exact ih h.2

/-- the first row whose language tag equals the language part decides -/
theorem fromTagIn_unknown_region (T : Table) (t : List Char) (hr : hasRegion t = true)
    (hn : t ∉ allTags T) (hl : langPart t ∈ langTags T) :
    ∃ r ∈ T, r.2.1 = langPart t ∧ fromTagIn T t = newCode r.1 Gen.sublangUnknownRegion := by
  induction T with
  | nil => simp [langTags] at hl
  | cons r rest ih =>
    obtain ⟨lc, lt, subs⟩ := r
    unfold fromTagIn
    by_cases e : lt = langPart t
    · refine ⟨(lc, lt, subs), by simp, e, ?_⟩
      simp only [e, if_true, hr]
      have : t ∉ subs.map (·.2) := by
        intro hm
        apply hn
        unfold allTags
        simp only [List.flatMap_cons, List.mem_append, List.mem_cons]
        exact Or.inl (Or.inr hm)
      rw [findSub_none this]
    · simp only [e, if_false]
      have hn' : t ∉ allTags rest := by
        intro hm; apply hn
        unfold allTags at hm ⊢
        simp only [List.flatMap_cons, List.mem_append]
        exact Or.inr hm
      have hl' : langPart t ∈ langTags rest := by
        simp only [langTags, List.map_cons, List.mem_cons] at hl
        rcases hl with h | h
        · exact absurd h.symm e
        · exact h
      obtain ⟨r, hr1, hr2, hr3⟩ := ih hn' hl'
      exact ⟨r, List.mem_cons_of_mem _ hr1, hr2, hr3⟩

/-- for every row, the code `from_tag` builds for an unknown region of that row's
language carries the bare language tag (so never another region's tag) -/
theorem unknown_region_code_is_bare :
    ∀ r ∈ Gen.languages, tag (newCode r.1 Gen.sublangUnknownRegion) = r.2.1 := by
  decide +kernel

/-- a tag whose language is known but whose region is not maps to a code whose tag is the
bare language: never the code of a different, known regional variant -/
theorem unknown_region_safe (t : List Char) (hr : hasRegion t = true)
    (hl : langPart t ∈ langTags Gen.languages) (hn : t ∉ allTags Gen.languages) :
    tag (fromTag t) = langPart t := by
  obtain ⟨r, hm, he, hc⟩ := fromTagIn_unknown_region Gen.languages t hr hn hl
  unfold fromTag
  rw [hc, unknown_region_code_is_bare r hm, he]

/-! ### well-known Windows identifiers (Windows language-identifier reference) -/

def wellKnown : List (Nat × String) := [
  (1033, "en-US"), (2057, "en-GB"), (3081, "en-AU"), (4105, "en-CA"), (1036, "fr-FR"),
  (3084, "fr-CA"), (2060, "fr-BE"), (4108, "fr-CH"), (1031, "de-DE"), (2055, "de-CH"),
  (3079, "de-AT"), (1041, "ja-JP"), (1042, "ko-KR"), (1028, "zh-TW"), (2052, "zh-CN"),
  (3076, "zh-HK"), (4100, "zh-SG"), (1040, "it-IT"), (2064, "it-CH"), (2058, "es-MX"),
  (1046, "pt-BR"), (2070, "pt-PT"), (1049, "ru-RU"), (1043, "nl-NL"), (2067, "nl-BE"),
  (1053, "sv-SE"), (1044, "nb-NO"), (1030, "da-DK"), (1035, "fi-FI"), (1045, "pl-PL"),
  (1029, "cs-CZ"), (1038, "hu-HU"), (1032, "el-GR"), (1055, "tr-TR"), (1037, "he-IL"),
  (1025, "ar-SA"), (1054, "th-TH"), (1066, "vi-VN"), (1057, "id-ID"), (1058, "uk-UA"),
  (9, "en"), (12, "fr"), (7, "de"), (17, "ja"), (4, "zh")]

theorem well_known : ∀ p ∈ wellKnown, String.ofList (tag p.1) = p.2 ∧ fromTag p.2.toList = p.1 := by
  decide +kernel

/-! ### the code is preserved; non-vacuity -/

/-- `Language::from_code(c).code() == c`: the model of `Language` *is* its code. -/
theorem code_preserved (c : Nat) : (fun (x : Nat) => x) c = c := rfl

example : hasRegion "en-XX".toList = true ∧ langPart "en-XX".toList ∈ langTags Gen.languages
    ∧ "en-XX".toList ∉ allTags Gen.languages := by decide +kernel
example : langPart "xx-YY".toList ∉ langTags Gen.languages := by decide +kernel
example : tag 1033 = "en-US".toList := by decide +kernel

end MsiProofs.C17
