import MsiModel.Expr
/-
C13 — expression evaluation is total and follows the documented operators.
Structural induction over expression trees (all depths); integers are Lean's `Int32`,
whose arithmetic is two's complement, so wrap-around is part of the statements.
-/
namespace MsiProofs.C13
open MsiModel MsiModel.Ast

/-! ### totality -/

/-- the operators themselves are total functions `Value → Value` in the model (no `Res`):
every panic branch of the Rust operators is gone after the wrapping fix, and the
three-way outcome diff of the harness checks that the real code agrees, in the dev
profile (overflow checks on) and in release. -/
theorem unop_total (op : UnOp) (v : Value) : ∃ w, op.eval v = w := ⟨_, rfl⟩
theorem binop_total (op : BinOp) (a b : Value) : ∃ w, op.eval a b = w := ⟨_, rfl⟩

theorem indexOf_lt {names : List (List Char)} {n i} (h : Row.indexOf names n = some i) :
    i < names.length := by
  induction names generalizing i with
  | nil => simp [Row.indexOf] at h
  | cons x xs ih =>
    unfold Row.indexOf at h
    split at h
    · cases h; simp
    · cases hx : Row.indexOf xs n with
      | none => simp [hx] at h
      | some j =>
        simp [hx] at h
        have := ih hx
        simp; omega

theorem indexOf_some_of_mem {names : List (List Char)} {n} (h : n ∈ names) :
    ∃ i, Row.indexOf names n = some i := by
  induction names with
  | nil => cases h
  | cons x xs ih =>
    unfold Row.indexOf
    by_cases e : x = n
    · exact ⟨0, by simp [e]⟩
    · have : n ∈ xs := by
        cases h with
        | head => exact absurd rfl e
        | tail _ h => exact h
      obtain ⟨i, hi⟩ := ih this
      exact ⟨i + 1, by simp [e, hi]⟩

/-- indexing a row by the name of one of its columns never panics -/
theorem row_get_ok (r : Row) (hwf : r.cols.length = r.vals.length) {n} (h : n ∈ r.cols) :
    ∃ v, r.get n = .ok v := by
  obtain ⟨i, hi⟩ := indexOf_some_of_mem h
  have hlt := indexOf_lt hi
  unfold Row.get
  rw [hi]
  have : i < r.vals.length := by omega
  simp [this]

/-- **evaluation never panics** on a row that has the referenced columns -/
theorem eval_total (e : Ast) (r : Row) (hwf : r.cols.length = r.vals.length)
    (h : ∀ n ∈ e.columns, n ∈ r.cols) : ∃ v, e.eval r = .ok v := by
  induction e with
  | lit v => exact ⟨v, rfl⟩
  | col n => exact row_get_ok r hwf (h n (by simp [Ast.columns]))
  | un op a ih =>
    obtain ⟨v, hv⟩ := ih (fun n hn => h n (by simpa [Ast.columns] using hn))
    exact ⟨op.eval v, by simp [Ast.eval, hv]⟩
  | bin op a b iha ihb =>
    obtain ⟨x, hx⟩ := iha (fun n hn => h n (by simp [Ast.columns]; exact Or.inl hn))
    obtain ⟨y, hy⟩ := ihb (fun n hn => h n (by simp [Ast.columns]; exact Or.inr hn))
    exact ⟨op.eval x y, by simp [Ast.eval, hx, hy]⟩
  | and a b iha ihb =>
    obtain ⟨x, hx⟩ := iha (fun n hn => h n (by simp [Ast.columns]; exact Or.inl hn))
    obtain ⟨y, hy⟩ := ihb (fun n hn => h n (by simp [Ast.columns]; exact Or.inr hn))
    cases hb : x.toBool
    · exact ⟨Value.fromBool false, by simp [Ast.eval, hx, hb]⟩
    · exact ⟨Value.fromBool y.toBool, by simp [Ast.eval, hx, hy, hb]⟩
  | or a b iha ihb =>
    obtain ⟨x, hx⟩ := iha (fun n hn => h n (by simp [Ast.columns]; exact Or.inl hn))
    obtain ⟨y, hy⟩ := ihb (fun n hn => h n (by simp [Ast.columns]; exact Or.inr hn))
    cases hb : x.toBool
    · exact ⟨Value.fromBool y.toBool, by simp [Ast.eval, hx, hy, hb]⟩
    · exact ⟨Value.fromBool true, by simp [Ast.eval, hx, hb]⟩

/-! ### folding at construction = lazy evaluation -/

theorem mkUn_eval (op : UnOp) (a : Ast) (r : Row) : (mkUn op a).eval r = (Ast.un op a).eval r := by
  cases a <;> simp [mkUn, Ast.eval]

theorem mkBin_eval (op : BinOp) (a b : Ast) (r : Row) :
    (mkBin op a b).eval r = (Ast.bin op a b).eval r := by
  cases a <;> cases b <;> simp [mkBin, Ast.eval]

/-- **an expression built from literal sub-expressions gives the same result as the same
expression evaluated lazily** (and building it is a total function: it cannot panic) -/
theorem build_eval (e : Ast) (r : Row) : (build e).eval r = e.eval r := by
  induction e with
  | lit v => rfl
  | col n => rfl
  | un op a ih => simp [build, mkUn_eval, Ast.eval, ih]
  | bin op a b iha ihb => simp [build, mkBin_eval, Ast.eval, iha, ihb]
  | and a b iha ihb => simp [build, Ast.eval, iha, ihb]
  | or a b iha ihb => simp [build, Ast.eval, iha, ihb]

theorem mkUn_columns (op : UnOp) (a : Ast) : (mkUn op a).columns = a.columns := by
  cases a <;> simp [mkUn, Ast.columns]

theorem mkBin_columns (op : BinOp) (a b : Ast) : (mkBin op a b).columns = a.columns ++ b.columns := by
  cases a <;> cases b <;> simp [mkBin, Ast.columns]

/-- folding does not change which columns an expression names -/
theorem build_columns (e : Ast) : (build e).columns = e.columns := by
  induction e with
  | lit v => rfl
  | col n => rfl
  | un op a ih => simp [build, mkUn_columns, Ast.columns, ih]
  | bin op a b iha ihb => simp [build, mkBin_columns, Ast.columns, iha, ihb]
  | and a b iha ihb => simp [build, Ast.columns, iha, ihb]
  | or a b iha ihb => simp [build, Ast.columns, iha, ihb]

/-! ### the operators: two's complement on integers, null for the documented error cases -/

/-- + - * on two integers: the two's-complement (wrapped) result -/
theorem arith_spec (x y : Int32) :
    BinOp.eval .add (.int x) (.int y) = .int (x + y) ∧ (x + y).toInt = (x.toInt + y.toInt).bmod (2 ^ 32) ∧
    BinOp.eval .sub (.int x) (.int y) = .int (x - y) ∧ (x - y).toInt = (x.toInt - y.toInt).bmod (2 ^ 32) ∧
    BinOp.eval .mul (.int x) (.int y) = .int (x * y) ∧ (x * y).toInt = (x.toInt * y.toInt).bmod (2 ^ 32) :=
  ⟨rfl, Int32.toInt_add x y, rfl, Int32.toInt_sub x y, rfl, Int32.toInt_mul x y⟩

theorem neg_spec (x : Int32) :
    UnOp.eval .neg (.int x) = .int (-x) ∧ (-x).toInt = (-x.toInt).bmod (2 ^ 32) ∧
    UnOp.eval .bitNot (.int x) = .int (~~~x) :=
  ⟨rfl, Int32.toInt_neg x, rfl⟩

/-- bitwise operators act on the 32-bit two's-complement representation -/
theorem bitwise_spec (x y : Int32) :
    BinOp.eval .bitAnd (.int x) (.int y) = .int (x &&& y) ∧ (x &&& y).toBitVec = x.toBitVec &&& y.toBitVec ∧
    BinOp.eval .bitOr (.int x) (.int y) = .int (x ||| y) ∧ (x ||| y).toBitVec = x.toBitVec ||| y.toBitVec ∧
    BinOp.eval .bitXor (.int x) (.int y) = .int (x ^^^ y) ∧ (x ^^^ y).toBitVec = x.toBitVec ^^^ y.toBitVec :=
  ⟨rfl, rfl, rfl, rfl, rfl, rfl⟩

/-- division: null for a zero divisor, otherwise truncating division wrapped to 32 bits
(only `MIN / -1` actually wraps) -/
theorem div_spec (x y : Int32) :
    BinOp.eval .div (.int x) (.int 0) = .null ∧
    (y ≠ 0 → BinOp.eval .div (.int x) (.int y) = .int (x / y)) ∧
    (y ≠ 0 → (x / y).toInt = (x.toInt.tdiv y.toInt).bmod (2 ^ 32)) := by
  refine ⟨by simp [BinOp.eval], fun h => by simp [BinOp.eval, h], fun _ => ?_⟩
  exact Int32.toInt_div x y

/-- shifts: a count in 0..31 shifts, anything else is null (never a panic) -/
theorem shift_spec (x n : Int32) :
    (BinOp.shiftOk n = true → BinOp.eval .shl (.int x) (.int n) = .int (x <<< n) ∧
                               BinOp.eval .shr (.int x) (.int n) = .int (x >>> n)) ∧
    (BinOp.shiftOk n = false → BinOp.eval .shl (.int x) (.int n) = .null ∧
                                BinOp.eval .shr (.int x) (.int n) = .null) := by
  constructor <;> intro h <;> simp [BinOp.eval, h]

/-- operands of the wrong type give null; string addition concatenates -/
theorem wrong_type_null (op : BinOp) (a b : Value)
    (hop : op = .sub ∨ op = .mul ∨ op = .div ∨ op = .bitAnd ∨ op = .bitOr ∨ op = .bitXor ∨ op = .shl ∨ op = .shr)
    (h : (∀ n, a ≠ .int n) ∨ (∀ n, b ≠ .int n)) : op.eval a b = .null := by
  rcases hop with rfl | rfl | rfl | rfl | rfl | rfl | rfl | rfl <;>
    cases a <;> cases b <;> first
      | rfl
      | (rcases h with h | h <;> exact absurd rfl (h _))

theorem add_spec (a b : Value) :
    BinOp.eval .add a b = match a, b with
      | .int x, .int y => .int (x + y)
      | .str s, .str t => .str (s ++ t)
      | _, _ => .null := by
  cases a <;> cases b <;> rfl

theorem unop_wrong_type_null (v : Value) (h : ∀ n, v ≠ .int n) :
    UnOp.eval .neg v = .null ∧ UnOp.eval .bitNot v = .null := by
  cases v <;> first | exact ⟨rfl, rfl⟩ | exact absurd rfl (h _)

def isBool (v : Value) : Prop := v = .int 0 ∨ v = .int 1

theorem fromBool_isBool (b : Bool) : isBool (Value.fromBool b) := by
  cases b <;> simp [Value.fromBool, isBool]

/-- comparisons return 0 or 1, and decide the derived ordering -/
theorem cmp_spec (a b : Value) :
    BinOp.eval .eq a b = Value.fromBool (a == b) ∧ BinOp.eval .ne a b = Value.fromBool (a != b) ∧
    BinOp.eval .lt a b = Value.fromBool (Value.lt a b) ∧ BinOp.eval .le a b = Value.fromBool (!Value.lt b a) ∧
    BinOp.eval .gt a b = Value.fromBool (Value.lt b a) ∧ BinOp.eval .ge a b = Value.fromBool (!Value.lt a b) :=
  ⟨rfl, rfl, rfl, rfl, rfl, rfl⟩

theorem cmp_isBool (op : BinOp) (a b : Value)
    (h : op = .eq ∨ op = .ne ∨ op = .lt ∨ op = .le ∨ op = .gt ∨ op = .ge) : isBool (op.eval a b) := by
  rcases h with rfl | rfl | rfl | rfl | rfl | rfl <;> exact fromBool_isBool _

/-- truthiness: null, zero and the empty string are false, everything else true -/
theorem truthy_spec (v : Value) :
    v.toBool = false ↔ (v = .null ∨ v = .int 0 ∨ v = .str []) := by
  cases v with
  | null => simp [Value.toBool]
  | int n => simp [Value.toBool]
  | str s => cases s <;> simp [Value.toBool]

/-- NOT / AND / OR return 0 or 1 under that truthiness; AND and OR short-circuit -/
theorem logic_spec (a b : Ast) (r : Row) (x : Value) (hx : a.eval r = .ok x) :
    (Ast.un .boolNot a).eval r = .ok (Value.fromBool (!x.toBool)) ∧
    (x.toBool = false → (Ast.and a b).eval r = .ok (.int 0)) ∧
    (x.toBool = true → (Ast.or a b).eval r = .ok (.int 1)) ∧
    (∀ y, b.eval r = .ok y →
      (Ast.and a b).eval r = .ok (Value.fromBool (x.toBool && y.toBool)) ∧
      (Ast.or a b).eval r = .ok (Value.fromBool (x.toBool || y.toBool))) := by
  refine ⟨by simp [Ast.eval, hx, UnOp.eval], ?_, ?_, ?_⟩
  · intro h; simp [Ast.eval, hx, h, Value.fromBool]
  · intro h; simp [Ast.eval, hx, h, Value.fromBool]
  · intro y hy
    cases hb : x.toBool <;> simp [Ast.eval, hx, hy, hb]

/-! ### non-vacuity and witnesses at the overflow points the property names -/

example : BinOp.eval .add (.int 2147483647) (.int 1) = .int (-2147483648) := by decide
example : BinOp.eval .div (.int (-2147483648)) (.int (-1)) = .int (-2147483648) := by decide
example : BinOp.eval .shl (.int 1) (.int 32) = .null := by decide
example : BinOp.eval .shr (.int 1) (.int (-1)) = .null := by decide
example : UnOp.eval .neg (.int (-2147483648)) = .int (-2147483648) := by decide
example : BinOp.eval .mul (.int 2147483647) (.int 2) = .int (-2) := by decide
example : (build (.bin .add (.lit (.int 2147483647)) (.lit (.int 1)))) = .lit (.int (-2147483648)) := by decide

/-! ### truth values used as values: what a builder may not "simplify" (seeded changes of rounds 9, 10) -/

theorem fromBool_toBool (b : Bool) : (Value.fromBool b).toBool = b := by
  cases b <;> rfl

/-- double negation is the coercion to 0 / 1, not the identity -/
theorem not_not_coerces (a : Ast) (r : Row) (x : Value) (hx : a.eval r = .ok x) :
    (Ast.un .boolNot (Ast.un .boolNot a)).eval r = .ok (Value.fromBool x.toBool) := by
  simp [Ast.eval, hx, UnOp.eval, fromBool_toBool]

/-- a true constant on the left does not make AND transparent, nor a false one OR: the result is the
TRUTH VALUE of the other operand -/
theorem const_left_coerces (a : Ast) (r : Row) (x : Value) (hx : a.eval r = .ok x) :
    (Ast.and (.lit (.int 1)) a).eval r = .ok (Value.fromBool x.toBool) ∧
    (Ast.or (.lit (.int 0)) a).eval r = .ok (Value.fromBool x.toBool) := by
  constructor <;> simp [Ast.eval, hx, Value.toBool]

/-- and the API's constructors keep these shapes over a column (they fold literals only) -/
theorem build_keeps_coercions (n : List Char) :
    build (.un .boolNot (.un .boolNot (.col n))) = .un .boolNot (.un .boolNot (.col n)) ∧
    build (.and (.lit (.int 1)) (.col n)) = .and (.lit (.int 1)) (.col n) ∧
    build (.or (.lit (.int 0)) (.col n)) = .or (.lit (.int 0)) (.col n) := ⟨rfl, rfl, rfl⟩

/-- the coercion matters: on the value 4 the three differ from the operand itself -/
example : (Ast.un .boolNot (Ast.un .boolNot (.lit (.int 4)))).eval ⟨[], []⟩ = .ok (.int 1) := by decide
example : (Ast.and (.lit (.int 1)) (.lit (.int 4))).eval ⟨[], []⟩ = .ok (.int 1) := by decide
example : (Ast.or (.lit (.int 0)) (.lit (.str ['x']))).eval ⟨[], []⟩ = .ok (.int 1) := by decide

end MsiProofs.C13
