import MsiModel.ExprLex
/-
Reading side of property C19 for statements: a reader of the printed TEXT of `UPDATE`, `DELETE`
and `INSERT` (the three `Display` implementations modelled in QueryFmt).  Fixed keywords with
their blanks, an identifier (a run of identifier characters), a literal (a quoted run without
quotes, or a run up to the next `,`, blank or `)`, handed to the expression lexer, which must
answer with exactly one literal token), `, ` between assignments, values and rows, and after
` WHERE ` the expression reader `readText` on the rest of the text.
Theorems: MsiProofs/Lemmas/StmtLex.lean.
-/
namespace MsiModel.StmtLex
open MsiModel

/-- strip a fixed prefix -/
def strip : List Char → List Char → Option (List Char)
  | [], s => some s
  | _ :: _, [] => none
  | p :: ps, c :: cs => if p = c then strip ps cs else none

/-- the longest prefix of characters satisfying `p`, and the rest -/
def spanP (p : Char → Bool) : List Char → List Char × List Char
  | [] => ([], [])
  | c :: r => if p c then ((spanP p r).1.cons c, (spanP p r).2) else ([], c :: r)

def litChar (c : Char) : Bool := c != ',' && c != ' ' && c != ')'
def notQuote (c : Char) : Bool := c != '"'

/-- cut one literal off the front of the text -/
def takeLit : List Char → Option (List Char × List Char)
  | [] => none
  | c :: r =>
    if c = '"' then
      match (spanP notQuote r).2 with
      | [] => none
      | _ :: rest => some ('"' :: (spanP notQuote r).1 ++ ['"'], rest)
    else some (spanP litChar (c :: r))

/-- one literal value and the text after it -/
def readLit (s : List Char) : Option (Value × List Char) :=
  match takeLit s with
  | none => none
  | some (chunk, rest) =>
    match lex chunk with
    | some [.lit v] => some (v, rest)
    | _ => none

/-- what follows the table name: nothing, or ` WHERE ` and an expression to the end -/
def readWhereText (s : List Char) : Option (Option Ast) :=
  match strip " WHERE ".toList s with
  | some r => (readText r).map some
  | none => match s with
    | [] => some none
    | _ => none

def readDeleteText (s : List Char) : Option (List Char × Option Ast) :=
  match strip "DELETE FROM ".toList s with
  | none => none
  | some r => (readWhereText (spanP isIdChar r).2).map fun c => ((spanP isIdChar r).1, c)

/-- assignments `c = v, c = v, ...`, then either the end or ` WHERE ` and the text after it -/
def readAssignsText : Nat → List Char → Option (List (List Char × Value) × Option (List Char))
  | 0, _ => none
  | fuel + 1, s =>
    match strip " = ".toList (spanP isIdChar s).2 with
    | none => none
    | some r2 =>
      match readLit r2 with
      | none => none
      | some (v, r3) =>
        match strip ", ".toList r3 with
        | some r4 => (readAssignsText fuel r4).map fun x => (((spanP isIdChar s).1, v) :: x.1, x.2)
        | none =>
          match strip " WHERE ".toList r3 with
          | some r5 => some ([((spanP isIdChar s).1, v)], some r5)
          | none =>
            match r3 with
            | [] => some ([((spanP isIdChar s).1, v)], none)
            | _ => none

def readUpdateText (s : List Char) : Option (List Char × List (List Char × Value) × Option Ast) :=
  match strip "UPDATE ".toList s with
  | none => none
  | some r =>
    match strip " SET ".toList (spanP isIdChar r).2 with
    | none => none
    | some r2 =>
      match readAssignsText (r2.length + 1) r2 with
      | none => none
      | some (ups, none) => some ((spanP isIdChar r).1, ups, none)
      | some (ups, some wt) => (readText wt).map fun e => ((spanP isIdChar r).1, ups, some e)

/-- values `v, v, ...)` to the closing parenthesis; returns them and the text after it -/
def readValsText : Nat → List Char → Option (List Value × List Char)
  | 0, _ => none
  | fuel + 1, s =>
    match readLit s with
    | none => none
    | some (v, r) =>
      match strip ", ".toList r with
      | some r2 => (readValsText fuel r2).map fun x => (v :: x.1, x.2)
      | none =>
        match strip [')'] r with
        | some r3 => some ([v], r3)
        | none => none

/-- one row `(v, v, ...)` or `()` -/
def readRowText (s : List Char) : Option (List Value × List Char) :=
  match strip ['(', ')'] s with
  | some r => some ([], r)
  | none =>
    match strip ['('] s with
    | some r => readValsText (r.length + 1) r
    | none => none

/-- rows `(...), (...), ...` to the end of the text -/
def readRowsText : Nat → List Char → Option (List (List Value))
  | 0, _ => none
  | fuel + 1, s =>
    match readRowText s with
    | none => none
    | some (row, r) =>
      match strip ", ".toList r with
      | some r2 => (readRowsText fuel r2).map (row :: ·)
      | none =>
        match r with
        | [] => some [row]
        | _ => none

def readInsertText (s : List Char) : Option (List Char × List (List Value)) :=
  match strip "INSERT INTO ".toList s with
  | none => none
  | some r =>
    match strip " VALUES ".toList (spanP isIdChar r).2 with
    | some r2 => (readRowsText (r2.length + 1) r2).map fun rows => ((spanP isIdChar r).1, rows)
    | none =>
      match (spanP isIdChar r).2 with
      | [] => some ((spanP isIdChar r).1, [])
      | _ => none

end MsiModel.StmtLex
