import MsiModel.Table
import MsiModel.Summary
/-
Model of src/internal/package.rs and src/internal/query.rs: the package state machine.
Row data lives only in the container (as in the code): every DML step reads the table's
stream, changes it and rewrites it.  A step returns the state it leaves behind *also on
error* (the code mutates through `&mut`), so "rejected operations change nothing" is a
theorem about `step`, not an artefact of the modelling.
-/
namespace MsiModel
open Bytes

/-- a stream of the compound file (storages are not modelled) -/
structure Entry where
  name : List Char
  data : Bytes
  deriving Repr, Inhabited, DecidableEq

structure Pkg where
  ptype : Nat                 -- 0 installer, 1 patch, 2 transform
  cont : List Entry           -- the container: what the medium holds
  summary : PropSet
  summaryModified : Bool
  pool : Pool
  tables : List Table         -- sorted by name (BTreeMap)
  finisher : Bool
  deriving Repr, Inhabited

/-! ### container (cfb) -/
namespace Cont

def upper (c : Char) : Char := if 97 ≤ c.toNat ∧ c.toNat ≤ 122 then Char.ofNat (c.toNat - 32) else c

/-- cfb compares names by UTF-16 length, then upper-cased text -/
def nameEq (a b : List Char) : Bool :=
  StreamName.utf16Len a == StreamName.utf16Len b && a.map upper == b.map upper

def find (c : List Entry) (n : List Char) : Option Entry := c.find? fun e => nameEq e.name n
def exists_ (c : List Entry) (n : List Char) : Bool := (find c n).isSome

/-- `create_stream` + writing `data` + flush: creates or overwrites -/
def put (c : List Entry) (n : List Char) (data : Bytes) : List Entry :=
  if exists_ c n then c.map fun e => if nameEq e.name n then { e with data := data } else e
  else c ++ [⟨n, data⟩]

def remove (c : List Entry) (n : List Char) : List Entry := c.filter fun e => !nameEq e.name n

end Cont

/-! ### catalog tables -/
namespace Catalog

def mkCol (name : String) (t : ColType) : Column := { name := name.toList, coltype := t }

def columnsTable (long : Bool) : Table :=
  ⟨Gen.nameColumns.toList,
   [{ mkCol "Table" (.str 64) with isPrimaryKey := true },
    { mkCol "Number" .int16 with isPrimaryKey := true },
    mkCol "Name" (.str 64),
    mkCol "Type" .int16], long⟩

def tablesTable (long : Bool) : Table :=
  ⟨Gen.nameTables.toList, [{ mkCol "Name" (.str 64) with isPrimaryKey := true }], long⟩

def validationColumns : List Column :=
  let lo : Int32 := -2147483647
  let hi : Int32 := 2147483647
  let cats := Category.all.filterMap fun c => c.asStr.map String.toList
  [{ mkCol "Table" (.str 32) with isPrimaryKey := true, category := some .identifier },
   { mkCol "Column" (.str 32) with isPrimaryKey := true, category := some .identifier },
   { mkCol "Nullable" (.str 4) with enumValues := ["Y".toList, "N".toList] },
   { mkCol "MinValue" .int32 with isNullable := true, valueRange := some (lo, hi) },
   { mkCol "MaxValue" .int32 with isNullable := true, valueRange := some (lo, hi) },
   { mkCol "KeyTable" (.str 255) with isNullable := true, category := some .identifier },
   { mkCol "KeyColumn" .int16 with isNullable := true, valueRange := some (1, 32) },
   { mkCol "Category" (.str 32) with isNullable := true, enumValues := cats },
   { mkCol "Set" (.str 255) with isNullable := true, category := some .text },
   { mkCol "Description" (.str 255) with isNullable := true, category := some .text }]

def validationTable (long : Bool) : Table := ⟨Gen.nameValidation.toList, validationColumns, long⟩

def isReserved (n : List Char) : Bool :=
  n == Gen.nameColumns.toList || n == Gen.nameTables.toList || n == Gen.nameValidation.toList

end Catalog

namespace Pkg

def findTable (s : Pkg) (n : List Char) : Option Table := s.tables.find? (·.name == n)

def insertTable (ts : List Table) (t : Table) : List Table :=
  match ts with
  | [] => [t]
  | x :: rest =>
    if Value.strLt t.name x.name then t :: x :: rest
    else if t.name == x.name then t :: rest
    else x :: insertTable rest t

/-- rows of a table as stored (empty when the stream does not exist) -/
def loadRows (s : Pkg) (t : Table) : Res (List (List Cell)) :=
  match Cont.find s.cont t.streamName with
  | some e => t.readRows e.data
  | none => pure []

def rowValues (p : Pool) (cells : List Cell) : List Value := cells.map (Cell.toValue p)

def mkRow (t : Table) (vals : List Value) : Row := ⟨t.columns.map (·.name), vals⟩

/-- lexicographic order on key tuples (derived `Ord` of `Vec<Value>`) -/
def keyLt : List Value → List Value → Bool
  | [], [] => false
  | [], _ :: _ => true
  | _ :: _, [] => false
  | a :: as, b :: bs => if Value.lt a b then true else if Value.lt b a then false else keyLt as bs

def keyOf (idx : List Nat) (vals : List Value) : List Value := idx.map fun i => vals.getD i .null

/-- insertion into a key-sorted association list (BTreeMap); `none` if the key exists -/
def mapInsert (k : List Value) (v : List Cell) :
    List (List Value × List Cell) → Option (List (List Value × List Cell))
  | [] => some [(k, v)]
  | (k', v') :: rest =>
    if keyLt k k' then some ((k, v) :: (k', v') :: rest)
    else if keyLt k' k then (mapInsert k v rest).map ((k', v') :: ·)
    else none

def mapContains (k : List Value) (m : List (List Value × List Cell)) : Bool :=
  m.any fun e => !keyLt k e.1 && !keyLt e.1 k

/-- names in an expression that the table lacks -/
def missingColumns (t : Table) (e : Ast) : Bool := e.columns.any fun n => !t.hasColumn n

/-- an optional condition names a column the table lacks -/
def condMissing (t : Table) : Option Ast → Bool
  | some e => missingColumns t e
  | none => false

/-- `Value::into_storable` -/
def storable : Value → Value
  | .str [] => .null
  | v => v

/-- write a table's rows back: `create_stream` then `write_rows` -/
def storeRows (s : Pkg) (t : Table) (rows : List (List Cell)) : Pkg × Res Unit :=
  match t.writeRows rows with
  | .ok bs => ({ s with cont := Cont.put s.cont t.streamName bs }, .ok ())
  | .err k => ({ s with cont := Cont.put s.cont t.streamName [] }, .err k)
  | .panic w => (s, .panic w)

def createCells : Pool → List Value → List Cell → Res (Pool × List Cell)
  | p, [], acc => pure (p, acc.reverse)
  | p, v :: vs, acc => do
    let (p', c) ← Cell.create p v
    createCells p' vs (c :: acc)

abbrev RowMap := List (List Value × List Cell)

/-- existing rows into the key-sorted map; `none` = two stored rows share a key -/
def loadMap (p : Pool) (keyIdx : List Nat) : List (List Cell) → RowMap → Option RowMap
  | [], m => some m
  | r :: rs, m =>
    match mapInsert (keyOf keyIdx (rowValues p r)) r m with
    | some m' => loadMap p keyIdx rs m'
    | none => none

/-- new keys against the table (`AlreadyExists`) and against each other (`InvalidInput`) -/
def checkNew (keyIdx : List Nat) (m : RowMap) : List (List Value) → List (List Value) → Option ErrKind
  | [], _ => none
  | r :: rs, seen =>
    let k := keyOf keyIdx r
    if mapContains k m then some .alreadyExists
    else if seen.contains k then some .invalidInput
    else checkNew keyIdx m rs (k :: seen)

/-- intern the new rows and put them into the map -/
def addRows (keyIdx : List Nat) : Pool → List (List Value) → RowMap → Res (Pool × RowMap)
  | p, [], m => pure (p, m)
  | p, r :: rs, m => do
    let (p', cells) ← createCells p r []
    match mapInsert (keyOf keyIdx r) cells m with
    | some m' => addRows keyIdx p' rs m'
    | none => .panic "unreachable: duplicate key after check"

/-- `Insert::exec` -/
def insertExec (s : Pkg) (tname : List Char) (newRows : List (List Value)) : Pkg × Res Unit :=
  match s.findTable tname with
  | none => (s, .err .notFound)
  | some t =>
    -- validate
    if newRows.any fun r => r.length ≠ t.columns.length then (s, .err .invalidInput) else
    if newRows.any fun r => (t.columns.zip r).any fun (c, v) => !c.isValidValue v then
      (s, .err .invalidInput) else
    let newRows := newRows.map fun r => r.map storable
    let keyIdx := t.keyIndices
    match s.loadRows t with
    | .err k => (s, .err k)
    | .panic w => (s, .panic w)
    | .ok existing =>
      match loadMap s.pool keyIdx existing [] with
      | none => (s, .err .invalidData)
      | some m =>
        match checkNew keyIdx m newRows [] with
        | some k => (s, .err k)
        | none =>
          if m.length + newRows.length > Gen.maxTableRows then (s, .err .invalidInput) else
          match addRows keyIdx s.pool newRows m with
          | .err k => (s, .err k)
          | .panic w => (s, .panic w)
          | .ok (pool', m') => storeRows { s with pool := pool' } t (m'.map (·.2))

def evalCond (t : Table) (p : Pool) (cond : Option Ast) (cells : List Cell) : Res Bool :=
  match cond with
  | none => pure true
  | some e => do
    let v ← e.eval (mkRow t (rowValues p cells))
    pure v.toBool

/-- the `retain` loop of `Delete::exec`: matching rows release their strings -/
def deleteGo (t : Table) (cond : Option Ast) : Pool → List (List Cell) → List (List Cell) →
    Res (Pool × List (List Cell))
  | p, [], acc => pure (p, acc.reverse)
  | p, r :: rs, acc => do
    let del ← evalCond t p cond r
    if del then deleteGo t cond (r.foldl Cell.remove p) rs acc else deleteGo t cond p rs (r :: acc)

/-- `Delete::exec` -/
def deleteExec (s : Pkg) (tname : List Char) (cond : Option Ast) : Pkg × Res Unit :=
  match s.findTable tname with
  | none => (s, .err .notFound)
  | some t =>
    if condMissing t cond then (s, .err .invalidInput) else
    match s.loadRows t with
    | .err k => (s, .err k)
    | .panic w => (s, .panic w)
    | .ok rows =>
      match deleteGo t cond s.pool rows [] with
      | .err k => (s, .err k)
      | .panic w => (s, .panic w)
      | .ok (pool', kept) => storeRows { s with pool := pool' } t kept

def setAt (l : List α) (i : Nat) (v : α) : List α := l.set i v

/-- insert row index `x` into a key-sorted list of row indices -/
def insByKey (keys : List (List Value)) (x : Nat) : List Nat → List Nat
  | [] => [x]
  | y :: ys =>
    if keyLt (keys.getD x []) (keys.getD y []) then x :: y :: ys else y :: insByKey keys x ys

/-- `order.sort_by(|a, b| keys[a].cmp(&keys[b]))` as an insertion sort (rows with equal keys
end up adjacent, which is all the duplicate check needs) -/
def sortByKey (keys : List (List Value)) (order : List Nat) : List Nat :=
  order.reverse.foldl (fun acc x => insByKey keys x acc) []

/-- validate the assignments of an UPDATE in order -/
def validateUpdates (t : Table) : List (List Char × Value) → Option ErrKind
  | [] => none
  | (n, v) :: rest =>
    match t.indexOfColumn n with
    | none => some .invalidInput
    | some i =>
      match t.columns[i]? with
      | none => some .invalidInput
      | some c => if c.isValidValue v then validateUpdates t rest else some .invalidInput

/-- new values of every row and whether it matched the condition -/
def updPlan (t : Table) (p : Pool) (cond : Option Ast) (ups : List (Nat × Value)) :
    List (List Cell) → List (List Value × Bool) → Res (List (List Value × Bool))
  | [], acc => pure acc.reverse
  | r :: rs, acc => do
    let m ← evalCond t p cond r
    let vals := rowValues p r
    let vals' := if m then ups.foldl (fun vs (i, v) => vs.set i v) vals else vals
    updPlan t p cond ups rs ((vals', m) :: acc)

/-- release the old cell, intern the new value, for each assignment -/
def cellsUpd : Pool → List Cell → List (Nat × Value) → Res (Pool × List Cell)
  | p, cells, [] => pure (p, cells)
  | p, cells, (i, v) :: us => do
    let p1 := Cell.remove p (cells.getD i .null)
    let (p2, c) ← Cell.create p1 v
    cellsUpd p2 (cells.set i c) us

def updApply (ups : List (Nat × Value)) : Pool → List (List Cell) → List (List Value × Bool) →
    List (List Cell) → Res (Pool × List (List Cell))
  | p, [], _, acc => pure (p, acc.reverse)
  | p, r :: rs, pl, acc =>
    match pl with
    | [] => pure (p, (r :: acc).reverse ++ rs)
    | (_, m) :: pl' =>
      if m then do
        let (p', cells') ← cellsUpd p r ups
        updApply ups p' rs pl' (cells' :: acc)
      else updApply ups p rs pl' (r :: acc)

/-- `Update::exec` -/
def updateExec (s : Pkg) (tname : List Char) (updates : List (List Char × Value)) (cond : Option Ast) :
    Pkg × Res Unit :=
  match s.findTable tname with
  | none => (s, .err .notFound)
  | some t =>
    match validateUpdates t updates with
    | some k => (s, .err k)
    | none =>
    if condMissing t cond then (s, .err .invalidInput) else
    match s.loadRows t with
    | .err k => (s, .err k)
    | .panic w => (s, .panic w)
    | .ok rows =>
      let ups : List (Nat × Value) := updates.filterMap fun (n, v) =>
        (t.indexOfColumn n).map fun i => (i, storable v)
      match updPlan t s.pool cond ups rows [] with
      | .err k => (s, .err k)
      | .panic w => (s, .panic w)
      | .ok planned =>
        let keyIdx := t.keyIndices
        let updatesKeys := ups.any fun (i, _) => keyIdx.contains i
        let keys := planned.map fun (vs, _) => keyOf keyIdx vs
        let order := if updatesKeys then sortByKey keys (List.range rows.length) else List.range rows.length
        let dup := updatesKeys && (order.zip (order.drop 1)).any fun (a, b) =>
          let ka := keys.getD a []
          let kb := keys.getD b []
          !keyLt ka kb && !keyLt kb ka
        if dup then (s, .err .alreadyExists) else
        match updApply ups s.pool rows planned [] with
        | .err k => (s, .err k)
        | .panic w => (s, .panic w)
        | .ok (pool', rows') =>
          let final := order.map fun i => rows'.getD i []
          storeRows { s with pool := pool' } t final

/-! ### select / join -/

mutual
inductive Join
  | table (name : List Char)
  | inner (l r : Select) (on : Ast)
  | left (l r : Select) (on : Ast)
inductive Select
  | mk (from_ : Join) (columns : List (List Char)) (cond : Option Ast)
end

instance : Inhabited Join := ⟨.table []⟩
instance : Inhabited Select := ⟨.mk (.table []) [] none⟩

/-- `Column::with_name_prefix` -/
def prefixed (pre : List Char) (c : Column) : Column :=
  if pre.isEmpty then c else { c with name := pre ++ ['.'] ++ c.name }

/-- the nested loops of `Join::exec`: for each left row in order, each right row in order -/
def joinInner (p : Pool) (t : Table) (on : Ast) (r1 : List Cell) :
    List (List Cell) → List (List Cell) → Bool → Res (List (List Cell) × Bool)
  | [], acc, found => pure (acc, found)
  | r2 :: rs2, acc, found => do
    let row := r1 ++ r2
    let v ← on.eval (mkRow t (rowValues p row))
    if v.toBool then joinInner p t on r1 rs2 (row :: acc) true else joinInner p t on r1 rs2 acc found

def joinRows (p : Pool) (t : Table) (on : Ast) (isLeft : Bool) (rightArity : Nat)
    (rows2 : List (List Cell)) : List (List Cell) → List (List Cell) → Res (List (List Cell))
  | [], acc => pure acc.reverse
  | r1 :: rest, acc => do
    let (acc', found) ← joinInner p t on r1 rows2 acc false
    let acc'' := if isLeft && !found then (r1 ++ List.replicate rightArity Cell.null) :: acc' else acc'
    joinRows p t on isLeft rightArity rows2 rest acc''

def projIndices (t : Table) : List (List Char) → List Nat → Res (List Nat)
  | [], acc => pure acc.reverse
  | n :: ns, acc =>
    match t.indexOfColumn n with
    | some i => projIndices t ns (i :: acc)
    | none => .err .invalidInput

def filterRows (t : Table) (p : Pool) (cond : Option Ast) :
    List (List Cell) → List (List Cell) → Res (List (List Cell))
  | [], acc => pure acc.reverse
  | r :: rs, acc => do
    let keep ← evalCond t p cond r
    filterRows t p cond rs (if keep then r :: acc else acc)

mutual
/-- `Join::exec` -/
def joinExec (s : Pkg) : Join → Res (Table × List (List Cell))
  | .table name =>
    match s.findTable name with
    | none => .err .notFound
    | some t => do
      let rows ← s.loadRows t
      pure (t, rows)
  | .inner l r on => do
    let (t1, rows1) ← selectExec s l
    let (t2, rows2) ← selectExec s r
    let cols := t1.columns.map (prefixed t1.name) ++ t2.columns.map (prefixed t2.name)
    let t : Table := ⟨[], cols, s.pool.longRefs⟩
    if missingColumns t on then .err .invalidInput else
    let rows ← joinRows s.pool t on false t2.columns.length rows2 rows1 []
    pure (t, rows)
  | .left l r on => do
    let (t1, rows1) ← selectExec s l
    let (t2, rows2) ← selectExec s r
    let cols := t1.columns.map (prefixed t1.name) ++
      t2.columns.map fun c => { prefixed t2.name c with isNullable := true }
    let t : Table := ⟨[], cols, s.pool.longRefs⟩
    if missingColumns t on then .err .invalidInput else
    let rows ← joinRows s.pool t on true t2.columns.length rows2 rows1 []
    pure (t, rows)

/-- `Select::exec` -/
def selectExec (s : Pkg) : Select → Res (Table × List (List Cell))
  | .mk from_ columns cond => do
    let (t, rows) ← joinExec s from_
    -- projection names first, then the condition
    let indices ← projIndices t columns []
    if condMissing t cond then .err .invalidInput else
    let rows' ← filterRows t s.pool cond rows []
    if indices.isEmpty then pure (t, rows')
    else
      let cols := indices.map fun i => t.columns.getD i default
      pure (⟨[], cols, t.longRefs⟩, rows'.map fun r => indices.map fun i => r.getD i .null)
end

end Pkg
end MsiModel
