import MsiModel.ExprRead
/-
The lexical layer of the reading side of property C19: characters to tokens, following the
lexical rules of the project's query grammar (examples/msiquery.pest): blanks separate,
identifiers are `[A-Za-z_][A-Za-z0-9_]*` joined by dots and are not keywords (keywords in any
letter case), integers are digits with an optional `-` directly in front, strings are quoted
(escapes are outside the property's domain and are refused), `<` `>` `!` combine with a
following `<` `>` `=`.  A `-` is one token for negation and subtraction alike (`Tok.minus`);
the reader tells them apart by position.
-/
namespace MsiModel

def isDigitC (c : Char) : Bool := 48 ≤ c.toNat && c.toNat ≤ 57
def isIdStart (c : Char) : Bool :=
  (65 ≤ c.toNat && c.toNat ≤ 90) || (97 ≤ c.toNat && c.toNat ≤ 122) || c.toNat == 95
def isIdChar (c : Char) : Bool := isIdStart c || isDigitC c || c.toNat == 46

/-- keywords of the grammar that may not be used as identifiers (compared in upper case) -/
def reservedWords : List (List Char) :=
  ["AND", "DELETE", "FALSE", "FROM", "INNER", "INSERT", "INTO", "JOIN", "LEFT", "NOT", "NULL", "ON",
   "OR", "SELECT", "SET", "TRUE", "UPDATE", "VALUES", "WHERE"].map String.toList

/-- the token of a complete word -/
def wordTok (w : List Char) : Option Tok :=
  let u := w.map Char.toUpper
  if u = "AND".toList then some .and
  else if u = "OR".toList then some .or
  else if u = "NOT".toList then some .not
  else if u = "NULL".toList then some (.lit .null)
  else if u = "TRUE".toList then some (.lit (.int 1))
  else if u = "FALSE".toList then some (.lit (.int 0))
  else if reservedWords.contains u then none
  else some (.ident w)

/-- the token of a complete run of digits (with or without a `-` directly in front);
`none` when the number does not fit 32 bits -/
def numTok (neg : Bool) (ds : List Char) : Option Tok :=
  let v := Nat.ofDigitChars 10 ds 0
  if neg then (if v ≤ 2147483648 then some (.lit (.int (Int32.ofInt (-(v : Int))))) else none)
  else (if v < 2147483648 then some (.lit (.int (Int32.ofInt (v : Int)))) else none)

inductive LexSt
  | idle
  | word (acc : List Char)
  | num (neg : Bool) (acc : List Char)
  | str (acc : List Char)
  | minus | lt | gt | bang

/-- a character met between tokens -/
def stepIdle (c : Char) : Option (LexSt × List Tok) :=
  if c = ' ' then some (.idle, [])
  else if c = '(' then some (.idle, [.lp])
  else if c = ')' then some (.idle, [.rp])
  else if c = '~' then some (.idle, [.tilde])
  else if c = '=' then some (.idle, [.op .eq])
  else if c = '+' then some (.idle, [.op .add])
  else if c = '*' then some (.idle, [.op .mul])
  else if c = '/' then some (.idle, [.op .div])
  else if c = '&' then some (.idle, [.op .bitAnd])
  else if c = '|' then some (.idle, [.op .bitOr])
  else if c = '^' then some (.idle, [.op .bitXor])
  else if c = '<' then some (.lt, [])
  else if c = '>' then some (.gt, [])
  else if c = '!' then some (.bang, [])
  else if c = '-' then some (.minus, [])
  else if c = '"' then some (.str [], [])
  else if isDigitC c then some (.num false [c], [])
  else if isIdStart c then some (.word [c], [])
  else none

/-- what a pending state emits when its token ends (at a delimiter or at the end of the text) -/
def endTok : LexSt → Option (List Tok)
  | .idle => some []
  | .word acc => (wordTok acc).map ([·])
  | .num neg acc => (numTok neg acc).map ([·])
  | .str _ => none
  | .minus => some [.minus]
  | .lt => some [.op .lt]
  | .gt => some [.op .gt]
  | .bang => none

/-- end the pending token, then treat `c` as a character between tokens -/
def flushThen (st : LexSt) (c : Char) : Option (LexSt × List Tok) :=
  match endTok st, stepIdle c with
  | some out, some (st', out') => some (st', out ++ out')
  | _, _ => none

def step (st : LexSt) (c : Char) : Option (LexSt × List Tok) :=
  match st with
  | .idle => stepIdle c
  | .word acc => if isIdChar c then some (.word (acc ++ [c]), []) else flushThen st c
  | .num neg acc =>
    if isDigitC c then some (.num neg (acc ++ [c]), [])
    else if isIdChar c then none          -- `12ab`: EndOfWord of the grammar's Integer
    else flushThen st c
  | .str acc =>
    if c = '"' then some (.idle, [.lit (.str acc)])
    else if c = '\\' then none            -- escapes: outside the property's domain
    else some (.str (acc ++ [c]), [])
  | .minus => if isDigitC c then some (.num true [c], []) else flushThen st c
  | .lt =>
    if c = '<' then some (.idle, [.op .shl])
    else if c = '=' then some (.idle, [.op .le])
    else flushThen st c
  | .gt =>
    if c = '>' then some (.idle, [.op .shr])
    else if c = '=' then some (.idle, [.op .ge])
    else flushThen st c
  | .bang => if c = '=' then some (.idle, [.op .ne]) else none

def lexFrom : LexSt → List Char → Option (List Tok)
  | st, [] => endTok st
  | st, c :: r => (step st c).bind fun x => (lexFrom x.1 r).map (x.2 ++ ·)

/-- characters to tokens -/
def lex (s : List Char) : Option (List Tok) := lexFrom .idle s

/-- **the reader of printed expressions**: lexical rules, then the precedence ladder -/
def readText (s : List Char) : Option Ast :=
  match lex s with
  | some ts => readExpr ts
  | none => none

/-- executable form of the identifier condition of the lexical theorem -/
def goodIdentB (n : List Char) : Bool :=
  match n with
  | [] => false
  | c :: w => isIdStart c && w.all isIdChar && (wordTok n == some (.ident n))

end MsiModel
