import MsiModel.Res
/-
Model of src/internal/value.rs: `Value` with the derived ordering
(`Null < Int _ < Str _`, integers by value, strings by UTF-8 bytes = by code point),
truthiness, and `Display`.
-/
namespace MsiModel

inductive Value
  | null
  | int (n : Int32)
  | str (s : List Char)
  deriving DecidableEq, Repr, Inhabited

namespace Value

/-- lexicographic `<` on strings (Rust compares UTF-8 bytes, which orders like code points) -/
def strLt : List Char → List Char → Bool
  | [], [] => false
  | [], _ :: _ => true
  | _ :: _, [] => false
  | a :: as, b :: bs => if a.val < b.val then true else if b.val < a.val then false else strLt as bs

/-- derived `PartialOrd`/`Ord`: variant order first -/
def lt : Value → Value → Bool
  | null, null => false
  | null, _ => true
  | int _, null => false
  | int a, int b => decide (a < b)
  | int _, str _ => true
  | str _, null => false
  | str _, int _ => false
  | str a, str b => strLt a b

def le (a b : Value) : Bool := !(lt b a)

def fromBool (b : Bool) : Value := if b then int 1 else int 0

/-- `Value::to_bool`: null, zero and the empty string are false -/
def toBool : Value → Bool
  | null => false
  | int n => n != 0
  | str s => !s.isEmpty

def isNull : Value → Bool | null => true | _ => false

/-- characters that Rust's `{:?}` prints verbatim inside the quotes (the model covers only
these; anything else makes `display` answer `none` = "not modelled") -/
def plainChar (c : Char) : Bool := 32 ≤ c.toNat && c.toNat < 127 && c != '"' && c != '\\'

def natDigits (n : Nat) : List Char := (toString n).toList

def intDisplay (n : Int) : List Char :=
  if n < 0 then '-' :: natDigits n.natAbs else natDigits n.toNat

/-- `impl Display for Value` -/
def display : Value → Option (List Char)
  | null => some "NULL".toList
  | int n => some (intDisplay n.toInt)
  | str s => if s.all plainChar then some ('"' :: s ++ ['"']) else none

end Value
end MsiModel
