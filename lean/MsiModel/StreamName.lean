import MsiModel.Gen.StreamName
/-
Model of src/internal/streamname.rs: the base-64 packing of stream names.
-/
namespace MsiModel.StreamName

def tablePrefix : Char := Char.ofNat Gen.snTablePrefix

/-- `to_b64` -/
def toB64 (c : Char) : Option Nat :=
  let n := c.toNat
  if 48 ≤ n ∧ n ≤ 57 then some (n - 48)
  else if 65 ≤ n ∧ n ≤ 90 then some (10 + n - 65)
  else if 97 ≤ n ∧ n ≤ 122 then some (36 + n - 97)
  else if n = 46 then some 62
  else if n = 95 then some 63
  else none

/-- `from_b64` (`debug_assert!(value < 64)` holds at both call sites: proved) -/
def fromB64 (v : Nat) : Char :=
  if v < 10 then Char.ofNat (v + 48)
  else if v < 36 then Char.ofNat (v - 10 + 65)
  else if v < 62 then Char.ofNat (v - 36 + 97)
  else if v = 62 then Char.ofNat 46
  else Char.ofNat 95

/-- body of `encode` after the optional table prefix -/
def encodeAux : List Char → List Char
  | [] => []
  | [c1] =>
    match toB64 c1 with
    | some v1 => [Char.ofNat (Gen.snSingleBase + v1)]
    | none => [c1]
  | c1 :: c2 :: rest =>
    match toB64 c1 with
    | some v1 =>
      match toB64 c2 with
      | some v2 => Char.ofNat (Gen.snPairBase + v2 * 64 + v1) :: encodeAux rest
      | none => Char.ofNat (Gen.snSingleBase + v1) :: encodeAux (c2 :: rest)
    | none => c1 :: encodeAux (c2 :: rest)

/-- `encode` -/
def encode (name : List Char) (isTable : Bool) : List Char :=
  (if isTable then [tablePrefix] else []) ++ encodeAux name

def decodeChar (c : Char) : List Char :=
  let v := c.toNat
  if Gen.snPairBase ≤ v ∧ v < Gen.snSingleBase then
    let w := v - Gen.snPairBase
    [fromB64 (w &&& 0x3f), fromB64 (w >>> 6)]
  else if Gen.snSingleBase ≤ v ∧ v < Gen.snTablePrefix then [fromB64 (v - Gen.snSingleBase)]
  else [c]

def decodeAux (s : List Char) : List Char := s.flatMap decodeChar

/-- `decode` -/
def decode (name : List Char) : List Char × Bool :=
  match name with
  | c :: rest => if c = tablePrefix then (decodeAux rest, true) else (decodeAux name, false)
  | [] => ([], false)

def utf16Len (s : List Char) : Nat := (s.map fun c => if c.toNat < 0x10000 then 1 else 2).sum

/-- the code points the packing itself produces -/
def inPackRange (c : Char) : Bool := decide (Gen.snPairBase ≤ c.toNat ∧ c.toNat < Gen.snTablePrefix)

/-- `is_reserved_char` (character list and range regenerated from the source) -/
def isReserved (c : Char) : Bool :=
  Gen.snReservedChars.contains c.toNat ||
    (match Gen.snReservedRange with
     | some (lo, hi) => decide (lo ≤ c.toNat ∧ c.toNat < hi)
     | none => false)

/-- `is_valid` -/
def isValid (name : List Char) (isTable : Bool) : Bool :=
  if name.isEmpty || (!isTable && name.head? == some tablePrefix) then false
  else if name.any isReserved then false
  else decide (utf16Len (encode name isTable) ≤ Gen.snMaxNameLen)

def specialNames : List (List Char) :=
  [Gen.snDigitalSignature.toList, Gen.snMsiDigitalSignatureEx.toList,
   Gen.snSummaryInfo.toList, Gen.snDocumentSummaryInfo.toList]

end MsiModel.StreamName
