import MsiModel.PropSet
import MsiModel.Timestamp
import MsiModel.Category
/-
Model of src/internal/summary.rs: `SummaryInfo` getters, setters and clearers.
-/
namespace MsiModel
namespace Summary

/-- `SummaryInfo::new` -/
def new (prof : Profile) : Res PropSet :=
  (PropSet.new Gen.summaryOs Gen.summaryOsVersion Gen.summaryFmtid).setCodepage prof PropSet.utf8

/-- `SummaryInfo::read` -/
def read (data : Bytes.Bytes) : Res PropSet := do
  let p ← PropSet.read data
  if p.fmtid ≠ Gen.summaryFmtid then .err .invalidData else pure p

def getStr (p : PropSet) (id : Nat) : Option (List Char) :=
  match p.get id with
  | some (.lpstr s) => some s
  | _ => none

/-- `split_once(';')` -/
def splitOnce (sep : Char) (s : List Char) : Option (List Char × List Char) :=
  if s.contains sep then some (s.takeWhile (· ≠ sep), (s.dropWhile (· ≠ sep)).drop 1) else none

def arch (p : PropSet) : Option (List Char) :=
  match getStr p Gen.propTemplate with
  | some t =>
    let a := match splitOnce ';' t with
      | some (x, _) => x
      | none => t
    if a.isEmpty then none else some a
  | none => none

def setArch (p : PropSet) (a : List Char) : PropSet :=
  let langs := match getStr p Gen.propTemplate with
    | some t => match splitOnce ';' t with
      | some (_, l) => l
      | none => []
    | none => []
  p.set Gen.propTemplate (.lpstr (a ++ [';'] ++ langs))

/-- `str::parse::<u16>()`: optional '+', digits, value ≤ 65535 -/
def parseU16 (s : List Char) : Option Nat :=
  let ds := match s with
    | '+' :: r => r
    | r => r
  if !ds.isEmpty && ds.all Category.isDigit && (ds.dropWhile (· == '0')).length ≤ 5 &&
      decide (Category.digitsValue ds ≤ 65535) then
    some (Category.digitsValue ds) else none

def languages (p : PropSet) : List Nat :=
  match getStr p Gen.propTemplate with
  | some t => match splitOnce ';' t with
    | some (_, l) => (Category.splitOn ',' l).filterMap parseU16
    | none => []
  | none => []

def setLanguages (p : PropSet) (codes : List Nat) : PropSet :=
  let a := match getStr p Gen.propTemplate with
    | some t => match splitOnce ';' t with
      | some (x, _) => x
      | none => t
    | none => []
  let ls := List.intercalate [','] (codes.map fun c => (toString c).toList)
  p.set Gen.propTemplate (.lpstr (a ++ [';'] ++ ls))

def creationTime (p : PropSet) : Option (Option Int) :=
  match p.get Gen.propCreationTime with
  | some (.fileTime t) => some (Timestamp.toSystemTime t)
  | _ => none

def setCreationTime (p : PropSet) (t : Int) : PropSet :=
  p.set Gen.propCreationTime (.fileTime (Timestamp.fromSystemTime t))

def wordCount (p : PropSet) : Option Int :=
  match p.get Gen.propWordCount with
  | some (.i4 n) => some n
  | _ => none

def hexUpper (n : Nat) : Char := if n < 10 then Char.ofNat (48 + n) else Char.ofNat (55 + n)
def hexLower (n : Nat) : Char := if n < 10 then Char.ofNat (48 + n) else Char.ofNat (87 + n)

def hexValC (c : Char) : Option Nat :=
  let n := c.toNat
  if 48 ≤ n ∧ n ≤ 57 then some (n - 48)
  else if 97 ≤ n ∧ n ≤ 102 then some (n - 87)
  else if 65 ≤ n ∧ n ≤ 70 then some (n - 55)
  else none

/-- `set_uuid`: argument = the 32 nibbles of the UUID -/
def setUuid (p : PropSet) (ns : List Nat) : PropSet :=
  let d := ns.map hexUpper
  let s := ['{'] ++ d.take 8 ++ ['-'] ++ (d.drop 8).take 4 ++ ['-'] ++ (d.drop 12).take 4 ++ ['-'] ++
    (d.drop 16).take 4 ++ ['-'] ++ d.drop 20 ++ ['}']
  p.set Gen.propUuid (.lpstr s)

/-- `uuid()`: trims braces, then `Uuid::parse_str` (simple and hyphenated forms modelled);
result = 32 nibbles -/
def uuid (p : PropSet) : Option (List Nat) :=
  match getStr p Gen.propUuid with
  | some s =>
    let t := ((s.dropWhile (· == '{')).reverse.dropWhile (· == '}')).reverse
    if t.length = 36 then
      match Category.splitOn '-' t with
      | [a, b, c, d, e] =>
        if a.length = 8 ∧ b.length = 4 ∧ c.length = 4 ∧ d.length = 4 ∧ e.length = 12 then
          (a ++ b ++ c ++ d ++ e).mapM hexValC
        else none
      | _ => none
    else if t.length = 32 then t.mapM hexValC
    else none
  | none => none

end Summary
end MsiModel
