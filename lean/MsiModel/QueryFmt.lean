import MsiModel.Pkg
/-
Model of the `Display` implementations of the four query kinds (src/internal/query.rs).
`none` = a string literal needing escapes (outside the modelled domain).
-/
namespace MsiModel.QueryFmt
open MsiModel MsiModel.Pkg

def joinWith (sep : List Char) : List (List Char) → List Char
  | [] => []
  | [x] => x
  | x :: rest => x ++ sep ++ joinWith sep rest

def optWhere (cond : Option Ast) : Option (List Char) :=
  match cond with
  | none => some []
  | some e => (e.fmt).map fun s => " WHERE ".toList ++ s

mutual
/-- `impl Display for Join` -/
def fmtJoin : Join → Option (List Char)
  | .table n => some n
  | .inner l r on => do
    let a ← fmtForJoin l
    let b ← fmtForJoin r
    let c ← on.fmt
    pure (a ++ " INNER JOIN ".toList ++ b ++ " ON ".toList ++ c)
  | .left l r on => do
    let a ← fmtForJoin l
    let b ← fmtForJoin r
    let c ← on.fmt
    pure (a ++ " LEFT JOIN ".toList ++ b ++ " ON ".toList ++ c)

/-- `impl Display for Select` -/
def fmtSelect : Select → Option (List Char)
  | .mk from_ cols cond => do
    let j ← fmtJoin from_
    let w ← optWhere cond
    let cs := if cols.isEmpty then ['*'] else joinWith ", ".toList cols
    pure ("SELECT ".toList ++ cs ++ " FROM ".toList ++ j ++ w)

/-- `Select::format_for_join`: a bare table name only for an unprojected, unfiltered base table -/
def fmtForJoin : Select → Option (List Char)
  | .mk from_ cols cond =>
    match from_, cols, cond with
    | .table n, [], none => some n
    | _, _, _ => do
      let j ← fmtJoin from_
      let w ← optWhere cond
      let cs := if cols.isEmpty then ['*'] else joinWith ", ".toList cols
      pure (['('] ++ "SELECT ".toList ++ cs ++ " FROM ".toList ++ j ++ w ++ [')'])
end

def fmtValues (vs : List Value) : Option (List Char) := do
  let parts ← vs.mapM Value.display
  pure (['('] ++ joinWith ", ".toList parts ++ [')'])

/-- `impl Display for Insert` -/
def fmtInsert (t : List Char) (rows : List (List Value)) : Option (List Char) := do
  let rs ← rows.mapM fmtValues
  pure ("INSERT INTO ".toList ++ t ++ (if rows.isEmpty then [] else " VALUES ".toList ++ joinWith ", ".toList rs))

/-- `impl Display for Update` -/
def fmtUpdate (t : List Char) (ups : List (List Char × Value)) (cond : Option Ast) : Option (List Char) := do
  let parts ← ups.mapM fun (c, v) => (v.display).map fun s => c ++ " = ".toList ++ s
  let w ← optWhere cond
  pure ("UPDATE ".toList ++ t ++ " SET ".toList ++ joinWith ", ".toList parts ++ w)

/-- `impl Display for Delete` -/
def fmtDelete (t : List Char) (cond : Option Ast) : Option (List Char) := do
  let w ← optWhere cond
  pure ("DELETE FROM ".toList ++ t ++ w)

end MsiModel.QueryFmt
