import MsiModel.Gen.Flush
/-
Effect model for C15: what an API call does to the container, as a script of actions, and
the contract of `cfb` about which of them can report a failed medium write.

K1  every action except dropping a stream object returns `Err` if a medium write it issues fails
K2  dropping a stream object flushes its buffer and *discards* the result
K4  after a successful explicit flush, dropping the stream object issues no medium write
K5  opening/reading/existence checks issue no medium write

How many medium writes an action issues is not modelled: `fails i` says whether *some*
medium write issued by the i-th action of the script fails.
-/
namespace MsiModel.Effects

inductive Act
  | createStream          -- `create_stream` (truncate / allocate): K1
  | write                 -- `write_all` into the stream buffer, spilling when full: K1
  | flushStream           -- explicit `flush()?` on the stream: K1
  | dropStream            -- the stream object goes out of scope: K2 / K4
  | removeStream          -- K1
  | flushFile             -- `CompoundFile::flush`: K1
  | read                  -- open/read/exists: K5
  deriving DecidableEq, Repr

structure Run where
  ok : Bool               -- the API call returned Ok
  failed : Nat            -- number of actions during which a medium write failed
  flushed : Bool          -- the current stream was explicitly flushed since it was created
  deriving Repr

/-- one action; `f` = some medium write issued by this action fails.  After the first
reported error the call is returning (`?`): later actions do not happen, except that the
stream object that is live at that point is still dropped. -/
def step (r : Run) (a : Act) (f : Bool) : Run :=
  match a with
  | .dropStream =>
    -- K4: nothing left to write after an explicit flush; K2: otherwise the failure is swallowed
    if r.flushed then { r with flushed := false }
    else { r with failed := r.failed + (if f then 1 else 0), flushed := false }
  | .read => r
  | .createStream =>
    if !r.ok then r
    else if f then { ok := false, failed := r.failed + 1, flushed := false }
    else { r with flushed := false }
  | .write =>
    if !r.ok then r
    else if f then { r with ok := false, failed := r.failed + 1, flushed := false }
    else { r with flushed := false }
  | .flushStream =>
    if !r.ok then r
    else if f then { r with ok := false, failed := r.failed + 1 }
    else { r with flushed := true }
  | .removeStream | .flushFile =>
    if !r.ok then r
    else if f then { r with ok := false, failed := r.failed + 1 }
    else r

def run (fails : Nat → Bool) : List Act → Nat → Run → Run
  | [], _, r => r
  | a :: rest, i, r => run fails rest (i + 1) (step r a (fails i))

def flushes (name : String) : Bool :=
  match Gen.flushDiscipline.find? (·.1 == name) with
  | some (_, b) => b
  | none => false

/-- script of one stream-writing function, given whether the source flushes explicitly -/
def writer (name : String) (nWrites : Nat) : List Act :=
  [.createStream] ++ List.replicate nWrites .write ++
    (if flushes name then [.flushStream] else []) ++ [.dropStream]

/-- `Insert/Update/Delete::exec`: read the table, rewrite it -/
def dmlScript (n : Nat) : List Act := [.read, .read] ++ writer "write_rows" n

/-- `FinishImpl::finish`: summary, pool, data (each only when modified) -/
def finishScript (sum pool : Bool) (n : Nat) : List Act :=
  (if sum then writer "propset_write" n else []) ++
  (if pool then writer "write_pool" n ++ writer "write_data" n else [])

/-- `Package::flush` -/
def flushScript (sum pool : Bool) (n : Nat) : List Act :=
  finishScript sum pool n ++ (if Gen.flushFlushesFile then [.flushFile] else [])

/-- every stream that is dropped was explicitly flushed just before, with nothing written in between -/
def wellFlushed : List Act → Bool → Bool
  | [], _ => true
  | .dropStream :: rest, fl => fl && wellFlushed rest false
  | .flushStream :: rest, _ => wellFlushed rest true
  | .createStream :: rest, _ => wellFlushed rest false
  | .write :: rest, _ => wellFlushed rest false
  | .read :: rest, fl => wellFlushed rest fl
  | .removeStream :: rest, fl => wellFlushed rest fl
  | .flushFile :: rest, fl => wellFlushed rest fl

end MsiModel.Effects
