import MsiModel.PkgApi
import MsiModel.WireExpr
import MsiModel.QueryFmt
import MsiModel.StmtLex
/-
Session interpreter of the driver: executes the package-level requests of the line
protocol on the model and renders replies in the canonical form shared with the harness.
-/
namespace MsiModel.Session
open MsiModel Bytes

structure State where
  prof : Profile
  pkg : Option Pkg

instance : Inhabited State := ⟨⟨Profile.dev, none⟩⟩

def resUnit : Res Unit → String
  | .ok () => "ok"
  | .err k => "err " ++ k.toString
  | .panic _ => "panic"

def hexSort (l : List String) : List String := (l.toArray.qsort (· < ·)).toList

/-- column description as the public getters show it (the foreign key is not public) -/
def colTokPublic (c : Column) : String := WireExpr.columnTok { c with foreignKey := none }

def rowsTok (p : Pool) (rows : List (List Cell)) : String :=
  " ".intercalate (rows.map fun r =>
    "r:" ++ ",".intercalate (r.map fun c => WireExpr.valueTok (c.toValue p)))

def selectReply (s : Pkg) (q : Pkg.Select) : String :=
  match Pkg.selectExec s q with
  | .ok (t, rows) =>
    s!"cols={"|".intercalate (t.columns.map colTokPublic)} n={rows.length} {rowsTok s.pool rows}"
  | .err k => "err " ++ k.toString
  | .panic _ => "panic"

def optStr : Option (List Char) → String
  | some s => Wire.hexOfStr s
  | none => "-"

def summaryTok (p : PropSet) : String :=
  let ct := match Summary.creationTime p with
    | some (some t) => s!"{t / 1000000000}.{t % 1000000000}"
    | some none => "panic"
    | none => "-"
  let uu := match Summary.uuid p with
    | some ns => String.ofList (ns.map Summary.hexLower)
    | none => "-"
  let wc := match Summary.wordCount p with
    | some n => toString n
    | none => "-"
  let cp := match CodePage.id p.codepage with
    | some n => toString n
    | none => "?"
  s!"arch={optStr (Summary.arch p)} author={optStr (Summary.getStr p Gen.propAuthor)} cp={cp} " ++
  s!"comments={optStr (Summary.getStr p Gen.propComments)} app={optStr (Summary.getStr p Gen.propCreatingApp)} " ++
  s!"ctime={ct} langs={",".intercalate ((Summary.languages p).map toString)} " ++
  s!"subject={optStr (Summary.getStr p Gen.propSubject)} title={optStr (Summary.getStr p Gen.propTitle)} " ++
  s!"uuid={uu} wc={wc}"

def snapshot (s : Pkg) : String :=
  let cp := match CodePage.id s.pool.codepage with
    | some n => toString n
    | none => "?"
  let tabs := s.tables.map fun t =>
    let rows := match Pkg.selectExec s (.mk (.table t.name) [] none) with
      | .ok (_, rows) => s!"n={rows.length} {rowsTok s.pool rows}"
      | .err k => "ERR:" ++ k.toString
      | .panic _ => "PANIC"
    s!"T[{Wire.hexOfStr t.name} {"|".intercalate (t.columns.map colTokPublic)} {rows}]"
  let strs := hexSort ((Pkg.streams s).map fun n =>
    match Pkg.readStream s n with
    | .ok d => s!"{Wire.hexOfStr n}={Wire.hexOfBytes d}"
    | .err k => s!"{Wire.hexOfStr n}=ERR:{k.toString}"
    | .panic _ => s!"{Wire.hexOfStr n}=PANIC")
  s!"pt={s.ptype} cp={cp} {" ".intercalate tabs} S[{" ".intercalate strs}] I[{summaryTok s.summary}] sig={if Pkg.hasDigitalSignature s then 1 else 0}"

def raw (s : Pkg) : String :=
  " ".intercalate (hexSort (s.cont.map fun e => s!"{Wire.hexOfStr e.name}={Wire.hexOfBytes e.data}"))

/-- the columns of a condition are grammar identifiers (the domain of the reading theorems) -/
def condGood : Option Ast → Bool
  | none => true
  | some e => e.columns.all goodIdentB

/-- self-check of the statement-reading theorems (C19b) on the very text that is diffed against
the real `to_string()`: in the theorems' domain, reading the text gives the statement back -/
def checkedUpdate (tn : List Char) (ups : List (List Char × Value)) (cond : Option Ast) : String :=
  match QueryFmt.fmtUpdate tn ups cond with
  | some x =>
    if goodIdentB tn && !ups.isEmpty && ups.all (fun p => goodIdentB p.1) && condGood cond
        && StmtLex.readUpdateText x != some (tn, ups, cond) then
      "MODEL-READER-DISAGREES " ++ Wire.hexOfStr x
    else Wire.hexOfStr x
  | none => "unmodelled"

def checkedDelete (tn : List Char) (cond : Option Ast) : String :=
  match QueryFmt.fmtDelete tn cond with
  | some x =>
    if goodIdentB tn && condGood cond && StmtLex.readDeleteText x != some (tn, cond) then
      "MODEL-READER-DISAGREES " ++ Wire.hexOfStr x
    else Wire.hexOfStr x
  | none => "unmodelled"

def checkedInsert (tn : List Char) (rows : List (List Value)) : String :=
  match QueryFmt.fmtInsert tn rows with
  | some x =>
    if goodIdentB tn && StmtLex.readInsertText x != some (tn, rows) then
      "MODEL-READER-DISAGREES " ++ Wire.hexOfStr x
    else Wire.hexOfStr x
  | none => "unmodelled"

/-- condition: `-` or an expression in prefix form (consumes the rest) -/
def parseCond (toks : List String) : Option (Option Ast × List String) :=
  match toks with
  | "-" :: rest => some (none, rest)
  | _ => match WireExpr.parseExpr (toks.length + 1) toks with
    | some (e, rest) => some (some (Ast.build e), rest)
    | none => none

/-- `with()` called once per condition: the restrictions are AND-ed, left to right -/
def parseConds : Nat → List String → Option Ast → Option (Option Ast × List String)
  | 0, rest, acc => some (acc, rest)
  | n+1, toks, acc =>
    match WireExpr.parseExpr (toks.length + 1) toks with
    | some (e, rest) =>
      parseConds n rest (some (match acc with | some c => Ast.and c (Ast.build e) | none => Ast.build e))
    | none => none

/-- `T name` | `IJ sel sel expr` | `LJ sel sel expr`; select = `SEL k cols.. cond join` -/
partial def parseJoin (toks : List String) : Option (Pkg.Join × List String) :=
  match toks with
  | "T" :: n :: rest => (Wire.strOfHex n).map fun name => (.table name, rest)
  | "IJ" :: rest => do
    let (l, r1) ← parseSelect rest
    let (r, r2) ← parseSelect r1
    let (e, r3) ← WireExpr.parseExpr (r2.length + 1) r2
    pure (.inner l r (Ast.build e), r3)
  | "LJ" :: rest => do
    let (l, r1) ← parseSelect rest
    let (r, r2) ← parseSelect r1
    let (e, r3) ← WireExpr.parseExpr (r2.length + 1) r2
    pure (.left l r (Ast.build e), r3)
  | _ => none
where
  parseSelect (toks : List String) : Option (Pkg.Select × List String) :=
    match toks with
    | "SEL" :: k :: rest => do
      let n ← k.toNat?
      let cols ← (rest.take n).mapM Wire.strOfHex
      let (cond, r1) ← parseCond (rest.drop n)
      let (j, r2) ← parseJoin r1
      pure (.mk j cols cond, r2)
    | _ => none

def parseRowsAux : Nat → List String → List (List Value) → Option (List (List Value))
  | 0, [], acc => some acc.reverse
  | 0, _, _ => none
  | k+1, a :: rest, acc => do
    let n ← a.toNat?
    let vals ← (rest.take n).mapM WireExpr.parseValue
    if vals.length ≠ n then none else parseRowsAux k (rest.drop n) (vals :: acc)
  | _, _, _ => none

def parseAssign : Nat → List String → List (List Char × Value) → Option (List (List Char × Value) × List String)
  | 0, rest, acc => some (acc.reverse, rest)
  | k+1, c :: v :: rest, acc => do
    let cn ← Wire.strOfHex c
    let val ← WireExpr.parseValue v
    parseAssign k rest ((cn, val) :: acc)
  | _, _, _ => none

def parseEntries (t : String) : Option (List Entry) :=
  if t = "-" then some [] else
  (WireExpr.splitOnChar ';' t).mapM fun kv =>
    match WireExpr.splitOnChar '=' kv with
    | [k, v] => do
      let n ← Wire.strOfHex k
      let d ← Wire.bytesOfHex v
      pure ⟨n, d⟩
    | _ => none

def sumStrProp : String → Option Nat
  | "title" => some Gen.propTitle | "subject" => some Gen.propSubject | "author" => some Gen.propAuthor
  | "comments" => some Gen.propComments | "app" => some Gen.propCreatingApp | _ => none

def withPkg (st : State) (f : Pkg → State × String) : State × String :=
  match st.pkg with
  | some s => f s
  | none => (st, "no-package")

def upd (st : State) (r : Pkg × Res Unit) : State × String :=
  ({ st with pkg := some r.1 }, resUnit r.2)

/-- mark the summary as modified, as `summary_info_mut()` does -/
def sumMut (s : Pkg) (f : PropSet → PropSet) : Pkg :=
  { s with summary := f s.summary, summaryModified := true, finisher := true }

def step (st : State) (toks : List String) : Option (State × String) :=
  match toks with
  | ["new", pt] =>
    match pt.toNat? with
    | some p =>
      match Pkg.create st.prof p with
      | .ok s => some ({ st with pkg := some s }, "ok")
      | .err k => some ({ st with pkg := none }, "err " ++ k.toString)
      | .panic _ => some ({ st with pkg := none }, "panic")
    | none => none
  | ["load", pt, entries] =>
    match parseEntries entries with
    | some es =>
      let p := if pt = "none" then none else pt.toNat?
      match Pkg.open_ p es with
      | .ok s => some ({ st with pkg := some s }, "ok")
      | .err k => some ({ st with pkg := none }, "err " ++ k.toString)
      | .panic _ => some ({ st with pkg := none }, "panic")
    | none => none
  | "create_table" :: n :: cols =>
    match Wire.strOfHex n, cols.mapM WireExpr.parseColumn with
    | some name, some cs => some (withPkg st fun s => upd st (Pkg.createTable s name cs))
    | _, _ => none
  | ["drop_table", n] =>
    (Wire.strOfHex n).map fun name => withPkg st fun s => upd st (Pkg.dropTable s name)
  | "insert" :: t :: k :: rest =>
    match Wire.strOfHex t, k.toNat? with
    | some tn, some kn =>
      (parseRowsAux kn rest []).map fun rows => withPkg st fun s => upd st (Pkg.insertRows s tn rows)
    | _, _ => none
  | "update" :: t :: k :: rest =>
    match Wire.strOfHex t, k.toNat? with
    | some tn, some kn =>
      match parseAssign kn rest [] with
      | some (ups, r1) =>
        match parseCond r1 with
        | some (cond, []) => some (withPkg st fun s => upd st (Pkg.updateRows s tn ups cond))
        | _ => none
      | none => none
    | _, _ => none
  | "delete" :: t :: rest =>
    match Wire.strOfHex t, parseCond rest with
    | some tn, some (cond, []) => some (withPkg st fun s => upd st (Pkg.deleteRows s tn cond))
    | _, _ => none
  | "select" :: rest =>
    match parseJoin.parseSelect rest with
    | some (q, []) => some (withPkg st fun s => (st, selectReply s q))
    | _ => none
  | ["stream_write", n, d] =>
    match Wire.strOfHex n, Wire.bytesOfHex d with
    | some name, some data => some (withPkg st fun s => upd st (Pkg.writeStream s name data))
    | _, _ => none
  | ["stream_read", n] =>
    (Wire.strOfHex n).map fun name => withPkg st fun s =>
      (st, match Pkg.readStream s name with
        | .ok d => Wire.hexOfBytes d
        | .err k => "err " ++ k.toString
        | .panic _ => "panic")
  | ["stream_remove", n] =>
    (Wire.strOfHex n).map fun name => withPkg st fun s => upd st (Pkg.removeStream s name)
  | ["has_stream", n] =>
    (Wire.strOfHex n).map fun name => withPkg st fun s => (st, if Pkg.hasStream s name then "1" else "0")
  | ["streams"] =>
    some (withPkg st fun s => (st, ",".intercalate (hexSort ((Pkg.streams s).map Wire.hexOfStr))))
  | ["has_sig"] => some (withPkg st fun s => (st, if Pkg.hasDigitalSignature s then "1" else "0"))
  | ["remove_sig"] => some (withPkg st fun s => ({ st with pkg := some (Pkg.removeDigitalSignature s) }, "ok"))
  | ["sum_set", prop, arg] =>
    match sumStrProp prop with
    | some id =>
      (Wire.strOfHex arg).map fun v => withPkg st fun s =>
        ({ st with pkg := some (sumMut s fun p => p.set id (.lpstr v)) }, "ok")
    | none =>
      match prop with
      | "arch" => (Wire.strOfHex arg).map fun v => withPkg st fun s =>
          ({ st with pkg := some (sumMut s fun p => Summary.setArch p v) }, "ok")
      | "langs" =>
        let codes := if arg = "-" then some [] else (WireExpr.splitOnChar ',' arg).mapM String.toNat?
        codes.map fun cs => withPkg st fun s =>
          ({ st with pkg := some (sumMut s fun p => Summary.setLanguages p cs) }, "ok")
      | "wc" => arg.toInt?.map fun n => withPkg st fun s =>
          ({ st with pkg := some (sumMut s fun p => p.set Gen.propWordCount (.i4 n)) }, "ok")
      | "uuid" => (arg.toList.mapM Wire.hexVal).map fun ns => withPkg st fun s =>
          ({ st with pkg := some (sumMut s fun p => Summary.setUuid p ns) }, "ok")
      | "ctime" =>
        match WireExpr.splitOnChar '.' arg with
        | [a, b] =>
          match a.toInt?, b.toNat? with
          | some secs, some nanos => some (withPkg st fun s =>
              ({ st with pkg := some (sumMut s fun p => Summary.setCreationTime p (secs * 1000000000 + nanos)) }, "ok"))
          | _, _ => none
        | _ => none
      | "cp" =>
        match Gen.cpVariants.idxOf? arg with
        | some cp => some (withPkg st fun s =>
            match s.summary.setCodepage st.prof cp with
            | .ok p => ({ st with pkg := some (sumMut s fun _ => p) }, "ok")
            | .err k => (st, "err " ++ k.toString)
            | .panic _ => ({ st with pkg := some (sumMut s id) }, "panic"))
        | none => none
      | _ => none
  | ["sum_clear", prop] =>
    let id := match sumStrProp prop with
      | some i => some i
      | none => match prop with
        | "wc" => some Gen.propWordCount | "uuid" => some Gen.propUuid | "ctime" => some Gen.propCreationTime
        | _ => none
    match id with
    | some i => some (withPkg st fun s => ({ st with pkg := some (sumMut s fun p => p.remove i) }, "ok"))
    | none =>
      match prop with
      | "arch" => some (withPkg st fun s => ({ st with pkg := some (sumMut s fun p => Summary.setArch p []) }, "ok"))
      | "langs" => some (withPkg st fun s => ({ st with pkg := some (sumMut s fun p => Summary.setLanguages p []) }, "ok"))
      | _ => none
  | ["set_db_cp", name] =>
    (Gen.cpVariants.idxOf? name).map fun cp => withPkg st fun s =>
      ({ st with pkg := some { s with finisher := true, pool := { s.pool with codepage := cp, modified := true } } }, "ok")
  | ["flush"] => some (withPkg st fun s => upd st (Pkg.flush s))
  | ["reopen", mode] =>
    some (withPkg st fun s =>
      let (s', r) := Pkg.flush s
      match mode, r with
      | _, .err .unmodelled => ({ st with pkg := none }, "err UNMODELLED")
      | "into_inner", .err k => ({ st with pkg := none }, "close-err " ++ k.toString)
      | "flush", .err k => ({ st with pkg := some s' }, "close-err " ++ k.toString)
      | _, .panic _ => ({ st with pkg := none }, "panic")
      | _, _ =>
        match Pkg.open_ (some s'.ptype) s'.cont with
        | .ok s2 => ({ st with pkg := some s2 }, "ok")
        | .err k => ({ st with pkg := none }, "err " ++ k.toString)
        | .panic _ => ({ st with pkg := none }, "panic"))
  | "fmtq" :: "select" :: rest =>
    match parseJoin.parseSelect rest with
    | some (q, []) => some (st, match QueryFmt.fmtSelect q with | some t => Wire.hexOfStr t | none => "unmodelled")
    | _ => none
  | "fmtq" :: "insert" :: t :: k :: rest =>
    match Wire.strOfHex t, k.toNat? with
    | some tn, some kn =>
      (parseRowsAux kn rest []).map fun rows =>
        (st, checkedInsert tn rows)
    | _, _ => none
  | "fmtq" :: "update" :: t :: k :: rest =>
    match Wire.strOfHex t, k.toNat? with
    | some tn, some kn =>
      match parseAssign kn rest [] with
      | some (ups, r1) =>
        match parseCond r1 with
        | some (cond, []) => some (st, checkedUpdate tn ups cond)
        | _ => none
      | none => none
    | _, _ => none
  | "fmtq" :: "deletew" :: t :: n :: rest =>
    match Wire.strOfHex t, n.toNat? with
    | some tn, some k =>
      match parseConds k rest none with
      | some (cond, []) => some (st, checkedDelete tn cond)
      | _ => none
    | _, _ => none
  | "fmtq" :: "updatew" :: t :: k :: rest =>
    match Wire.strOfHex t, k.toNat? with
    | some tn, some kn =>
      match parseAssign kn rest [] with
      | some (ups, n :: r1) =>
        match n.toNat? with
        | some nn =>
          match parseConds nn r1 none with
          | some (cond, []) => some (st, checkedUpdate tn ups cond)
          | _ => none
        | none => none
      | _ => none
    | _, _ => none
  | "fmtq" :: "delete" :: t :: rest =>
    match Wire.strOfHex t, parseCond rest with
    | some tn, some (cond, []) => some (st, checkedDelete tn cond)
    | _, _ => none
  | ["snapshot"] => some (withPkg st fun s => (st, snapshot s))
  | ["raw"] => some (withPkg st fun s => (st, raw s))
  | _ => none

end MsiModel.Session
