import MsiModel.Gen.Timestamp
/-
Model of src/internal/timestamp.rs.  A `SystemTime` on the platform the checks run on
(64-bit Linux: `Timespec { tv_sec : i64, tv_nsec < 10^9 }`) is modelled as its signed
distance from `UNIX_EPOCH` in nanoseconds (`Int`); a Windows timestamp is a `Nat` below
2^64 (100-ns ticks since 1601-01-01).  `u64` arithmetic is modelled with the saturating
operations the code uses.  Constants come from `Gen.Timestamp` (regenerated from source).
-/
namespace MsiModel.Timestamp

def u64Max : Nat := 18446744073709551615
def i64Max : Nat := 9223372036854775807
def nsPerSec : Nat := 1000000000

def satAdd (a b : Nat) : Nat := min (a + b) u64Max
def satMul (a b : Nat) : Nat := min (a * b) u64Max

/-- `duration_to_timestamp_delta`: `as_secs().saturating_mul(10_000_000).saturating_add((subsec_nanos()/100) as u64)` -/
def durationToDelta (secs nanos : Nat) : Nat :=
  satAdd (satMul secs Gen.ticksPerSec) (nanos / Gen.nanosPerTick)

/-- `timestamp_from_system_time` (argument: signed nanoseconds from the Unix epoch) -/
def fromSystemTime (t : Int) : Nat :=
  if 0 ≤ t then
    let d := t.toNat
    satAdd Gen.unixEpochTicks (durationToDelta (d / nsPerSec) (d % nsPerSec))
  else
    let d := (-t).toNat
    Gen.unixEpochTicks - durationToDelta (d / nsPerSec) (d % nsPerSec)   -- saturating_sub

/-- `timestamp_delta_to_duration`, as total nanoseconds; `none` models the `u32` overflow
of `(delta % 10_000_000) as u32 * 100` (a panic with overflow checks) -/
def deltaToDuration (delta : Nat) : Option (Nat × Nat) :=
  let sub := (delta % Gen.backTicksPerSecMod) % 4294967296      -- `as u32`
  if sub * Gen.backNanosPerTick < 4294967296 then
    some (delta / Gen.backTicksPerSecDiv, sub * Gen.backNanosPerTick)
  else none

/-- `system_time_from_timestamp`: `checked_add`/`checked_sub` on `UNIX_EPOCH`, falling back
to `UNIX_EPOCH` (0) when the `i64` seconds overflow; `none` = arithmetic panic -/
def toSystemTime (k : Nat) : Option Int :=
  if k ≥ Gen.unixEpochTicks then
    match deltaToDuration (k - Gen.unixEpochTicks) with
    | none => none
    | some (s, n) =>
      -- Duration::new carries nanos ≥ 10^9 into the seconds
      let s' := s + n / nsPerSec
      if s' > i64Max then some 0 else some ((s' * nsPerSec + n % nsPerSec : Nat) : Int)
  else
    match deltaToDuration (Gen.unixEpochTicks - k) with
    | none => none
    | some (s, n) =>
      let s' := s + n / nsPerSec
      if s' > i64Max + 1 then some 0 else some (-((s' * nsPerSec + n % nsPerSec : Nat) : Int))

/-- the earliest / latest instants the 64-bit tick counter represents, in ns from 1970 -/
def minNs : Int := -((Gen.unixEpochTicks * 100 : Nat) : Int)
def maxNs : Int := (((u64Max - Gen.unixEpochTicks) * 100 : Nat) : Int)

end MsiModel.Timestamp
