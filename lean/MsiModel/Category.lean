import MsiModel.Gen.Category
/-
Model of src/internal/category.rs: the 26 categories, their spellings (regenerated from
the source) and `Category::validate`.  Strings are `List Char`; `str::len()` is the UTF-8
byte length, `chars().count()` the list length.
-/
namespace MsiModel

/-- category = index into `Gen.categoryAll` (the order of `Category::all()`) -/
inductive Category
  | text | upperCase | lowerCase | integer | doubleInteger | timeDate | identifier | property
  | filename | wildCardFilename | path | paths | anyPath | defaultDir | regPath | formatted
  | formattedSddlText | template | condition | guid | version | language | binary
  | customSource | cabinet | shortcut
  deriving DecidableEq, Repr, Inhabited

namespace Category

def all : List Category :=
  [text, upperCase, lowerCase, integer, doubleInteger, timeDate, identifier, property,
   filename, wildCardFilename, path, paths, anyPath, defaultDir, regPath, formatted,
   formattedSddlText, template, condition, guid, version, language, binary,
   customSource, cabinet, shortcut]

/-- Rust variant name, used to look the category up in the regenerated tables -/
def variantName : Category → String
  | text => "Text" | upperCase => "UpperCase" | lowerCase => "LowerCase" | integer => "Integer"
  | doubleInteger => "DoubleInteger" | timeDate => "TimeDate" | identifier => "Identifier"
  | property => "Property" | filename => "Filename" | wildCardFilename => "WildCardFilename"
  | path => "Path" | paths => "Paths" | anyPath => "AnyPath" | defaultDir => "DefaultDir"
  | regPath => "RegPath" | formatted => "Formatted" | formattedSddlText => "FormattedSddlText"
  | template => "Template" | condition => "Condition" | guid => "Guid" | version => "Version"
  | language => "Language" | binary => "Binary" | customSource => "CustomSource"
  | cabinet => "Cabinet" | shortcut => "Shortcut"

def ofVariantName (n : String) : Option Category := all.find? (·.variantName == n)

/-- `Category::as_str` via the regenerated table -/
def asStr (c : Category) : Option String :=
  (Gen.categoryAsStr.find? (·.1 == c.variantName)).map (·.2)

/-- `Category::from_str` via the regenerated table -/
def fromStr (s : String) : Option Category :=
  ((Gen.categoryFromStr.find? (·.1 == s)).map (·.2)).bind ofVariantName

/-! ### character classes and string helpers (Rust `std` behaviour) -/

def isLower (c : Char) : Bool := 'a' ≤ c && c ≤ 'z'
def isUpper (c : Char) : Bool := 'A' ≤ c && c ≤ 'Z'
def isDigit (c : Char) : Bool := '0' ≤ c && c ≤ '9'
def isAlpha (c : Char) : Bool := isLower c || isUpper c
def isAlnum (c : Char) : Bool := isAlpha c || isDigit c
def isHex (c : Char) : Bool := isDigit c || ('a' ≤ c && c ≤ 'f') || ('A' ≤ c && c ≤ 'F')

def utf8Len (s : List Char) : Nat := (s.map fun c => c.utf8Size).sum

/-- `str::split(sep)`: always at least one part -/
def splitOn (sep : Char) : List Char → List (List Char)
  | [] => [[]]
  | c :: cs =>
    if c = sep then [] :: splitOn sep cs
    else match splitOn sep cs with
      | h :: t => (c :: h) :: t
      | [] => [[c]]

/-- `rsplitn(2, sep)` reversed: `(before last sep, some after)` or `(whole, none)` -/
def splitLast (sep : Char) (s : List Char) : List Char × Option (List Char) :=
  match (splitOn sep s).reverse with
  | [] => (s, none)
  | [_] => (s, none)
  | last :: revInit => ((List.intercalate [sep] revInit.reverse), some last)

def digitsValue (ds : List Char) : Nat := ds.foldl (fun acc c => acc * 10 + (c.toNat - 48)) 0

/-- `str::parse::<i16/i32>()` succeeds: optional single sign, one or more digits, in range -/
def parsesSigned (lo hi : Int) (s : List Char) : Bool :=
  let (neg, ds) := match s with
    | '-' :: ds => (true, ds)
    | '+' :: ds => (false, ds)
    | ds => (false, ds)
  !ds.isEmpty && ds.all isDigit &&
    (let v : Int := if neg then -(digitsValue ds : Int) else (digitsValue ds : Int)
     decide (lo ≤ v ∧ v ≤ hi))

/-- `is_decimal_u16`: digits only, value fits 16 bits -/
def isDecimalU16 (s : List Char) : Bool :=
  !s.isEmpty && s.all isDigit && decide (digitsValue s ≤ 65535)

def isIdentifier (s : List Char) : Bool :=
  match s with
  | [] => false
  | c :: _ => (isAlpha c || c == '_') && s.all fun ch => isAlnum ch || ch == '_' || ch == '.'

/-- what `Uuid::parse_str` accepts on a 36-byte input: hyphenated 8-4-4-4-12 hex -/
def uuidHyphenated (t : List Char) : Bool :=
  match splitOn '-' t with
  | [a, b, c, d, e] =>
    a.length == 8 && b.length == 4 && c.length == 4 && d.length == 4 && e.length == 12 &&
      (a ++ b ++ c ++ d ++ e).all isHex
  | _ => false

/-- `Category::validate` -/
def validate : Category → List Char → Bool
  | text, _ => true
  | upperCase, s => !s.any isLower
  | lowerCase, s => !s.any isUpper
  | integer, s => parsesSigned (-32768) 32767 s
  | doubleInteger, s => parsesSigned (-2147483648) 2147483647 s
  | identifier, s => isIdentifier s
  | property, s =>
    match s with
    | '%' :: rest => isIdentifier rest
    | _ => isIdentifier s
  | guid, s =>
    utf8Len s == 38 && s.head? == some '{' && s.getLast? == some '}' && !s.any isLower &&
      uuidHyphenated (s.tail.dropLast)
  | version, s =>
    let parts := splitOn '.' s
    decide (parts.length ≤ 4) && parts.all isDecimalU16
  | language, s => (splitOn ',' s).all isDecimalU16
  | cabinet, s =>
    match s with
    | '#' :: rest => isIdentifier rest
    | _ =>
      let (base, ext) := splitLast '.' s
      !base.isEmpty && decide (base.length ≤ 8) &&
        (match ext with | none => true | some e => decide (e.length ≤ 3))
  | _, _ => true

end Category
end MsiModel
