import MsiModel.Expr
/-
The reading side of property C19: the token form of a printed expression and a
precedence-climbing reader that uses the ladder of the project's query grammar
(examples/msiquery.pest, as listed in the property):

    OR(1) < AND(2) < NOT(3) < comparison(4) < |(5) < ^(6) < &(7) < shifts(8) < + -(9) < * /(10) < unary - ~(11)

The reader's precedences are written out here and do NOT come from the generated tables:
the printer (`Ast.fmtP`, precedences regenerated from the source) is proved against this
reader, so a change to the code's precedence table breaks the theorem rather than moving
both sides together.  Binary levels are read left-associatively (a superset of the example
grammar, which makes comparison and shift non-associative and has no `^`).
-/
namespace MsiModel

/-- tokens; `minus` is one token for both subtraction and negation, as in the text -/
inductive Tok
  | lit (v : Value)
  | ident (n : List Char)
  | minus | tilde | not
  | op (o : BinOp)          -- never `op .sub` in printed text (that is `minus`)
  | and | or | lp | rp
  deriving DecidableEq, Repr

/-- an infix operator as the reader sees it -/
inductive IOp
  | bin (o : BinOp) | and | or
  deriving DecidableEq, Repr

namespace IOp
/-- the grammar's ladder (binary part) -/
def prec : IOp → Nat
  | .or => 1 | .and => 2
  | .bin .eq | .bin .ne | .bin .lt | .bin .le | .bin .gt | .bin .ge => 4
  | .bin .bitOr => 5 | .bin .bitXor => 6 | .bin .bitAnd => 7
  | .bin .shl | .bin .shr => 8 | .bin .add | .bin .sub => 9 | .bin .mul | .bin .div => 10
def mk : IOp → Ast → Ast → Ast
  | .bin o, a, b => .bin o a b
  | .and, a, b => .and a b
  | .or, a, b => .or a b
end IOp

/-- the grammar's ladder (prefix part) -/
def readPrecNot : Nat := 3
def readPrecNeg : Nat := 11

def infixOf : Tok → Option IOp
  | .minus => some (.bin .sub)
  | .op o => some (.bin o)
  | .and => some .and
  | .or => some .or
  | _ => none

inductive Mode
  | prim
  | expr (m : Nat)
  | loop (m : Nat) (l : Ast)

/-- precedence climbing; one fuel unit per call (the reader of a token list `ts` is run with
fuel `6 * ts.length + 6`, shown sufficient for every printed expression) -/
def parse : Nat → Mode → List Tok → Option (Ast × List Tok)
  | 0, _, _ => none
  | f+1, .prim, ts =>
    match ts with
    | .lit v :: r => some (.lit v, r)
    | .ident n :: r => some (.col n, r)
    | .lp :: r =>
      match parse f (.expr 0) r with
      | some (e, .rp :: r') => some (e, r')
      | _ => none
    | .minus :: r =>
      match parse f (.expr readPrecNeg) r with
      | some (e, r') => some (.un .neg e, r')
      | none => none
    | .tilde :: r =>
      match parse f (.expr readPrecNeg) r with
      | some (e, r') => some (.un .bitNot e, r')
      | none => none
    | .not :: r =>
      match parse f (.expr readPrecNot) r with
      | some (e, r') => some (.un .boolNot e, r')
      | none => none
    | _ => none
  | f+1, .expr m, ts =>
    match parse f .prim ts with
    | some (l, r) => parse f (.loop m l) r
    | none => none
  | f+1, .loop m l, ts =>
    match ts with
    | [] => some (l, [])
    | t :: r =>
      match infixOf t with
      | some o =>
        if m ≤ o.prec then
          match parse f (.expr (o.prec + 1)) r with
          | some (rhs, r') => parse f (.loop m (o.mk l rhs)) r'
          | none => none
        else some (l, t :: r)
      | none => some (l, t :: r)

/-- read a whole token list as one expression -/
def readExpr (ts : List Tok) : Option Ast :=
  match parse (6 * ts.length + 6) (.expr 0) ts with
  | some (e, []) => some e
  | _ => none

/-! ### the token form of the printer -/

def unTok : UnOp → Tok
  | .neg => .minus | .bitNot => .tilde | .boolNot => .not
def binTok : BinOp → Tok
  | .sub => .minus | o => .op o

def parT (b : Bool) (ts : List Tok) : List Tok := if b then .lp :: ts ++ [.rp] else ts

/-- `format_with_precedence`, token by token (same shape as `Ast.fmtP`, same regenerated precedences) -/
def toks : Ast → Nat → List Tok
  | .lit v, _ => [.lit v]
  | .col n, _ => [.ident n]
  | .un op a, p => parT (decide (op.prec < p)) (unTok op :: toks a op.prec)
  | .bin op a b, p => parT (decide (op.prec < p)) (toks a op.prec ++ binTok op :: toks b (op.prec + 1))
  | .and a b, p => parT (decide (Gen.precAnd < p)) (toks a Gen.precAnd ++ Tok.and :: toks b (Gen.precAnd + 1))
  | .or a b, p => parT (decide (Gen.precOr < p)) (toks a Gen.precOr ++ Tok.or :: toks b (Gen.precOr + 1))

/-- the text of one token as the printer writes it (spellings regenerated from the source);
`pre` = the token stands in operand position, where `minus` is the prefix operator -/
def spell (pre : Bool) : Tok → Option (List Char)
  | .lit v => v.display
  | .ident n => some n
  | .minus => some (if pre then Gen.textNeg.toList else Gen.textSub.toList)
  | .tilde => some Gen.textBitNot.toList
  | .not => some Gen.textBoolNot.toList
  | .op o => some o.text.toList
  | .and => some Gen.textAnd.toList
  | .or => some Gen.textOr.toList
  | .lp => some ['(']
  | .rp => some [')']

/-- is the next token in operand position after this one? -/
def operandNext : Tok → Bool
  | .lit _ | .ident _ | .rp => false
  | _ => true

/-- the text of a token list -/
def render : Bool → List Tok → Option (List Char)
  | _, [] => some []
  | pre, t :: r =>
    match spell pre t, render (operandNext t) r with
    | some s, some rest => some (s ++ rest)
    | _, _ => none

end MsiModel
