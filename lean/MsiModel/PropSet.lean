import MsiModel.Bytes
import MsiModel.Codec
import MsiModel.Gen.Summary
/-
Model of src/internal/propset.rs: OLE property sets (`PropertyValue`, `PropertySet`).
-/
namespace MsiModel
open Bytes

inductive PropVal
  | empty
  | null
  | i1 (n : Int)
  | i2 (n : Int)
  | i4 (n : Int)
  | lpstr (s : List Char)
  | fileTime (t : Nat)
  deriving DecidableEq, Repr, Inhabited

structure PropSet where
  os : Nat
  osVersion : Nat
  clsid : Bytes
  fmtid : Bytes
  codepage : Nat
  props : List (Nat × PropVal)      -- sorted by id (BTreeMap)
  deriving Repr, Inhabited, DecidableEq

namespace PropVal

def minVersion : PropVal → Nat
  | i1 _ => 1
  | _ => 0

/-- `PropertyValue::write` -/
def write (cp : Nat) : PropVal → Res Bytes
  | empty => .ok (u32le 0)
  | null => .ok (u32le 1)
  | i1 n => .ok (u32le 16 ++ [UInt8.ofNat (n % 256).toNat, 0] ++ u16le 0)
  | i2 n => .ok (u32le 2 ++ u16le (ofI16 n) ++ u16le 0)
  | i4 n => .ok (u32le 3 ++ u32le (ofI32 n))
  | lpstr s =>
    match Codec.encode cp s with
    | none => .err .unmodelled
    | some bs =>
      let length := bs.length + 1
      let padding := (length + 3) / 4 * 4 - length
      .ok (u32le 30 ++ u32le length ++ bs ++ [0] ++ List.replicate padding 0)
  | fileTime t => .ok (u32le 64 ++ u64le t)

/-- `size_including_padding_in` -/
def size (cp : Nat) : PropVal → Res Nat
  | empty => .ok 4
  | null => .ok 4
  | i1 _ => .ok 8
  | i2 _ => .ok 8
  | i4 _ => .ok 8
  | lpstr s =>
    match Codec.encode cp s with
    | none => .err .unmodelled
    | some bs => .ok ((12 + bs.length) / 4 * 4)
  | fileTime _ => .ok 12

def readBytesOneByOne : Nat → Bytes → Bytes → Res (Bytes × Bytes)
  | 0, bs, acc => .ok (acc.reverse, bs)
  | n+1, b :: rest, acc => readBytesOneByOne n rest (b :: acc)
  | _+1, [], _ => .err .unexpectedEof

/-- `PropertyValue::read` -/
def read (cp : Nat) (bs : Bytes) : Res PropVal := do
  let (ty, r) ← readU32 bs
  if ty = 0 then pure empty
  else if ty = 1 then pure null
  else if ty = 2 then do let (w, _) ← readU16 r; pure (i2 (toI16 w))
  else if ty = 3 then do let (w, _) ← readU32 r; pure (i4 (toI32 w))
  else if ty = 16 then do
    let (w, _) ← readU8 r
    pure (i1 (if w < 128 then w else (w : Int) - 256))
  else if ty = 30 then do
    let (len, r2) ← readU32 r
    let len := if len = 0 then 0 else len - 1
    let (body, r3) ← readBytesOneByOne len r2 []
    let (term, _) ← readU8 r3
    if term ≠ 0 then .err .invalidData else
    match Codec.decode cp body with
    | none => .err .unmodelled
    | some s => pure (lpstr s)
  else if ty = 64 then do let (t, _) ← readU64 r; pure (fileTime t)
  else .err .invalidData

end PropVal

namespace PropSet

def utf8 : Nat := (Gen.cpVariants.idxOf? "Utf8").getD 0

def new (os osVersion : Nat) (fmtid : Bytes) : PropSet :=
  ⟨os, osVersion, List.replicate 16 0, fmtid, Gen.cpDefault, []⟩

def get (p : PropSet) (id : Nat) : Option PropVal := (p.props.find? (·.1 == id)).map (·.2)

def insertSorted (id : Nat) (v : PropVal) : List (Nat × PropVal) → List (Nat × PropVal)
  | [] => [(id, v)]
  | (k, w) :: rest =>
    if id < k then (id, v) :: (k, w) :: rest
    else if id = k then (id, v) :: rest
    else (k, w) :: insertSorted id v rest

/-- `PropertySet::set`: property 1 (code page) also updates the cached code page -/
def set (p : PropSet) (id : Nat) (v : PropVal) : PropSet :=
  let cp := if id = Gen.propCodepage then
      match v with
      | .i2 n => match CodePage.fromId ((ofI16 n : Nat) : Int) with
        | some c => c
        | none => p.codepage
      | _ => p.codepage
    else p.codepage
  { p with codepage := cp, props := insertSorted id v p.props }

def remove (p : PropSet) (id : Nat) : PropSet := { p with props := p.props.filter (·.1 != id) }

/-- `PropertySet::set_codepage`: the id is stored as `id as i16`; the `debug_assert_eq!`
that the cached page changed is a panic branch in debug builds -/
def setCodepage (prof : Profile) (p : PropSet) (cp : Nat) : Res PropSet :=
  match CodePage.id cp with
  | none => .panic "unknown code page"
  | some id =>
    let p' := p.set Gen.propCodepage (.i2 (toI16 (id.toNat % 65536)))
    if prof.debugAssertions ∧ p'.codepage ≠ cp then .panic "debug_assert_eq!(self.codepage, codepage)"
    else .ok p'

/-- `PropertySet::write` -/
def write (p : PropSet) : Res Bytes := do
  let version := (p.props.map fun kv => kv.2.minVersion).foldl max 0
  let header := u16le Gen.propsetByteOrderMark ++ u16le version ++ u16le p.osVersion ++ u16le p.os ++ p.clsid ++ u32le 1
    ++ p.fmtid ++ u32le 48
  let n := p.props.length
  let rec offsets : List (Nat × PropVal) → Nat → List Nat → Res (List Nat × Nat)
    | [], size, acc => pure (acc.reverse, size)
    | (_, v) :: rest, size, acc => do
      let sz ← v.size p.codepage
      offsets rest ((size + sz) % 4294967296) (size :: acc)
  let (offs, sectionSize) ← offsets p.props (8 + 8 * n) []
  let table := (p.props.zip offs).flatMap fun (kv, off) => u32le kv.1 ++ u32le off
  let rec values : List (Nat × PropVal) → Bytes → Res Bytes
    | [], acc => pure acc
    | (_, v) :: rest, acc => do
      let bs ← v.write p.codepage
      values rest (acc ++ bs)
  let body ← values p.props []
  pure (header ++ u32le sectionSize ++ u32le n ++ table ++ body)

def insertSortedNat (id : Nat) (v : Nat) : List (Nat × Nat) → List (Nat × Nat)
  | [] => [(id, v)]
  | (k, w) :: rest => if id < k then (id, v) :: (k, w) :: rest else (k, w) :: insertSortedNat id v rest

def readOffsets : Nat → Bytes → List (Nat × Nat) → Res (List (Nat × Nat))
  | 0, _, acc => pure acc
  | n+1, bs, acc => do
    let (name, r) ← readU32 bs
    let (off, r2) ← readU32 r
    if acc.any (·.1 == name) then .err .invalidData
    else readOffsets n r2 (insertSortedNat name off acc)

/-- `Seek::seek(SeekFrom::Start(pos))` on a cfb stream: a position beyond the end of the
stream is refused (InvalidInput); the end itself is allowed -/
def seekTo (data : Bytes) (pos : Nat) : Res Bytes :=
  if pos > data.length then .err .invalidInput else .ok (data.drop pos)

/-- the code page of a property set: property 1 if present (an I2 holding a known id), else the default -/
def readCodepage (data : Bytes) (sectionOffset : Nat) (offs : List (Nat × Nat)) : Res Nat :=
  match offs.find? (·.1 == Gen.propCodepage) with
  | some (_, off) => do
    let here ← seekTo data (sectionOffset + off)
    let v ← PropVal.read Gen.cpDefault here
    match v with
    | .i2 n => Res.ofOption (CodePage.fromId ((ofI16 n : Nat) : Int)) .invalidData
    | _ => .err .invalidData
  | none => pure Gen.cpDefault

/-- the values at their offsets, in property-id order -/
def readVals (data : Bytes) (ver sectionOffset cp : Nat) :
    List (Nat × Nat) → List (Nat × PropVal) → Res (List (Nat × PropVal))
  | [], acc => pure acc.reverse
  | (name, off) :: rest, acc => do
    let here ← seekTo data (sectionOffset + off)
    let v ← PropVal.read cp here
    if v.minVersion > ver then .err .invalidData
    else readVals data ver sectionOffset cp rest ((name, v) :: acc)

/-- `PropertySet::read` (the reader seeks: positions are absolute offsets into `data`) -/
def read (data : Bytes) : Res PropSet := do
  let (bom, r) ← readU16 data
  if bom ≠ Gen.propsetByteOrderMark then .err .invalidData else
  let (ver, r) ← readU16 r
  if ver > 1 then .err .invalidData else
  let (osVersion, r) ← readU16 r
  let (os, r) ← readU16 r
  if os > 2 then .err .invalidData else
  let (clsid, r) ← readExact 16 r
  let (reserved, r) ← readU32 r
  if reserved < 1 then .err .invalidData else
  let (fmtid, r) ← readExact 16 r
  let (sectionOffset, _) ← readU32 r
  let sect ← seekTo data sectionOffset
  let (_size, r) ← readU32 sect
  let (num, r) ← readU32 r
  let offs ← readOffsets num r []
  let cp ← readCodepage data sectionOffset offs
  let props ← readVals data ver sectionOffset cp offs []
  pure ⟨os, osVersion, clsid, fmtid, cp, props⟩

end PropSet
end MsiModel
