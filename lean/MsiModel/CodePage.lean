import MsiModel.Gen.CodePage
/-
Model of src/internal/codepage.rs: id tables, the wiring to `encoding_rs`, the ASCII
special case, and the chunked encoder loop of `CodePage::encode`.  The per-character
tables of `encoding_rs` are *not* modelled: the loop is parametric in a per-character
encoder (`Char → Option bytes`, `none` = unmappable), UTF-8 is implemented.
-/
namespace MsiModel.CodePage

/-- a code page = index of the variant in `Gen.cpVariants` -/
abbrev Cp := Nat

def id (cp : Cp) : Option Int := (Gen.cpIdTable.find? (·.1 == cp)).map (·.2)

/-- `CodePage::from_id` -/
def fromId (n : Int) : Option Cp := (Gen.cpFromIdTable.find? (·.1 == n)).map (·.2)

def usAscii : Option Cp := Gen.cpVariants.idxOf? "UsAscii"

/-- `ascii_encode` -/
def asciiEncode (s : List Char) : List UInt8 :=
  s.map fun c => if c.toNat < 128 then UInt8.ofNat c.toNat else 63

/-- `ascii_decode` -/
def asciiDecode (bs : List UInt8) : List Char :=
  bs.map fun b => if b.toNat < 128 then Char.ofNat b.toNat else Char.ofNat 0xFFFD

inductive EncResult | inputEmpty | outputFull | unmappable
  deriving DecidableEq, Repr

/-- contract of `Encoder::encode_from_utf8_without_replacement(src, dst, last)`: encodes a
maximal prefix of `src` whose code fits into `dst`; stops at the end of input, when the
next character's code does not fit, or after *consuming* an unmappable character.
Returns (result, unread rest, bytes written). -/
def encChunk (enc : Char → Option (List UInt8)) (cap : Nat) :
    List Char → List UInt8 → EncResult × List Char × List UInt8
  | [], acc => (.inputEmpty, [], acc)
  | c :: cs, acc =>
    match enc c with
    | none => (.unmappable, cs, acc)
    | some bs =>
      if acc.length + bs.length ≤ cap then encChunk enc cap cs (acc ++ bs)
      else (.outputFull, c :: cs, acc)

/-- the `loop { … }` of `CodePage::encode` with its fixed-size buffer; `fuel` bounds the
number of iterations (the Rust loop has no bound: termination is a theorem) -/
def encodeLoop (enc : Char → Option (List UInt8)) (cap : Nat) :
    Nat → List Char → List UInt8 → Option (List UInt8)
  | 0, _, _ => none
  | fuel+1, s, bytes =>
    match encChunk enc cap s [] with
    | (.inputEmpty, _, out) => some (bytes ++ out)
    | (.outputFull, rest, out) => encodeLoop enc cap fuel rest (bytes ++ out)
    | (.unmappable, rest, out) => encodeLoop enc cap fuel rest (bytes ++ out ++ [UInt8.ofNat Gen.cpReplacementByte])

/-- what the loop is supposed to compute: per-character codes, `?` for unmappable -/
def encodeSpec (enc : Char → Option (List UInt8)) (s : List Char) : List UInt8 :=
  s.flatMap fun c => (enc c).getD [UInt8.ofNat Gen.cpReplacementByte]

/-- the UTF-8 code of a character (core's definition) -/
def utf8Char (c : Char) : Option (List UInt8) := some (String.utf8EncodeChar c)

/-- `CodePage::Utf8.encode` -/
def utf8Encode (s : List Char) : Option (List UInt8) :=
  encodeLoop utf8Char Gen.cpEncodeBufferSize (s.length + 1) s []

end MsiModel.CodePage
