import MsiModel.Pkg
/-
Model of the `Package` API proper: create, open, create_table, drop_table, the stream
interface, the finisher, flush / into_inner / drop.
-/
namespace MsiModel
open Bytes
namespace Pkg

def sPool : List Char := StreamName.encode Gen.nameStringPool.toList true
def sData : List Char := StreamName.encode Gen.nameStringData.toList true
def sSummary : List Char := Gen.snSummaryInfo.toList

/-- `insert_rows` etc.: `set_finisher()` happens before the query runs -/
def insertRows (s : Pkg) (t : List Char) (rows : List (List Value)) : Pkg × Res Unit :=
  insertExec { s with finisher := true } t rows
def deleteRows (s : Pkg) (t : List Char) (cond : Option Ast) : Pkg × Res Unit :=
  deleteExec { s with finisher := true } t cond
def updateRows (s : Pkg) (t : List Char) (ups : List (List Char × Value)) (cond : Option Ast) : Pkg × Res Unit :=
  updateExec { s with finisher := true } t ups cond

/-- `Column::is_storable` -/
def isStorable (c : Column) : Bool :=
  (match c.coltype with
   | .str n => decide (n ≤ Gen.colFieldSizeMask)
   | _ => true) &&
  !(c.enumValues.any fun v => v.isEmpty || v.contains ';')

def bitfieldValue (c : Column) : Value := .int (Int32.ofInt (toI32 (c.bitfield % 4294967296)))

def catalogRowsColumns (name : List Char) (cols : List Column) : List (List Value) :=
  cols.zipIdx.map fun (c, i) =>
    [.str name, .int (Int32.ofNat (1 + i)), .str c.name, bitfieldValue c]

def catalogRowsValidation (name : List Char) (cols : List Column) : List (List Value) :=
  cols.map fun c =>
    let (lo, hi) := match c.valueRange with
      | some (a, b) => (Value.int a, Value.int b)
      | none => (.null, .null)
    let (kt, kc) := match c.foreignKey with
      | some (t, i) => (Value.str t, Value.int i)
      | none => (.null, .null)
    [.str name, .str c.name, .str (if c.isNullable then ['Y'] else ['N']), lo, hi, kt, kc,
     (match c.category with
      | some k => match k.asStr with
        | some st => .str st.toList
        | none => .null
      | none => .null),
     (if c.enumValues.isEmpty then .null else .str (List.intercalate [';'] c.enumValues)),
     .null]

def rowsValidFor (t : Table) (rows : List (List Value)) : Bool :=
  rows.all fun r => (t.columns.zip r).all fun (c, v) => c.isValidValue v

def hasDuplicateNames : List (List Char) → Bool
  | [] => false
  | n :: rest => rest.contains n || hasDuplicateNames rest

/-- the two names whose table stream would be the string pool's own streams -/
def isPoolName (n : List Char) : Bool := n == Gen.nameStringPool.toList || n == Gen.nameStringData.toList

/-- every check `create_table` makes before it changes anything, in the order of the code:
names (the two names whose table stream would be the string pool's own streams are reserved), arity, key, duplicates, existence, storability, and that the three catalog tables
can hold the new rows -/
def createError (s : Pkg) (name : List Char) (cols : List Column) : Option ErrKind :=
  if !Table.isValidName name then some .invalidInput else
  if isPoolName name then some .invalidInput else
  if cols.isEmpty then some .invalidInput else
  if cols.length > Gen.maxTableColumns then some .invalidInput else
  if !cols.any (·.isPrimaryKey) then some .invalidInput else
  if cols.any (fun c => !Category.validate .identifier c.name) then some .invalidInput else
  if hasDuplicateNames (cols.map (·.name)) then some .invalidInput else
  if (s.findTable name).isSome then some .alreadyExists else
  if cols.any (fun c => !isStorable c) then some .invalidInput else
  if !rowsValidFor (Catalog.columnsTable false) (catalogRowsColumns name cols) then some .invalidInput else
  if !rowsValidFor (Catalog.tablesTable false) [[.str name]] then some .invalidInput else
  if !rowsValidFor (Catalog.validationTable false) (catalogRowsValidation name cols) then some .invalidInput else
  none

/-- `check_catalog_room`: the catalog table (if it is registered: `_Validation` is not while it
is itself being created) has room for `n` more rows and holds no row under `name` yet -/
def catalogRoomOne (s : Pkg) (catalog key : List Char) (name : List Char) (n : Nat) : Res Unit :=
  match s.findTable catalog with
  | none => .ok ()
  | some t =>
    match s.loadRows t with
    | .err k => .err k
    | .panic w => .panic w
    | .ok rows =>
      if rows.length + n > Gen.maxTableRows then .err .invalidInput
      else
        -- the second query names the key column (`_Validation` is an ordinary table of the file:
        -- a damaged file may define it without that column)
        match t.indexOfColumn key with
        | none => .err .invalidInput
        | some i =>
          if rows.any (fun r => (rowValues s.pool r).getD i .null == .str name) then .err .alreadyExists
          else .ok ()

/-- the three of them, in the order of the code -/
def catalogRoom (s : Pkg) (name : List Char) (cols : List Column) : Res Unit :=
  -- a database written by something else may lack `_Validation`, where the rows for the new
  -- columns have to go: refused before anything is written (fix D24)
  if name != Gen.nameValidation.toList && (s.findTable Gen.nameValidation.toList).isNone then .err .notFound else
  match catalogRoomOne s Gen.nameColumns.toList "Table".toList name cols.length with
  | .ok () =>
    match catalogRoomOne s Gen.nameTables.toList "Name".toList name 1 with
    | .ok () => catalogRoomOne s Gen.nameValidation.toList "Table".toList name cols.length
    | r => r
  | r => r

/-- `create_table` -/
def createTable (s : Pkg) (name : List Char) (cols : List Column) : Pkg × Res Unit :=
  match createError s name cols with
  | some k => (s, .err k)
  | none =>
    match catalogRoom s name cols with
    | .err k => (s, .err k)
    | .panic w => (s, .panic w)
    | .ok () =>
    match insertRows s Gen.nameColumns.toList (catalogRowsColumns name cols) with
    | (s1, .ok ()) =>
      match insertRows s1 Gen.nameTables.toList [[.str name]] with
      | (s2, .ok ()) =>
        let s3 := { s2 with tables := insertTable s2.tables ⟨name, cols, s2.pool.longRefs⟩ }
        insertRows s3 Gen.nameValidation.toList (catalogRowsValidation name cols)
      | r => r
    | r => r

def eqStr (col : String) (v : List Char) : Option Ast := some (.bin .eq (.col col.toList) (.lit (.str v)))

/-- the `_Validation` rows of a dropped table are deleted when there is a `_Validation` table
(a database written by something else may lack it: fix D24) -/
def deleteValidation (s : Pkg) (name : List Char) : Pkg × Res Unit :=
  if (s.findTable Gen.nameValidation.toList).isSome then deleteRows s Gen.nameValidation.toList (eqStr "Table" name)
  else (s, .ok ())

/-- `drop_table` -/
def dropTable (s : Pkg) (name : List Char) : Pkg × Res Unit :=
  if Catalog.isReserved name then (s, .err .invalidInput) else
  if !Table.isValidName name then (s, .err .invalidInput) else
  match s.findTable name with
  | none => (s, .err .notFound)
  | some t =>
    let step1 : Pkg × Res Unit :=
      if Cont.exists_ s.cont t.streamName then
        match s.loadRows t with
        | .err k => (s, .err k)
        | .panic w => (s, .panic w)
        | .ok rows =>
          let pool' := rows.foldl (fun p r => r.foldl Cell.remove p) s.pool
          ({ s with finisher := true, pool := pool', cont := Cont.remove s.cont t.streamName }, .ok ())
      else (s, .ok ())
    match step1 with
    | (s1, .ok ()) =>
      match deleteValidation s1 name with
      | (s2, .ok ()) =>
        match deleteRows s2 Gen.nameColumns.toList (eqStr "Table" name) with
        | (s3, .ok ()) =>
          match deleteRows s3 Gen.nameTables.toList (eqStr "Name" name) with
          | (s4, .ok ()) => ({ s4 with tables := s4.tables.filter (·.name != name) }, .ok ())
          | r => r
        | r => r
      | r => r
    | r => r

/-! ### streams -/

def hasStream (s : Pkg) (n : List Char) : Bool := Cont.exists_ s.cont (StreamName.encode n false)

def readStream (s : Pkg) (n : List Char) : Res Bytes :=
  if !StreamName.isValid n false then .err .invalidInput else
  match Cont.find s.cont (StreamName.encode n false) with
  | some e => .ok e.data
  | none => .err .notFound

/-- `write_stream` + `write_all` + `flush` on the returned writer -/
def writeStream (s : Pkg) (n : List Char) (data : Bytes) : Pkg × Res Unit :=
  if !StreamName.isValid n false then (s, .err .invalidInput) else
  ({ s with cont := Cont.put s.cont (StreamName.encode n false) data }, .ok ())

def removeStream (s : Pkg) (n : List Char) : Pkg × Res Unit :=
  if !StreamName.isValid n false then (s, .err .invalidInput) else
  let e := StreamName.encode n false
  if !Cont.exists_ s.cont e then (s, .err .notFound) else
  ({ s with cont := Cont.remove s.cont e }, .ok ())

/-- `streams()`: every stream that is not special and not a table, decoded -/
def streams (s : Pkg) : List (List Char) :=
  s.cont.filterMap fun e =>
    if StreamName.specialNames.contains e.name then none
    else
      let (n, isTable) := StreamName.decode e.name
      if isTable then none else some n

def hasDigitalSignature (s : Pkg) : Bool := Cont.exists_ s.cont Gen.snDigitalSignature.toList

def removeDigitalSignature (s : Pkg) : Pkg :=
  let c1 := if Cont.exists_ s.cont Gen.snDigitalSignature.toList then
    Cont.remove s.cont Gen.snDigitalSignature.toList else s.cont
  let c2 := if Cont.exists_ c1 Gen.snMsiDigitalSignatureEx.toList then
    Cont.remove c1 Gen.snMsiDigitalSignatureEx.toList else c1
  { s with cont := c2 }

/-! ### finisher, flush, close -/

/-- `FinishImpl::finish` -/
def finish (s : Pkg) : Pkg × Res Unit :=
  let r1 : Pkg × Res Unit :=
    if s.summaryModified then
      match s.summary.write with
      | .ok bs => ({ s with cont := Cont.put s.cont sSummary bs, summaryModified := false }, .ok ())
      | .err k => (s, .err k)
      | .panic w => (s, .panic w)
    else (s, .ok ())
  match r1 with
  | (s1, .ok ()) =>
    if s1.pool.modified then
      match s1.pool.writePool, s1.pool.writeData with
      | .ok pb, .ok db =>
        ({ s1 with cont := Cont.put (Cont.put s1.cont sPool pb) sData db,
                   pool := { s1.pool with modified := false } }, .ok ())
      | .err k, _ => (s1, .err k)
      | .panic w, _ => (s1, .panic w)
      | _, .err k => (s1, .err k)
      | _, .panic w => (s1, .panic w)
    else (s1, .ok ())
  | r => r

/-- `flush` -/
def flush (s : Pkg) : Pkg × Res Unit :=
  if s.finisher then finish { s with finisher := false } else (s, .ok ())

/-- the bytes on the medium after closing by dropping the package (errors discarded) -/
def dropClose (s : Pkg) : List Entry := (flush s).1.cont

/-! ### create / open -/

def ptypeTitle : Nat → String
  | 0 => Gen.titleInstaller | 1 => Gen.titlePatch | _ => Gen.titleTransform

/-- `Package::create` -/
def create (prof : Profile) (ptype : Nat) : Res Pkg := do
  let summary0 ← Summary.new prof
  let summary := summary0.set Gen.propTitle (.lpstr (ptypeTitle ptype).toList)
  let pool := Pool.new summary.codepage
  let s0 : Pkg := ⟨ptype, [], summary, true, pool,
    insertTable (insertTable [] (Catalog.tablesTable false)) (Catalog.columnsTable false), false⟩
  match createTable s0 Gen.nameValidation.toList Catalog.validationColumns with
  | (s1, .ok ()) =>
    match flush s1 with
    | (s2, .ok ()) => pure s2
    | (_, .err k) => .err k
    | (_, .panic w) => .panic w
  | (_, .err k) => .err k
  | (_, .panic w) => .panic w

/-- value helpers for `open` -/
def strCell : Value → Res (List Char)
  | .str s => .ok s
  | _ => .err .invalidData
def intCell : Value → Res Int32
  | .int n => .ok n
  | _ => .err .invalidData

/-- names listed in `_Tables` (duplicates and null cells are malformed) -/
def openNames (pool : Pool) : List (List Cell) → List (List Char) → Res (List (List Char))
  | [], acc => pure acc
  | r :: rs, acc => do
    let n ← strCell ((rowValues pool r).getD 0 .null)
    if acc.contains n then .err .invalidData else openNames pool rs (n :: acc)

/-- rows of `_Columns`: (table, number, name, type word) -/
def openColsMap (pool : Pool) (tableNames : List (List Char)) : List (List Cell) →
    List (List Char × Nat × List Char × Int32) → Res (List (List Char × Nat × List Char × Int32))
  | [], acc => pure acc
  | r :: rs, acc => do
    let vs := rowValues pool r
    let tn ← strCell (vs.getD 0 .null)
    if !tableNames.contains tn then .err .invalidData
    else
      let idx ← intCell (vs.getD 1 .null)
      if acc.any (fun e => e.1 == tn && (e.2.1 : Int) == idx.toInt) then .err .invalidData else
      let cn ← strCell (vs.getD 2 .null)
      let bits ← intCell (vs.getD 3 .null)
      openColsMap pool tableNames rs ((tn, idx.toInt.toNat, cn, bits) :: acc)

/-- rows of `_Validation` by (table, column) -/
def openValMap (pool : Pool) : List (List Cell) → List ((List Char × List Char) × List Value) →
    Res (List ((List Char × List Char) × List Value))
  | [], acc => pure acc
  | r :: rs, acc => do
    let vs := rowValues pool r
    let tn ← strCell (vs.getD 0 .null)
    let cn ← strCell (vs.getD 1 .null)
    if acc.any (fun e => e.1 == (tn, cn)) then .err .invalidData else openValMap pool rs (((tn, cn), vs) :: acc)

/-! what each cell of a `_Validation` row contributes to the column builder -/
def valNullable (vs : List Value) : Bool := vs.getD 2 .null == .str ['Y']
def valRange (vs : List Value) : Option (Int32 × Int32) :=
  match vs.getD 3 .null, vs.getD 4 .null with
  | .int lo, .int hi => some (lo, hi)
  | _, _ => none
def valForeignKey (vs : List Value) : Option (List Char × Int32) :=
  match vs.getD 5 .null, vs.getD 6 .null with
  | .str kt, .int kc => some (kt, kc)
  | _, _ => none
def valCategory (vs : List Value) : Option Category :=
  match vs.getD 7 .null with
  | .str cat => Category.fromStr (String.ofList cat)
  | _ => none
def valEnum (vs : List Value) : List (List Char) :=
  match vs.getD 8 .null with
  | .str en => Category.splitOn ';' en
  | _ => []

/-- the builder of one column from its `_Validation` row (if any): each builder call of the
code sets one field from one or two cells of the row -/
def openBuilder (valSpecs : List ((List Char × List Char) × List Value)) (tn cn : List Char) : Column :=
  match valSpecs.find? (fun e => e.1 == (tn, cn)) with
  | none => { name := cn, coltype := .int16 }
  | some (_, vs) =>
    { name := cn, coltype := .int16, isNullable := valNullable vs, valueRange := valRange vs,
      foreignKey := valForeignKey vs, category := valCategory vs, enumValues := valEnum vs }

/-- columns 1..n of one table, in order; a missing number is malformed -/
def openColumns (specs : List (List Char × Nat × List Char × Int32))
    (valSpecs : List ((List Char × List Char) × List Value)) (tn : List Char) :
    Nat → Nat → List Column → Res (List Column)
  | 0, _, acc => pure acc.reverse
  | fuel+1, i, acc =>
    match specs.find? (fun e => e.2.1 == i) with
    | none => .err .invalidData
    | some (_, _, cn, bits) => do
      let col ← (openBuilder valSpecs tn cn).withBitfield (ofI32 bits.toInt)
      openColumns specs valSpecs tn fuel (i + 1) (col :: acc)

def openBuild (colSpecs : List (List Char × Nat × List Char × Int32))
    (valSpecs : List ((List Char × List Char) × List Value)) (long : Bool) :
    List (List Char) → List Table → Res (List Table)
  | [], acc => pure acc
  | tn :: rest, acc => do
    let specs := colSpecs.filter (·.1 == tn)
    if specs.isEmpty then .err .invalidData else
    let cols ← openColumns specs valSpecs tn specs.length 1 []
    openBuild colSpecs valSpecs long rest (insertTable acc ⟨tn, cols, long⟩)

def streamOf (cont : List Entry) (n : List Char) : Res Bytes :=
  match Cont.find cont n with
  | some e => pure e.data
  | none => .err .notFound

/-- the catalog pass of `Package::open`: the table definitions the three catalog tables hold -/
def openTables (pt : Nat) (cont : List Entry) (summary : PropSet) (pool : Pool) : Res (List Table) := do
  let long := pool.longRefs
  let s0 : Pkg := ⟨pt, cont, summary, false, pool, [], false⟩
  let tt := Catalog.tablesTable long
  let tRows ← s0.loadRows tt
  let tableNames ← openNames pool tRows []
  let ct := Catalog.columnsTable long
  let cRows ← s0.loadRows ct
  let colSpecs ← openColsMap pool tableNames cRows []
  let vRows ← s0.loadRows (Catalog.validationTable long)
  let valSpecs ← openValMap pool vRows []
  let userTables ← openBuild colSpecs valSpecs long tableNames []
  pure (insertTable (insertTable userTables tt) ct)

/-- the parsing work of `Package::open`: (package type, summary, pool, tables) -/
def openCore (ptype : Option Nat) (cont : List Entry) : Res (Nat × PropSet × Pool × List Table) := do
  let pt ← Res.ofOption ptype .invalidData
  let sumData ← streamOf cont sSummary
  let summary ← Summary.read sumData
  let poolBytes ← streamOf cont sPool
  -- the pool header and entries are read (and can fail) before the data stream is opened
  let (hdr, r) ← readU32 poolBytes
  let _ ← Res.ofOption (CodePage.fromId ((hdr % Gen.longStringRefsBit : Nat) : Int)) .invalidData
  let _ ← Pool.readEntries (r.length + 1) r []
  let dataBytes ← streamOf cont sData
  let pool ← Pool.read poolBytes dataBytes
  let tables ← openTables pt cont summary pool
  pure (pt, summary, pool, tables)

/-- `Package::open` on a container whose root CLSID says `ptype` (`none` = unrecognised):
the opened package holds the container as it is, nothing pending, no finisher -/
def open_ (ptype : Option Nat) (cont : List Entry) : Res Pkg :=
  match openCore ptype cont with
  | .ok (pt, summary, pool, tables) => .ok ⟨pt, cont, summary, false, pool, tables, false⟩
  | .err k => .err k
  | .panic w => .panic w

end Pkg
end MsiModel
