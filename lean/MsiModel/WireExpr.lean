import MsiModel.Wire
import MsiModel.Expr
/-
Wire format of values, rows and expressions (prefix form), for the driver.
-/
namespace MsiModel.WireExpr
open MsiModel

def valueTok : Value → String
  | .null => "N"
  | .int n => s!"I{n.toInt}"
  | .str s => "S" ++ Wire.hexOfStr s

def parseValue (t : String) : Option Value :=
  match t.toList with
  | ['N'] => some .null
  | 'I' :: rest => (String.ofList rest).toInt?.map fun i => .int (Int32.ofInt i)
  | 'S' :: rest => (Wire.strOfHex (String.ofList rest)).map .str
  | _ => none

def unopOf : String → Option UnOp
  | "neg" => some .neg | "bitnot" => some .bitNot | "not" => some .boolNot | _ => none

def binopOf : String → Option BinOp
  | "eq" => some .eq | "ne" => some .ne | "lt" => some .lt | "le" => some .le
  | "gt" => some .gt | "ge" => some .ge | "add" => some .add | "sub" => some .sub
  | "mul" => some .mul | "div" => some .div | "band" => some .bitAnd | "bor" => some .bitOr
  | "bxor" => some .bitXor | "shl" => some .shl | "shr" => some .shr | _ => none

/-- parse one expression in prefix form; returns it (as the user's constructor tree, not
yet folded) and the remaining tokens -/
def parseExpr : Nat → List String → Option (Ast × List String)
  | 0, _ => none
  | _, [] => none
  | fuel+1, t :: rest =>
    match unopOf t with
    | some op => do
      let (a, r) ← parseExpr fuel rest
      pure (.un op a, r)
    | none =>
      match binopOf t with
      | some op => do
        let (a, r) ← parseExpr fuel rest
        let (b, r2) ← parseExpr fuel r
        pure (.bin op a b, r2)
      | none =>
        if t = "and" then do
          let (a, r) ← parseExpr fuel rest
          let (b, r2) ← parseExpr fuel r
          pure (.and a b, r2)
        else if t = "or" then do
          let (a, r) ← parseExpr fuel rest
          let (b, r2) ← parseExpr fuel r
          pure (.or a b, r2)
        else match t.toList with
          | 'C' :: h => (Wire.strOfHex (String.ofList h)).map fun n => (.col n, rest)
          | _ => (parseValue t).map fun v => (.lit v, rest)

def parseRowAux : Nat → List String → List (List Char) → List Value → Option (Row × List String)
  | 0, rest, cs, vs => some (⟨cs.reverse, vs.reverse⟩, rest)
  | k+1, n :: v :: rest, cs, vs => do
    let name ← Wire.strOfHex n
    let val ← parseValue v
    parseRowAux k rest (name :: cs) (val :: vs)
  | _, _, _, _ => none

/-- `<k> (name value)*k` -/
def parseRow : List String → Option (Row × List String)
  | k :: rest => do
    let n ← k.toNat?
    parseRowAux n rest [] []
  | [] => none

def resValueTok : Res Value → String
  | .ok v => valueTok v
  | .err k => "err " ++ k.toString
  | .panic _ => "panic"

end MsiModel.WireExpr
