import MsiModel.Wire
import MsiModel.Expr
import MsiModel.Column
/-
Wire format of values, rows and expressions (prefix form), for the driver.
-/
namespace MsiModel.WireExpr
open MsiModel

def valueTok : Value → String
  | .null => "N"
  | .int n => s!"I{n.toInt}"
  | .str s => "S" ++ Wire.hexOfStr s

def parseValue (t : String) : Option Value :=
  match t.toList with
  | ['N'] => some .null
  | 'I' :: rest => (String.ofList rest).toInt?.map fun i => .int (Int32.ofInt i)
  | 'S' :: rest => (Wire.strOfHex (String.ofList rest)).map .str
  | _ => none

def unopOf : String → Option UnOp
  | "neg" => some .neg | "bitnot" => some .bitNot | "not" => some .boolNot | _ => none

def binopOf : String → Option BinOp
  | "eq" => some .eq | "ne" => some .ne | "lt" => some .lt | "le" => some .le
  | "gt" => some .gt | "ge" => some .ge | "add" => some .add | "sub" => some .sub
  | "mul" => some .mul | "div" => some .div | "band" => some .bitAnd | "bor" => some .bitOr
  | "bxor" => some .bitXor | "shl" => some .shl | "shr" => some .shr | _ => none

/-- parse one expression in prefix form; returns it (as the user's constructor tree, not
yet folded) and the remaining tokens -/
def parseExpr : Nat → List String → Option (Ast × List String)
  | 0, _ => none
  | _, [] => none
  | fuel+1, t :: rest =>
    match unopOf t with
    | some op => do
      let (a, r) ← parseExpr fuel rest
      pure (.un op a, r)
    | none =>
      match binopOf t with
      | some op => do
        let (a, r) ← parseExpr fuel rest
        let (b, r2) ← parseExpr fuel r
        pure (.bin op a b, r2)
      | none =>
        if t = "and" then do
          let (a, r) ← parseExpr fuel rest
          let (b, r2) ← parseExpr fuel r
          pure (.and a b, r2)
        else if t = "or" then do
          let (a, r) ← parseExpr fuel rest
          let (b, r2) ← parseExpr fuel r
          pure (.or a b, r2)
        else match t.toList with
          | 'C' :: h => (Wire.strOfHex (String.ofList h)).map fun n => (.col n, rest)
          | _ => (parseValue t).map fun v => (.lit v, rest)

def parseRowAux : Nat → List String → List (List Char) → List Value → Option (Row × List String)
  | 0, rest, cs, vs => some (⟨cs.reverse, vs.reverse⟩, rest)
  | k+1, n :: v :: rest, cs, vs => do
    let name ← Wire.strOfHex n
    let val ← parseValue v
    parseRowAux k rest (name :: cs) (val :: vs)
  | _, _, _, _ => none

/-- `<k> (name value)*k` -/
def parseRow : List String → Option (Row × List String)
  | k :: rest => do
    let n ← k.toNat?
    parseRowAux n rest [] []
  | [] => none

def resValueTok : Res Value → String
  | .ok v => valueTok v
  | .err k => "err " ++ k.toString
  | .panic _ => "panic"

end MsiModel.WireExpr

namespace MsiModel.WireExpr
open MsiModel

def splitOnChar (sep : Char) (s : String) : List String :=
  (Category.splitOn sep s.toList).map String.ofList

/-- parse `name:type:flags:range:fk:cat:enum` -/
def parseColumn (t : String) : Option Column :=
  match splitOnChar ':' t with
  | [n, ty, fl, rg, fk, cat, en] => do
    let name ← Wire.strOfHex n
    let coltype ← match ty with
      | "i16" => some ColType.int16
      | "i32" => some ColType.int32
      | s => match s.toList with
        | 's' :: ds => (String.ofList ds).toNat?.map ColType.str
        | _ => none
    let range ← if rg = "-" then some none else
      match splitOnChar ',' rg with
      | [a, b] => do
        let x ← a.toInt?
        let y ← b.toInt?
        pure (some (Int32.ofInt x, Int32.ofInt y))
      | _ => none
    let fkv ← if fk = "-" then some none else
      match splitOnChar ',' fk with
      | [a, b] => do
        let x ← Wire.strOfHex a
        let y ← b.toInt?
        pure (some (x, Int32.ofInt y))
      | _ => none
    let catv ← if cat = "-" then some none else (Category.ofVariantName cat).map some
    let enums ← if en = "-" then some [] else (splitOnChar ',' en).mapM Wire.strOfHex
    pure { name := name, coltype := coltype,
           isLocalizable := fl.contains 'L', isNullable := fl.contains 'N',
           isPrimaryKey := fl.contains 'K', valueRange := range, foreignKey := fkv,
           category := catv, enumValues := enums }
  | _ => none

def columnTok (c : Column) : String :=
  let ty := match c.coltype with
    | .int16 => "i16" | .int32 => "i32" | .str n => s!"s{n}"
  let fl0 := (if c.isLocalizable then "L" else "") ++ (if c.isNullable then "N" else "") ++
    (if c.isPrimaryKey then "K" else "")
  let fl := if fl0 = "" then "-" else fl0
  let rg := match c.valueRange with
    | some (a, b) => s!"{a.toInt},{b.toInt}" | none => "-"
  let fk := match c.foreignKey with
    | some (t, i) => s!"{Wire.hexOfStr t},{i.toInt}" | none => "-"
  let cat := match c.category with
    | some k => k.variantName | none => "-"
  let en := if c.enumValues.isEmpty then "-" else
    ",".intercalate (c.enumValues.map Wire.hexOfStr)
  s!"{Wire.hexOfStr c.name}:{ty}:{fl}:{rg}:{fk}:{cat}:{en}"

def hexUpperDigit (n : Nat) : Char :=
  if n < 10 then Char.ofNat (48 + n) else Char.ofNat (55 + n)

/-- `Value::from(Uuid)`: braces, hyphenated, upper case; argument = 32 hex digits -/
def guidValue (hex : List Char) : Option (List Char) := do
  let ns ← hex.mapM Wire.hexVal
  if ns.length ≠ 32 then none else
  let d := ns.map hexUpperDigit
  pure (['{'] ++ d.take 8 ++ ['-'] ++ (d.drop 8).take 4 ++ ['-'] ++ (d.drop 12).take 4 ++ ['-'] ++
    (d.drop 16).take 4 ++ ['-'] ++ d.drop 20 ++ ['}'])

/-- `Value::from(&[Language])`: decimal codes joined by commas -/
def langsValue (codes : List Nat) : List Char :=
  List.intercalate [','] (codes.map fun c => (toString c).toList)

end MsiModel.WireExpr
