/-
Line-protocol helpers for the driver: strings and byte strings travel hex-encoded
(UTF-8 bytes; the empty string is `_`), integers in decimal.
-/
namespace MsiModel.Wire

def hexDigit (n : Nat) : Char :=
  if n < 10 then Char.ofNat (48 + n) else Char.ofNat (87 + n)

def hexOfBytes (bs : List UInt8) : String :=
  if bs.isEmpty then "_" else
    String.ofList (bs.flatMap fun b => [hexDigit (b.toNat / 16), hexDigit (b.toNat % 16)])

def hexVal (c : Char) : Option Nat :=
  if '0' ≤ c ∧ c ≤ '9' then some (c.toNat - 48)
  else if 'a' ≤ c ∧ c ≤ 'f' then some (c.toNat - 87)
  else if 'A' ≤ c ∧ c ≤ 'F' then some (c.toNat - 55)
  else none

def bytesOfHexAux : List Char → List UInt8 → Option (List UInt8)
  | [], acc => some acc.reverse
  | [_], _ => none
  | a :: b :: rest, acc =>
    match hexVal a, hexVal b with
    | some x, some y => bytesOfHexAux rest (UInt8.ofNat (x * 16 + y) :: acc)
    | _, _ => none

def bytesOfHex (s : String) : Option (List UInt8) :=
  if s = "_" then some [] else bytesOfHexAux s.toList []

/-- UTF-8 encode a list of scalar values -/
def utf8EncodeChar (c : Char) : List UInt8 :=
  let n := c.toNat
  if n < 0x80 then [UInt8.ofNat n]
  else if n < 0x800 then [UInt8.ofNat (0xC0 + n / 64), UInt8.ofNat (0x80 + n % 64)]
  else if n < 0x10000 then
    [UInt8.ofNat (0xE0 + n / 4096), UInt8.ofNat (0x80 + n / 64 % 64), UInt8.ofNat (0x80 + n % 64)]
  else
    [UInt8.ofNat (0xF0 + n / 262144), UInt8.ofNat (0x80 + n / 4096 % 64),
     UInt8.ofNat (0x80 + n / 64 % 64), UInt8.ofNat (0x80 + n % 64)]

def utf8Encode (s : List Char) : List UInt8 := s.flatMap utf8EncodeChar

/-- strict UTF-8 decode (the harness only ever sends valid UTF-8); `none` on malformed input -/
def utf8DecodeAux : Nat → List UInt8 → List Char → Option (List Char)
  | 0, _, _ => none
  | _, [], acc => some acc.reverse
  | fuel+1, b :: rest, acc =>
    let n := b.toNat
    if n < 0x80 then utf8DecodeAux fuel rest (Char.ofNat n :: acc)
    else if n < 0xC0 then none
    else if n < 0xE0 then
      match rest with
      | b1 :: r => utf8DecodeAux fuel r (Char.ofNat ((n - 0xC0) * 64 + (b1.toNat - 0x80)) :: acc)
      | _ => none
    else if n < 0xF0 then
      match rest with
      | b1 :: b2 :: r =>
        utf8DecodeAux fuel r
          (Char.ofNat ((n - 0xE0) * 4096 + (b1.toNat - 0x80) * 64 + (b2.toNat - 0x80)) :: acc)
      | _ => none
    else
      match rest with
      | b1 :: b2 :: b3 :: r =>
        utf8DecodeAux fuel r
          (Char.ofNat ((n - 0xF0) * 262144 + (b1.toNat - 0x80) * 4096 + (b2.toNat - 0x80) * 64
            + (b3.toNat - 0x80)) :: acc)
      | _ => none

def utf8Decode (bs : List UInt8) : Option (List Char) := utf8DecodeAux (bs.length + 1) bs []

def strOfHex (s : String) : Option (List Char) := (bytesOfHex s).bind utf8Decode
def hexOfStr (s : List Char) : String := hexOfBytes (utf8Encode s)

def intOfString (s : String) : Option Int := s.toInt?

end MsiModel.Wire
