import MsiModel.Res
/-
Little-endian readers and writers over `List UInt8` (the `byteorder` crate).
A reader is the list of bytes not yet consumed; a failed read is `UnexpectedEof`.
-/
namespace MsiModel.Bytes

abbrev Bytes := List UInt8

def u16le (n : Nat) : Bytes := [UInt8.ofNat (n % 256), UInt8.ofNat (n / 256 % 256)]
def u32le (n : Nat) : Bytes :=
  [UInt8.ofNat (n % 256), UInt8.ofNat (n / 256 % 256), UInt8.ofNat (n / 65536 % 256),
   UInt8.ofNat (n / 16777216 % 256)]
def u64le (n : Nat) : Bytes := u32le (n % 4294967296) ++ u32le (n / 4294967296 % 4294967296)

def readU8 : Bytes → Res (Nat × Bytes)
  | b :: rest => .ok (b.toNat, rest)
  | [] => .err .unexpectedEof

def readU16 : Bytes → Res (Nat × Bytes)
  | a :: b :: rest => .ok (a.toNat + 256 * b.toNat, rest)
  | _ => .err .unexpectedEof

def readU32 : Bytes → Res (Nat × Bytes)
  | a :: b :: c :: d :: rest =>
    .ok (a.toNat + 256 * b.toNat + 65536 * c.toNat + 16777216 * d.toNat, rest)
  | _ => .err .unexpectedEof

def readU64 (bs : Bytes) : Res (Nat × Bytes) := do
  let (lo, r) ← readU32 bs
  let (hi, r2) ← readU32 r
  pure (lo + 4294967296 * hi, r2)

/-- `read_exact(n)` -/
def readExact (n : Nat) (bs : Bytes) : Res (Bytes × Bytes) :=
  if bs.length < n then .err .unexpectedEof else .ok (bs.take n, bs.drop n)

/-- two's complement views -/
def toI16 (w : Nat) : Int := if w < 32768 then w else (w : Int) - 65536
def toI32 (w : Nat) : Int := if w < 2147483648 then w else (w : Int) - 4294967296
def ofI16 (i : Int) : Nat := (i % 65536).toNat
def ofI32 (i : Int) : Nat := (i % 4294967296).toNat

end MsiModel.Bytes
