import MsiModel.Bytes
import MsiModel.Codec
import MsiModel.Value
import MsiModel.Gen.Limits
/-
Model of src/internal/stringpool.rs: `StringRef`, `StringPoolBuilder`, `StringPool`.
-/
namespace MsiModel
open Bytes

structure Pool where
  codepage : Nat                       -- index into Gen.cpVariants
  strings : List (List Char × Nat)     -- (text, refcount)
  longRefs : Bool
  modified : Bool
  deriving Repr, Inhabited, DecidableEq

namespace Pool

def new (cp : Nat) : Pool := ⟨cp, [], false, true⟩

/-- `StringPool::get`: dangling references read as "" -/
def get (p : Pool) (ref : Nat) : List Char :=
  match p.strings[ref - 1]? with
  | some (s, _) => s
  | none => []

def refcount (p : Pool) (ref : Nat) : Nat :=
  match p.strings[ref - 1]? with
  | some (_, rc) => rc
  | none => 0

/-- scan of `incref`: first entry that is free or holds the string with room in its count -/
def increfScan (s : List Char) : List (List Char × Nat) → Nat → Option (List (List Char × Nat) × Nat)
  | [], _ => none
  | (st, rc) :: rest, idx =>
    if rc = 0 then some ((s, 1) :: rest, idx + 1)
    else if st = s ∧ rc < Gen.maxRefcount then some ((st, rc + 1) :: rest, idx + 1)
    else match increfScan s rest (idx + 1) with
      | some (rest', r) => some ((st, rc) :: rest', r)
      | none => none

/-- `StringPool::incref`; the two `panic!`s are the capacity limits -/
def incref (p : Pool) (s : List Char) : Res (Pool × Nat) :=
  match increfScan s p.strings 0 with
  | some (strings, r) => .ok ({ p with strings := strings, modified := true }, r)
  | none =>
    if p.strings.length ≥ Gen.maxShortRefStrings ∧ !p.longRefs then
      .panic "Too many strings; rewriting to long string refs is not yet supported"
    else if p.strings.length ≥ Gen.maxStringRef then
      .panic "Too many distinct strings in string pool"
    else .ok ({ p with strings := p.strings ++ [(s, 1)], modified := true }, p.strings.length + 1)

def decrefAt : List (List Char × Nat) → Nat → Option (List (List Char × Nat))
  | [], _ => none
  | (st, rc) :: rest, 0 =>
    if rc < 1 then none else some ((if rc - 1 = 0 then [] else st, rc - 1) :: rest)
  | e :: rest, i+1 => (decrefAt rest i).map (e :: ·)

/-- `StringPool::decref` (dangling or unreferenced entries are ignored) -/
def decref (p : Pool) (ref : Nat) : Pool :=
  match decrefAt p.strings (ref - 1) with
  | some strings => { p with strings := strings, modified := true }
  | none => p

/-- one `(length, refcount)` entry of `_StringPool`; lengths above 65,535 are written with
the escape `(0, high word)` in front -/
def encodeEntry (len rc : Nat) : Bytes :=
  (if len > 65535 then u16le 0 ++ u16le (len / 65536) else []) ++ u16le (len % 65536) ++ u16le rc

/-- the encoded form of every string of the pool, in order; `none` = not modelled -/
def encodedStrings (p : Pool) : Option (List (Bytes × Nat)) :=
  p.strings.mapM fun (s, rc) => (Codec.encode p.codepage s).map fun bs => (bs, rc)

def poolHeader (p : Pool) : Res Nat :=
  match CodePage.id p.codepage with
  | some n => .ok (if p.longRefs then n.toNat + Gen.longStringRefsBit else n.toNat)
  | none => .panic "unknown code page"

/-- `write_pool` -/
def writePool (p : Pool) : Res Bytes := do
  let header ← poolHeader p
  match encodedStrings p with
  | none => .err .unmodelled
  | some es => pure (u32le header ++ es.flatMap fun (bs, rc) => encodeEntry bs.length rc)

/-- `write_data` -/
def writeData (p : Pool) : Res Bytes :=
  match encodedStrings p with
  | none => .err .unmodelled
  | some es => pure (es.flatMap (·.1))

/-- entries loop of `StringPoolBuilder::read_from_pool` -/
def readEntries : Nat → Bytes → List (Nat × Nat) → Res (List (Nat × Nat))
  | 0, _, acc => pure acc.reverse
  | fuel+1, bs, acc =>
    match readU16 bs with
    | .ok (length, r) => do
      let (rc, r2) ← readU16 r
      if length = 0 ∧ rc > 0 then do
        let (lo, r3) ← readU16 r2
        let (rc2, r4) ← readU16 r3
        readEntries fuel r4 ((rc * 65536 + lo, rc2) :: acc)
      else readEntries fuel r2 ((length, rc) :: acc)
    | _ => pure acc.reverse          -- `while let Ok(..)`: end of data ends the loop

/-- `build_from_data`: cut the data stream into the entries' strings -/
def buildStrings (cp : Nat) : List (Nat × Nat) → Bytes → List (List Char × Nat) → Res (List (List Char × Nat))
  | [], _, acc => pure acc.reverse
  | (len, rc) :: rest, data, acc => do
    let (bs, data') ← readExact len data
    match Codec.decode cp bs with
    | none => .err .unmodelled
    | some s => buildStrings cp rest data' ((s, rc) :: acc)

/-- `read_from_pool` then `build_from_data` -/
def read (poolBytes dataBytes : Bytes) : Res Pool := do
  let (hdr, r) ← readU32 poolBytes
  let long := hdr ≥ Gen.longStringRefsBit
  let idNat := hdr % Gen.longStringRefsBit
  let cp ← Res.ofOption (CodePage.fromId (idNat : Int)) .invalidData
  let entries ← readEntries (r.length + 1) r []
  let strings ← buildStrings cp entries dataBytes []
  pure ⟨cp, strings, long, false⟩

end Pool
end MsiModel
