import MsiModel.CodePage
/-
Executable string codecs per code page for the package model.  UTF-8 and US-ASCII are
modelled in full; for the 24 table-backed pages of `encoding_rs` only the ASCII range is
modelled (all of them are ASCII-transparent) — a non-ASCII character makes the model
answer `none` ("unmodelled"), and the correspondence generators keep such strings to the
UTF-8 page.  Theorems take the codec as a parameter constrained by `Representable`.
-/
namespace MsiModel.Codec
open MsiModel

def isAsciiStr (s : List Char) : Bool := s.all fun c => c.toNat < 128

def utf8Name : Option Nat := Gen.cpVariants.idxOf? "Utf8"
def asciiName : Option Nat := Gen.cpVariants.idxOf? "UsAscii"

/-- `CodePage::encode`; `none` = not modelled for this page/string -/
def encode (cp : Nat) (s : List Char) : Option (List UInt8) :=
  if some cp = utf8Name then some (s.flatMap String.utf8EncodeChar)
  else if some cp = asciiName then some (CodePage.asciiEncode s)
  else if isAsciiStr s then some (s.map fun c => UInt8.ofNat c.toNat)
  else none

/-- WHATWG UTF-8 decoder with U+FFFD replacement (maximal subparts), as
`Encoding::decode_without_bom_handling` -/
def utf8DecodeLossy : Nat → List UInt8 → List Char → List Char
  | 0, _, acc => acc.reverse
  | _, [], acc => acc.reverse
  | fuel+1, b :: rest, acc =>
    let n := b.toNat
    let bad := Char.ofNat 0xFFFD
    if n < 0x80 then utf8DecodeLossy fuel rest (Char.ofNat n :: acc)
    else if n < 0xC2 then utf8DecodeLossy fuel rest (bad :: acc)
    else if n < 0xE0 then
      match rest with
      | b1 :: r =>
        if 0x80 ≤ b1.toNat ∧ b1.toNat < 0xC0 then
          utf8DecodeLossy fuel r (Char.ofNat ((n - 0xC0) * 64 + (b1.toNat - 0x80)) :: acc)
        else utf8DecodeLossy fuel rest (bad :: acc)
      | [] => (bad :: acc).reverse
    else if n < 0xF0 then
      let lo := if n = 0xE0 then 0xA0 else 0x80
      let hi := if n = 0xED then 0xA0 else 0xC0
      match rest with
      | b1 :: r =>
        if lo ≤ b1.toNat ∧ b1.toNat < hi then
          match r with
          | b2 :: r2 =>
            if 0x80 ≤ b2.toNat ∧ b2.toNat < 0xC0 then
              utf8DecodeLossy fuel r2
                (Char.ofNat ((n - 0xE0) * 4096 + (b1.toNat - 0x80) * 64 + (b2.toNat - 0x80)) :: acc)
            else utf8DecodeLossy fuel r (bad :: acc)
          | [] => (bad :: acc).reverse
        else utf8DecodeLossy fuel rest (bad :: acc)
      | [] => (bad :: acc).reverse
    else if n < 0xF5 then
      let lo := if n = 0xF0 then 0x90 else 0x80
      let hi := if n = 0xF4 then 0x90 else 0xC0
      match rest with
      | b1 :: r =>
        if lo ≤ b1.toNat ∧ b1.toNat < hi then
          match r with
          | b2 :: r2 =>
            if 0x80 ≤ b2.toNat ∧ b2.toNat < 0xC0 then
              match r2 with
              | b3 :: r3 =>
                if 0x80 ≤ b3.toNat ∧ b3.toNat < 0xC0 then
                  utf8DecodeLossy fuel r3
                    (Char.ofNat ((n - 0xF0) * 262144 + (b1.toNat - 0x80) * 4096 +
                      (b2.toNat - 0x80) * 64 + (b3.toNat - 0x80)) :: acc)
                else utf8DecodeLossy fuel r2 (bad :: acc)
              | [] => (bad :: acc).reverse
            else utf8DecodeLossy fuel r (bad :: acc)
          | [] => (bad :: acc).reverse
        else utf8DecodeLossy fuel rest (bad :: acc)
      | [] => (bad :: acc).reverse
    else utf8DecodeLossy fuel rest (bad :: acc)

/-- `CodePage::decode`; `none` = not modelled for this page/bytes -/
def decode (cp : Nat) (bs : List UInt8) : Option (List Char) :=
  if some cp = utf8Name then some (utf8DecodeLossy (bs.length + 1) bs [])
  else if some cp = asciiName then some (CodePage.asciiDecode bs)
  else if bs.all fun b => b.toNat < 128 then some (bs.map fun b => Char.ofNat b.toNat)
  else none

end MsiModel.Codec
