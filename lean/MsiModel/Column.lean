import MsiModel.Value
import MsiModel.Category
import MsiModel.Gen.Column
/-
Model of src/internal/column.rs: `ColumnType`, `Column`, the type word
(`Column::bitfield`, `ColumnType::from_bitfield`, `ColumnBuilder::with_bitfield`) and
`Column::is_valid_value`.  Bit constants come from `Gen.Column` (regenerated).
-/
namespace MsiModel

inductive ColType
  | int16
  | int32
  | str (maxLen : Nat)
  deriving DecidableEq, Repr, Inhabited

structure Column where
  name : List Char
  coltype : ColType
  isLocalizable : Bool := false
  isNullable : Bool := false
  isPrimaryKey : Bool := false
  valueRange : Option (Int32 × Int32) := none
  foreignKey : Option (List Char × Int32) := none
  category : Option Category := none
  enumValues : List (List Char) := []
  deriving DecidableEq, Repr, Inhabited

namespace Column

/-- `Column::is_valid_value` -/
def isValidValue (c : Column) : Value → Bool
  | .null => c.isNullable
  | .int n =>
    (match c.valueRange with
     | some (lo, hi) => !(decide (n < lo) || decide (n > hi))
     | none => true) &&
    (match c.coltype with
     | .int16 => decide (-32768 < n.toInt ∧ n.toInt ≤ 32767)
     | .int32 => decide (n.toInt > -2147483648)
     | .str _ => false)
  | .str s =>
    match c.coltype with
    | .int16 | .int32 => false
    | .str maxLen =>
      (match c.category with
       | some cat => cat.validate s
       | none => true) &&
      (c.enumValues.isEmpty || c.enumValues.contains s) &&
      (maxLen == 0 || decide (s.length ≤ maxLen))

/-- `ColumnType::bitfield`, with `max_len as i32` (wraps modulo 2^32; value as a Nat bit pattern) -/
def typeBits : ColType → Nat
  | .int16 => Gen.colInt16Bits
  | .int32 => Gen.colInt32Bits
  | .str maxLen => Gen.colStringBit ||| (maxLen % 4294967296)

/-- `Column::bitfield` as an unsigned 32-bit pattern -/
def bitfield (c : Column) : Nat :=
  let bits := typeBits c.coltype ||| Gen.colValidBit
  let bits := if c.isLocalizable then bits ||| Gen.colLocalizableBit else bits
  let bits := if c.isNullable then bits ||| Gen.colNullableBit else bits
  let nonbinary : Bool := match c.coltype with
    | .int16 => true
    | .int32 => false
    | .str 0 => c.category != some .binary
    | .str _ => true
  let bits := if nonbinary then bits ||| Gen.colNonbinaryBit else bits
  if c.isPrimaryKey then bits ||| Gen.colPrimaryKeyBit else bits

/-- `ColumnType::from_bitfield` -/
def typeOfBits (bits : Nat) : Res ColType :=
  let size := bits &&& Gen.colFieldSizeMask
  if bits &&& Gen.colStringBit ≠ 0 then .ok (.str size)
  else if size = 4 then .ok .int32
  else if size = 2 then .ok .int16
  else if size = 1 then .ok .int16
  else .err .invalidData

/-- `ColumnBuilder::with_bitfield`: the builder `b` carries name, nullability from
`_Validation`, range, foreign key, category and enumeration; the type word gives the rest -/
def withBitfield (b : Column) (bits : Nat) : Res Column := do
  let t ← typeOfBits bits
  pure { b with
    coltype := t
    isLocalizable := bits &&& Gen.colLocalizableBit ≠ 0
    isNullable := (bits &&& Gen.colNullableBit ≠ 0) || b.isNullable
    isPrimaryKey := bits &&& Gen.colPrimaryKeyBit ≠ 0 }

end Column
end MsiModel
