/-
Result monad of the implementation model: every Rust `io::Result` becomes `ok | err kind`,
and every `unwrap`/index/`panic!`/`debug_assert!`/unchecked arithmetic becomes a visible
`panic` outcome, so "never panics" is a theorem about the model and a three-way outcome
that the correspondence harness compares with `catch_unwind` on the real call.
-/
namespace MsiModel

/-- `std::io::ErrorKind`s the library produces (others are lumped into `other`). -/
inductive ErrKind
  | notFound | alreadyExists | invalidInput | invalidData | unexpectedEof | other
  | unmodelled   -- not an io::ErrorKind: the model does not cover this input (driver prints it)
  deriving DecidableEq, Repr, Inhabited

def ErrKind.toString : ErrKind → String
  | .notFound => "NotFound" | .alreadyExists => "AlreadyExists"
  | .invalidInput => "InvalidInput" | .invalidData => "InvalidData"
  | .unexpectedEof => "UnexpectedEof" | .other => "Other" | .unmodelled => "UNMODELLED"

inductive Res (α : Type) where
  | ok (a : α)
  | err (k : ErrKind)
  | panic (why : String)
  deriving Repr, DecidableEq

namespace Res

@[inline] def bind {α β} (x : Res α) (f : α → Res β) : Res β :=
  match x with
  | ok a => f a
  | err k => err k
  | panic w => panic w

instance : Monad Res where
  pure := ok
  bind := bind

/-- `Option` to `Res`: `none` is the given error -/
def ofOption {α} (o : Option α) (k : ErrKind) : Res α :=
  match o with
  | some a => ok a
  | none => err k

def isOk {α} : Res α → Bool | ok _ => true | _ => false
def isPanic {α} : Res α → Bool | panic _ => true | _ => false

@[simp] theorem bind_ok {α β} (a : α) (f : α → Res β) : (ok a >>= f) = f a := rfl
@[simp] theorem bind_err {α β} (k) (f : α → Res β) : (err k >>= f) = err k := rfl
@[simp] theorem bind_panic {α β} (w) (f : α → Res β) : (panic w >>= f) = panic w := rfl
@[simp] theorem pure_eq {α} (a : α) : (pure a : Res α) = ok a := rfl

end Res

/-- Build profile: the two rustc switches that change observable behaviour. -/
structure Profile where
  overflowChecks : Bool
  debugAssertions : Bool
  deriving DecidableEq, Repr

def Profile.dev : Profile := ⟨true, true⟩
def Profile.release : Profile := ⟨false, false⟩

end MsiModel
