import MsiModel.Column
import MsiModel.Expr
import MsiModel.Pool
import MsiModel.StreamName
/-
Model of src/internal/table.rs and the cell codec of column.rs
(`ColumnType::{read_value, write_value, width}`, `Table::{read_rows, write_rows}`).
-/
namespace MsiModel
open Bytes

/-- `ValueRef` -/
inductive Cell
  | null
  | int (n : Int32)
  | str (ref : Nat)
  deriving DecidableEq, Repr, Inhabited

structure Table where
  name : List Char
  columns : List Column
  longRefs : Bool
  deriving Repr, Inhabited, DecidableEq

namespace Cell

/-- `ValueRef::to_value` -/
def toValue (p : Pool) : Cell → Value
  | null => .null
  | int n => .int n
  | str r => .str (p.get r)

/-- `ValueRef::create` -/
def create (p : Pool) : Value → Res (Pool × Cell)
  | .null => .ok (p, null)
  | .int n => .ok (p, int n)
  | .str s => do let (p', r) ← p.incref s; pure (p', str r)

/-- `ValueRef::remove` -/
def remove (p : Pool) : Cell → Pool
  | str r => p.decref r
  | _ => p

end Cell

namespace ColType

def width (long : Bool) : ColType → Nat
  | .int16 => 2
  | .int32 => 4
  | .str _ => if long then 3 else 2

/-- `ColumnType::read_value`: offset-binary integers, zero = null -/
def readValue (long : Bool) (t : ColType) (bs : Bytes) : Res (Cell × Bytes) :=
  match t with
  | .int16 => do
    let (w, r) ← readU16 bs
    pure (if w = 0 then .null else .int (Int32.ofInt ((w : Int) - 32768)), r)
  | .int32 => do
    let (w, r) ← readU32 bs
    pure (if w = 0 then .null else .int (Int32.ofInt ((w : Int) - 2147483648)), r)
  | .str _ => do
    let (lo, r) ← readU16 bs
    if long then do
      let (hi, r2) ← readU8 r
      let n := lo + 65536 * hi
      pure (if n = 0 then .null else .str n, r2)
    else pure (if lo = 0 then .null else .str lo, r)

/-- `ColumnType::write_value` -/
def writeValue (long : Bool) (t : ColType) (c : Cell) : Res Bytes :=
  match t, c with
  | .int16, .null => .ok (u16le 0)
  | .int16, .int n => .ok (u16le (ofI16 (n.toInt + 32768)))      -- `(n as i16) ^ -0x8000`
  | .int16, .str _ => .err .invalidInput
  | .int32, .null => .ok (u32le 0)
  | .int32, .int n => .ok (u32le (ofI32 (n.toInt + 2147483648)))
  | .int32, .str _ => .err .invalidInput
  | .str _, .int _ => .err .invalidInput
  | .str _, .null => .ok (if long then u16le 0 ++ [0] else u16le 0)
  | .str _, .str r =>
    if long then .ok (u16le (r % 65536) ++ [UInt8.ofNat (r / 65536 % 256)])
    else if r ≤ 65535 then .ok (u16le r)
    else .err .invalidInput

end ColType

namespace Table

def streamName (t : Table) : List Char := StreamName.encode t.name true

/-- `Table::is_valid_name` -/
def isValidName (n : List Char) : Bool :=
  Category.validate .identifier n && StreamName.isValid n true

def indexOfColumn (t : Table) (name : List Char) : Option Nat :=
  Row.indexOf (t.columns.map (·.name)) name

def hasColumn (t : Table) (name : List Char) : Bool := (t.indexOfColumn name).isSome

def keyIndices (t : Table) : List Nat :=
  (t.columns.zipIdx.filter (·.1.isPrimaryKey)).map (·.2)

def rowSize (t : Table) : Nat := (t.columns.map fun c => c.coltype.width t.longRefs).sum

/-- read `n` cells of one column, appending each to its row -/
def readColumn (long : Bool) (ty : ColType) :
    List (List Cell) → Bytes → List (List Cell) → Res (List (List Cell) × Bytes)
  | [], bs, acc => pure (acc.reverse, bs)
  | row :: rows, bs, acc => do
    let (c, r) ← ty.readValue long bs
    readColumn long ty rows r ((row ++ [c]) :: acc)

/-- all columns in turn (column-major) -/
def readCols (long : Bool) : List Column → List (List Cell) → Bytes → Res (List (List Cell))
  | [], rows, _ => pure rows
  | c :: cs, rows, bs => do
    let (rows', r) ← readColumn long c.coltype rows bs []
    readCols long cs rows' r

/-- `Table::read_rows` (column-major) -/
def readRows (t : Table) (data : Bytes) : Res (List (List Cell)) :=
  let rowSize := t.rowSize
  let numRows := if rowSize > 0 then data.length / rowSize else 0
  if numRows > Gen.maxTableRows then .err .invalidData else
  readCols t.longRefs t.columns (List.replicate numRows []) data

/-- one column of `write_rows`: cell `i` of every row; `row[index]` panics on a short row -/
def writeCol (long : Bool) (ty : ColType) (i : Nat) : List (List Cell) → Bytes → Res Bytes
  | [], acc => pure acc
  | row :: rest, acc =>
    match row[i]? with
    | none => .panic "row index out of range in write_rows"
    | some c => do
      let bs ← ty.writeValue long c
      writeCol long ty i rest (acc ++ bs)

def writeCols (long : Bool) (rows : List (List Cell)) : List Column → Nat → Bytes → Res Bytes
  | [], _, acc => pure acc
  | c :: cs, i, acc => do
    let acc' ← writeCol long c.coltype i rows acc
    writeCols long rows cs (i + 1) acc'

/-- `Table::write_rows` -/
def writeRows (t : Table) (rows : List (List Cell)) : Res Bytes :=
  writeCols t.longRefs rows t.columns 0 []

end Table
end MsiModel
