import MsiModel.Value
import MsiModel.Gen.Expr
/-
Model of src/internal/expr.rs: the AST, the folding constructors `Expr::unop/binop`,
`Ast::eval`, `UnOp::eval`, `BinOp::eval`, and `format_with_precedence` (precedences and
operator spellings come from `Gen.Expr`, regenerated from the source).
-/
namespace MsiModel

inductive UnOp | neg | bitNot | boolNot
  deriving DecidableEq, Repr

inductive BinOp
  | eq | ne | lt | le | gt | ge | add | sub | mul | div | bitAnd | bitOr | bitXor | shl | shr
  deriving DecidableEq, Repr

inductive Ast
  | lit (v : Value)
  | col (name : List Char)
  | un (op : UnOp) (a : Ast)
  | bin (op : BinOp) (a b : Ast)
  | and (a b : Ast)
  | or (a b : Ast)
  deriving Repr, Inhabited, DecidableEq

/-- a row as `Expr::eval` sees it: column names (of the row's table) and values -/
structure Row where
  cols : List (List Char)
  vals : List Value
  deriving Repr

namespace Row
def indexOf (names : List (List Char)) (n : List Char) : Option Nat :=
  match names with
  | [] => none
  | x :: xs => if x = n then some 0 else (indexOf xs n).map (· + 1)

/-- `impl Index<&str> for Row`: panics when the table has no such column -/
def get (r : Row) (name : List Char) : Res Value :=
  match indexOf r.cols name with
  | some i => match r.vals[i]? with
    | some v => .ok v
    | none => .panic "row index out of range"
  | none => .panic "no column named"
end Row

namespace UnOp
/-- `UnOp::eval` (after the wrapping fix: total) -/
def eval : UnOp → Value → Value
  | neg, .int n => .int (-n)                -- wrapping_neg
  | neg, _ => .null
  | bitNot, .int n => .int (~~~n)
  | bitNot, _ => .null
  | boolNot, v => Value.fromBool (!v.toBool)
end UnOp

namespace BinOp
/-- shift count accepted by `u32::try_from(n).ok().and_then(|n| x.checked_shl(n))` -/
def shiftOk (n : Int32) : Bool := decide (0 ≤ n.toInt ∧ n.toInt < 32)

/-- `BinOp::eval` (after the wrapping fix: total) -/
def eval : BinOp → Value → Value → Value
  | eq, a, b => Value.fromBool (a == b)
  | ne, a, b => Value.fromBool (a != b)
  | lt, a, b => Value.fromBool (Value.lt a b)
  | le, a, b => Value.fromBool (Value.le a b)
  | gt, a, b => Value.fromBool (Value.lt b a)
  | ge, a, b => Value.fromBool (Value.le b a)
  | add, .int a, .int b => .int (a + b)
  | add, .str a, .str b => .str (a ++ b)
  | add, _, _ => .null
  | sub, .int a, .int b => .int (a - b)
  | sub, _, _ => .null
  | mul, .int a, .int b => .int (a * b)
  | mul, _, _ => .null
  | div, .int a, .int b => if b = 0 then .null else .int (a / b)
  | div, _, _ => .null
  | bitAnd, .int a, .int b => .int (a &&& b)
  | bitAnd, _, _ => .null
  | bitOr, .int a, .int b => .int (a ||| b)
  | bitOr, _, _ => .null
  | bitXor, .int a, .int b => .int (a ^^^ b)
  | bitXor, _, _ => .null
  | shl, .int a, .int b => if shiftOk b then .int (a <<< b) else .null
  | shl, _, _ => .null
  | shr, .int a, .int b => if shiftOk b then .int (a >>> b) else .null
  | shr, _, _ => .null
end BinOp

namespace Ast

/-- `Ast::eval` -/
def eval : Ast → Row → Res Value
  | lit v, _ => .ok v
  | col n, r => r.get n
  | un op a, r => do let v ← eval a r; pure (op.eval v)
  | bin op a b, r => do let x ← eval a r; let y ← eval b r; pure (op.eval x y)
  | and a b, r => do
      let x ← eval a r
      if x.toBool then do let y ← eval b r; pure (Value.fromBool y.toBool)
      else pure (Value.fromBool false)
  | or a b, r => do
      let x ← eval a r
      if x.toBool then pure (Value.fromBool true)
      else do let y ← eval b r; pure (Value.fromBool y.toBool)

/-- `Expr::unop`: folds a literal argument at construction -/
def mkUn (op : UnOp) : Ast → Ast
  | lit v => lit (op.eval v)
  | a => un op a

/-- `Expr::binop`: folds two literal arguments at construction -/
def mkBin (op : BinOp) : Ast → Ast → Ast
  | lit x, lit y => lit (op.eval x y)
  | a, b => bin op a b

/-- the expression as the API builds it from the user's tree of constructor calls -/
def build : Ast → Ast
  | lit v => lit v
  | col n => col n
  | un op a => mkUn op (build a)
  | bin op a b => mkBin op (build a) (build b)
  | and a b => and (build a) (build b)
  | or a b => or (build a) (build b)

/-- `Expr::column_names` (as a list) -/
def columns : Ast → List (List Char)
  | lit _ => []
  | col n => [n]
  | un _ a => columns a
  | bin _ a b => columns a ++ columns b
  | and a b => columns a ++ columns b
  | or a b => columns a ++ columns b

end Ast

/-! ### printing -/

def UnOp.prec : UnOp → Nat
  | .neg => Gen.precNeg | .bitNot => Gen.precBitNot | .boolNot => Gen.precBoolNot
def UnOp.text : UnOp → String
  | .neg => Gen.textNeg | .bitNot => Gen.textBitNot | .boolNot => Gen.textBoolNot

def BinOp.prec : BinOp → Nat
  | .eq => Gen.precEq | .ne => Gen.precNe | .lt => Gen.precLt | .le => Gen.precLe
  | .gt => Gen.precGt | .ge => Gen.precGe | .add => Gen.precAdd | .sub => Gen.precSub
  | .mul => Gen.precMul | .div => Gen.precDiv | .bitAnd => Gen.precBitAnd
  | .bitOr => Gen.precBitOr | .bitXor => Gen.precBitXor | .shl => Gen.precShl | .shr => Gen.precShr
def BinOp.text : BinOp → String
  | .eq => Gen.textEq | .ne => Gen.textNe | .lt => Gen.textLt | .le => Gen.textLe
  | .gt => Gen.textGt | .ge => Gen.textGe | .add => Gen.textAdd | .sub => Gen.textSub
  | .mul => Gen.textMul | .div => Gen.textDiv | .bitAnd => Gen.textBitAnd
  | .bitOr => Gen.textBitOr | .bitXor => Gen.textBitXor | .shl => Gen.textShl | .shr => Gen.textShr

namespace Ast

def paren (b : Bool) (s : List Char) : List Char := if b then '(' :: s ++ [')'] else s

/-- `format_with_precedence`; `none` when a string literal needs escapes (not modelled) -/
def fmtP : Ast → Nat → Option (List Char)
  | lit v, _ => v.display
  | col n, _ => some n
  | un op a, p => do
      let s ← fmtP a op.prec
      pure (paren (decide (op.prec < p)) (op.text.toList ++ s))
  | bin op a b, p => do
      let x ← fmtP a op.prec
      let y ← fmtP b (op.prec + 1)
      pure (paren (decide (op.prec < p)) (x ++ op.text.toList ++ y))
  | and a b, p => do
      let x ← fmtP a Gen.precAnd
      let y ← fmtP b (Gen.precAnd + 1)
      pure (paren (decide (Gen.precAnd < p)) (x ++ Gen.textAnd.toList ++ y))
  | or a b, p => do
      let x ← fmtP a Gen.precOr
      let y ← fmtP b (Gen.precOr + 1)
      pure (paren (decide (Gen.precOr < p)) (x ++ Gen.textOr.toList ++ y))

/-- `impl Display for Expr` -/
def fmt (e : Ast) : Option (List Char) := fmtP e 0

end Ast
end MsiModel
