import MsiModel.Gen.Languages
/-
Model of src/internal/language.rs: `Language::{from_code, code, tag, from_tag, new}`.
Codes are `Nat` (< 65536 for every value the Rust type `u16` can hold); tags are
`List Char`.  The table is `Gen.languages`, regenerated from the Rust source.
-/
namespace MsiModel.Language
open MsiModel

abbrev Table := List (Nat × List Char × List (Nat × List Char))

/-- `slice::binary_search_by_key` as implemented in Rust's `core` (branch-free loop:
`while size > 1 { half = size/2; mid = base+half; base = if key(mid) > k {base} else {mid};
size -= half }` then one final comparison).  `fuel` bounds the loop; `size` halves. -/
def bsLoop (keys : List Nat) (k : Nat) : (fuel size base : Nat) → Nat
  | 0, _, base => base
  | fuel+1, size, base =>
    if size ≤ 1 then base else
      let half := size / 2
      let mid := base + half
      let base' := if keys.getD mid 0 > k then base else mid
      bsLoop keys k fuel (size - half) base'

/-- `Some index` for `Ok(index)`, `none` for `Err(_)`. -/
def bsearch (keys : List Nat) (k : Nat) : Option Nat :=
  if keys.length = 0 then none else
    let base := bsLoop keys k keys.length keys.length 0
    if keys.getD base 0 = k then some base else none

def und : List Char := ['u', 'n', 'd']

/-- `Language::tag` for the language with the given code, over table `T`. -/
def tagIn (T : Table) (code : Nat) : List Char :=
  let langCode := code &&& Gen.langMask               -- `self.code & LANG_MASK`
  match bsearch (T.map (·.1)) langCode with
  | some index =>
    match T[index]? with
    | some (_, langTag, sublangs) =>
      let sub := code >>> Gen.sublangShift             -- `self.code >> SUBLANG_SHIFT`
      match bsearch (sublangs.map (·.1)) sub with
      | some i => match sublangs[i]? with
        | some (_, t) => t
        | none => und      -- unreachable: bsearch returns an index in range (proved)
      | none => langTag
    | none => und          -- unreachable (proved)
  | none => und

/-- `Language::new(lang, sublang).code` : `lang | (sublang << SHIFT)` in `u16`. -/
def newCode (lang sublang : Nat) : Nat :=
  (lang ||| ((sublang <<< Gen.sublangShift) % 65536)) % 65536

def langPart (tag : List Char) : List Char := tag.takeWhile (· ≠ '-')
def hasRegion (tag : List Char) : Bool := tag.contains '-'

def findSub (subs : List (Nat × List Char)) (tag : List Char) : Option Nat :=
  match subs with
  | [] => none
  | (c, t) :: rest => if t = tag then some c else findSub rest tag

/-- `Language::from_tag(tag).code` over table `T`. -/
def fromTagIn (T : Table) (tag : List Char) : Nat :=
  match T with
  | [] => newCode Gen.langUnknown.1 Gen.langUnknown.2
  | (langCode, langTag, subs) :: rest =>
    if langTag = langPart tag then
      if hasRegion tag then
        match findSub subs tag with
        | some sc => newCode langCode sc
        | none => newCode langCode Gen.sublangUnknownRegion
      else newCode langCode Gen.sublangNoRegion
    else fromTagIn rest tag

def tag (code : Nat) : List Char := tagIn Gen.languages code
def fromTag (t : List Char) : Nat := fromTagIn Gen.languages t

/-- `debug_assert_eq!(lang & !LANG_MASK, 0)` in `Language::new`, for every table row. -/
def newNeverAsserts (T : Table) : Bool := T.all fun r => r.1 ≤ Gen.langMask

def allTags (T : Table) : List (List Char) :=
  T.flatMap fun r => r.2.1 :: r.2.2.map (·.2)

def langTags (T : Table) : List (List Char) := T.map (·.2.1)

end MsiModel.Language
