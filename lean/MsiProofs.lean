import MsiProofs.Props.C13
import MsiProofs.Props.C17
import MsiProofs.Props.C18
import MsiProofs.Props.C19
import MsiProofs.Props.C14
import MsiProofs.Props.C07
import MsiProofs.Props.C11
