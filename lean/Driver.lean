import MsiModel
/-
`msidriver`: executes the model's own definitions on a stream of requests, one request
per line on stdin, one reply per line on stdout.  The correspondence harness runs the
real crate on the same requests and check.py diffs the two reply streams.
-/
open MsiModel

def reply (toks : List String) : String :=
  match toks with
  | ["lang_tag", c] =>
    match c.toNat? with
    | some n => Wire.hexOfStr (Language.tag n)
    | none => "bad-request"
  | ["lang_from_tag", h] =>
    match Wire.strOfHex h with
    | some t => toString (Language.fromTag t)
    | none => "bad-request"
  | ["lang_rt", c] =>
    match c.toNat? with
    | some n =>
      let t := Language.tag n
      let back := Language.fromTag t
      s!"{Wire.hexOfStr t} {back} {Wire.hexOfStr (Language.tag back)} {n}"
    | none => "bad-request"
  | ["lang_from_tag_rt", h] =>
    match Wire.strOfHex h with
    | some t => let c := Language.fromTag t; s!"{c} {Wire.hexOfStr (Language.tag c)}"
    | none => "bad-request"
  | ["validate", cat, h] =>
    match Category.ofVariantName cat, Wire.strOfHex h with
    | some c, some s => if c.validate s then "1" else "0"
    | _, _ => "bad-request"
  | ["is_valid", col, v] =>
    match WireExpr.parseColumn col, WireExpr.parseValue v with
    | some c, some x => if c.isValidValue x then "1" else "0"
    | _, _ => "bad-request"
  | ["guid_value", hex] =>
    match WireExpr.guidValue hex.toList with
    | some g => s!"{WireExpr.valueTok (.str g)} {if Category.validate .guid g then 1 else 0}"
    | none => "bad-request"
  | ["langs_value", codes] =>
    match (WireExpr.splitOnChar ',' codes).mapM String.toNat? with
    | some cs =>
      let v := WireExpr.langsValue cs
      s!"{WireExpr.valueTok (.str v)} {if Category.validate .language v then 1 else 0}"
    | none => "bad-request"
  | ["sn_encode", h, t] =>
    match Wire.strOfHex h with
    | some n => Wire.hexOfStr (StreamName.encode n (t == "1"))
    | none => "bad-request"
  | ["sn_decode", h] =>
    match Wire.strOfHex h with
    | some n => let (d, t) := StreamName.decode n; s!"{Wire.hexOfStr d} {if t then 1 else 0}"
    | none => "bad-request"
  | ["sn_valid", h, t] =>
    match Wire.strOfHex h with
    | some n => if StreamName.isValid n (t == "1") then "1" else "0"
    | none => "bad-request"
  | ["cp_id", name] =>
    match Gen.cpVariants.idxOf? name with
    | some i => match CodePage.id i with
      | some n => toString n
      | none => "bad-request"
    | none => "bad-request"
  | ["cp_from_id", n] =>
    match n.toInt? with
    | some k => match CodePage.fromId k with
      | some cp => Gen.cpVariants.getD cp "?"
      | none => "none"
    | none => "bad-request"
  | ["cp_decode", "UsAscii", h] =>
    match Wire.bytesOfHex h with
    | some bs => Wire.hexOfStr (CodePage.asciiDecode bs)
    | none => "bad-request"
  | ["enc_loop", _name, h, codes] =>
    match Wire.strOfHex h with
    | some s =>
      let cs := if codes = "_" then [] else codes.splitOn ","
      if cs.length ≠ s.length then "bad-request" else
      let table : List (Char × Option (List UInt8)) :=
        (s.zip cs).map fun (c, code) => (c, if code = "?" then none else Wire.bytesOfHex code)
      let enc : Char → Option (List UInt8) := fun c =>
        match table.find? (·.1 == c) with
        | some (_, e) => e
        | none => none
      match CodePage.encodeLoop enc Gen.cpEncodeBufferSize (s.length + 1) s [] with
      | some bs => Wire.hexOfBytes bs
      | none => "hang"
    | none => "bad-request"
  | "eval" :: rest =>
    match WireExpr.parseRow rest with
    | some (row, rest2) =>
      match WireExpr.parseExpr (rest2.length + 1) rest2 with
      | some (e, []) => WireExpr.resValueTok ((Ast.build e).eval row)
      | _ => "bad-request"
    | none => "bad-request"
  | "eval2" :: rest =>
    -- one expression evaluated on one row, then on another, then on the first again: in the model
    -- an expression is a value, so each evaluation depends on its row alone
    match WireExpr.parseRow rest with
    | some (row1, rest1) =>
      match WireExpr.parseRow rest1 with
      | some (row2, rest2) =>
        match WireExpr.parseExpr (rest2.length + 1) rest2 with
        | some (e, []) =>
          let a := WireExpr.resValueTok ((Ast.build e).eval row1)
          let b := WireExpr.resValueTok ((Ast.build e).eval row2)
          if a == "panic" || b == "panic" then "panic" else a ++ " " ++ b ++ " " ++ a
        | _ => "bad-request"
      | none => "bad-request"
    | none => "bad-request"
  | "fmt" :: rest =>
    match WireExpr.parseExpr (rest.length + 1) rest with
    | some (e, []) =>
      match (Ast.build e).fmt with
      | some s =>
        -- self-check of the reader theorems on the very text that is diffed against the real
        -- `to_string()`: in the theorem's domain, reading the text must give the expression back
        if (Ast.build e).columns.all goodIdentB && readText s != some (Ast.build e) then
          "MODEL-READER-DISAGREES " ++ Wire.hexOfStr s
        else Wire.hexOfStr s
      | none => "unmodelled"
    | _ => "bad-request"
  | ["ts_rt", secs, nanos] =>
    match secs.toInt?, nanos.toNat? with
    | some s, some n =>
      let t : Int := s * 1000000000 + n
      match Timestamp.toSystemTime (Timestamp.fromSystemTime t) with
      | some r =>
        match Timestamp.toSystemTime (Timestamp.fromSystemTime r) with
        | some r2 => s!"{r / 1000000000} {r % 1000000000} {r2 / 1000000000} {r2 % 1000000000}"
        | none => "panic"
      | none => "panic"
    | _, _ => "bad-request"
  | "ts_save" :: secs :: nanos :: _ =>
    -- (optional further tokens: a summary code page and text for the string properties; the
    -- creation time read back does not depend on them)
    match secs.toInt?, nanos.toNat? with
    | some s, some n =>
      let t : Int := s * 1000000000 + n
      match Timestamp.toSystemTime (Timestamp.fromSystemTime t) with
      | some r => s!"{r / 1000000000} {r % 1000000000}"
      | none => "panic"
    | _, _ => "bad-request"
  | _ => "bad-request"

partial def loop (inp : IO.FS.Stream) (out : IO.FS.Stream) (st : Session.State) : IO Unit := do
  let line ← inp.getLine
  if line.isEmpty then return ()
  let toks := (line.trimAscii.toString.splitOn " ").filter (· ≠ "")
  if toks.isEmpty then
    out.putStrLn ""
    loop inp out st
  else if (toks.headD "").startsWith "@" then
    out.putStrLn "@"        -- oracle-only request: executed on the real crate only
    loop inp out st
  else if toks.headD "" == "oracle_only_session" then
    -- the rest of this session uses something the model leaves out (e.g. the container's
    -- case folding of non-ASCII letters): decided by the oracle on the real code only
    out.putStrLn "UNMODELLED"
    loop inp out st
  else
    match Session.step st toks with
    | some (st', r) =>
      out.putStrLn r
      loop inp out st'
    | none =>
      out.putStrLn (reply toks)
      loop inp out st

def parseProfile : List String → Profile
  | "--profile" :: "release" :: _ => Profile.release
  | _ :: rest => parseProfile rest
  | [] => Profile.dev

def main (args : List String) : IO Unit := do
  let prof := parseProfile args
  let inp ← IO.getStdin
  let out ← IO.getStdout
  loop inp out ⟨prof, none⟩
  out.flush
