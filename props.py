"""Per-property configuration of check.py: Lean module, obligations (theorem names audited
with #print axioms), translator extractors consumed, harness profiles."""

PROPS = {
    "C17": {
        "module": "MsiProofs.Props.C17",
        "gen": ["languages"],
        "profiles": ["dev"],
        "theorems": [
            "MsiProofs.C17.code_preserved",
            "MsiProofs.C17.bsearch_lt",
            "MsiProofs.C17.tag_total",
            "MsiProofs.C17.tagIn_index_in_range",
            "MsiProofs.C17.table_tags_fixed",
            "MsiProofs.C17.table_codes",
            "MsiProofs.C17.und_fixed",
            "MsiProofs.C17.new_never_asserts",
            "MsiProofs.C17.tag_stable",
            "MsiProofs.C17.unknown_lang_neutral",
            "MsiProofs.C17.unknown_region_safe",
            "MsiProofs.C17.well_known",
        ],
        "level_text": "Lean theorems over the model of Language::{from_code,code,tag,from_tag}: totality of tag (binary-search "
                      "indices proved in range), tag->code->tag stability for every code, every table tag fixed, unknown language -> neutral, "
                      "unknown region -> bare language (generic lemmas by induction over any table + decide +kernel facts re-checked on the "
                      "table regenerated from the Rust source), well-known LCIDs; tie: translator + complete sweep of all 65,536 codes on the real crate.",
        "level_note": "Trusted: Lean kernel; tools/extract.py (cross-checked by the complete sweep: every code's tag is compared real vs model); "
                      "the hand model of binary_search_by_key; harness. The quantifier over codes is finite and is also decided completely on the real code.",
        "technique": "Lean 4 proof (induction + decide +kernel on regenerated table) + exhaustive differential sweep",
        "exhaustive": True,
        "rule": "all 65,536 codes through tag/from_tag/tag/code (complete); the well-known id/tag list; "
                "all tag strings up to length 4 (quick) / 5 (thorough) over a 13-letter alphabet; seeded random "
                "tags (known language x random region, unknown languages, odd shapes). "
                "non-trivial = distinct tag strings exercised + distinct non-'und' tags produced",
        "trusted_base": [
            "model MsiModel/Language.lean (hand-written; binary search modelled after core::slice::binary_search_by)",
            "Gen/Languages.lean regenerated from src/internal/language.rs",
        ],
        "assumptions": [
            "Rust's slice::binary_search_by_key behaves as the loop modelled in bsLoop (validated by the complete 65,536-code sweep)",
        ],
    },
}
PROPS["C18"] = {
    "module": "MsiProofs.Props.C18",
    "gen": ["timestamp"],
    "profiles": ["dev"],
    "theorems": [
        "MsiProofs.C18.constants",
        "MsiProofs.C18.toSystemTime_total",
        "MsiProofs.C18.fromSystemTime_nonneg",
        "MsiProofs.C18.fromSystemTime_neg",
        "MsiProofs.C18.within_resolution",
        "MsiProofs.C18.ticks_fixed",
        "MsiProofs.C18.set_get_idempotent",
        "MsiProofs.C18.monotone",
        "MsiProofs.C18.toSystemTime_monotone",
        "MsiProofs.C18.saturates_low",
        "MsiProofs.C18.saturates_high",
    ],
    "level_text": "Lean theorems (linear integer arithmetic, for every Int nanosecond offset / every u64 tick) over the model of "
                  "timestamp_from_system_time / system_time_from_timestamp with saturating u64 arithmetic: round trip within 100 ns on "
                  "[1601, tick maximum], ticks are fixed points (set(get) idempotent), monotone, saturation at both ends, no panic and no "
                  "UNIX_EPOCH fallback; constants regenerated from timestamp.rs; tie: boundary + random times through SummaryInfo in memory and through save/reopen.",
    "level_note": "Trusted: Lean kernel; the model of SystemTime as signed nanoseconds with i64 seconds (64-bit Linux); translator for the four constants; "
                  "harness. Through-save part relies on the FILETIME being 8 little-endian bytes (compared by the harness, theorem in C10).",
    "technique": "Lean 4 proof (omega over regenerated constants) + differential boundary/random correspondence",
    "rule": "every nanosecond within +-250 ns of 1601-01-01, 1970-01-01, the 64-bit tick maximum and neighbours; whole-second boundaries around the epoch; "
            "extremes of the i64-second SystemTime range; seeded random times (80% uniform ticks in range + sub-tick nanos, 10% within 4 s of the epoch, "
            "10% anywhere in the i64 range); a seeded subset through save/reopen. non-trivial = distinct in-range ticks exercised",
    "trusted_base": ["model MsiModel/Timestamp.lean (hand-written)", "Gen/Timestamp.lean regenerated from src/internal/timestamp.rs"],
    "assumptions": ["SystemTime has i64 seconds and checked_add/checked_sub behave as on 64-bit Linux"],
}

# reasons for properties not claimed (yet); everything else defaults to "not yet built"
NOT_CLAIMED = {}
