"""Per-property configuration of check.py: Lean module, obligations (theorem names audited
with #print axioms), translator extractors consumed, harness profiles."""

PROPS = {
    "C17": {
        "module": "MsiProofs.Props.C17",
        "gen": ["languages"],
        "profiles": ["dev"],
        "theorems": [
            "MsiProofs.C17.code_preserved",
            "MsiProofs.C17.bsearch_lt",
            "MsiProofs.C17.tag_total",
            "MsiProofs.C17.tagIn_index_in_range",
            "MsiProofs.C17.table_tags_fixed",
            "MsiProofs.C17.table_codes",
            "MsiProofs.C17.und_fixed",
            "MsiProofs.C17.new_never_asserts",
            "MsiProofs.C17.tag_stable",
            "MsiProofs.C17.unknown_lang_neutral",
            "MsiProofs.C17.unknown_region_safe",
            "MsiProofs.C17.well_known",
        ],
        "level_text": "Lean theorems over the model of Language::{from_code,code,tag,from_tag}: totality of tag (binary-search "
                      "indices proved in range), tag->code->tag stability for every code, every table tag fixed, unknown language -> neutral, "
                      "unknown region -> bare language (generic lemmas by induction over any table + decide +kernel facts re-checked on the "
                      "table regenerated from the Rust source), well-known LCIDs; tie: translator + complete sweep of all 65,536 codes on the real crate.",
        "level_note": "Trusted: Lean kernel; tools/extract.py (cross-checked by the complete sweep: every code's tag is compared real vs model); "
                      "the hand model of binary_search_by_key; harness. The quantifier over codes is finite and is also decided completely on the real code.",
        "technique": "Lean 4 proof (induction + decide +kernel on regenerated table) + exhaustive differential sweep",
        "exhaustive": True,
        "rule": "all 65,536 codes through tag/from_tag/tag/code (complete); the well-known id/tag list; "
                "all tag strings up to length 4 (quick) / 5 (thorough) over a 13-letter alphabet; seeded random "
                "tags (known language x random region, unknown languages, odd shapes). "
                "non-trivial = distinct tag strings exercised + distinct non-'und' tags produced",
        "trusted_base": [
            "model MsiModel/Language.lean (hand-written; binary search modelled after core::slice::binary_search_by)",
            "Gen/Languages.lean regenerated from src/internal/language.rs",
        ],
        "assumptions": [
            "Rust's slice::binary_search_by_key behaves as the loop modelled in bsLoop (validated by the complete 65,536-code sweep)",
        ],
    },
}
PROPS["C18"] = {
    "module": "MsiProofs.Props.C18",
    "gen": ["timestamp"],
    "profiles": ["dev"],
    "theorems": [
        "MsiProofs.C18.constants",
        "MsiProofs.C18.toSystemTime_total",
        "MsiProofs.C18.fromSystemTime_nonneg",
        "MsiProofs.C18.fromSystemTime_neg",
        "MsiProofs.C18.within_resolution",
        "MsiProofs.C18.ticks_fixed",
        "MsiProofs.C18.set_get_idempotent",
        "MsiProofs.C18.monotone",
        "MsiProofs.C18.toSystemTime_monotone",
        "MsiProofs.C18.saturates_low",
        "MsiProofs.C18.saturates_high",
    ],
    "level_text": "Lean theorems (linear integer arithmetic, for every Int nanosecond offset / every u64 tick) over the model of "
                  "timestamp_from_system_time / system_time_from_timestamp with saturating u64 arithmetic: round trip within 100 ns on "
                  "[1601, tick maximum], ticks are fixed points (set(get) idempotent), monotone, saturation at both ends, no panic and no "
                  "UNIX_EPOCH fallback; constants regenerated from timestamp.rs; tie: boundary + random times through SummaryInfo in memory and through save/reopen.",
    "level_note": "Trusted: Lean kernel; the model of SystemTime as signed nanoseconds with i64 seconds (64-bit Linux); translator for the four constants; "
                  "harness. Through-save part relies on the FILETIME being 8 little-endian bytes (compared by the harness, theorem in C10).",
    "technique": "Lean 4 proof (omega over regenerated constants) + differential boundary/random correspondence",
    "rule": "every nanosecond within +-250 ns of 1601-01-01, 1970-01-01, the 64-bit tick maximum and neighbours; whole-second boundaries around the epoch; "
            "extremes of the i64-second SystemTime range; seeded random times (80% uniform ticks in range + sub-tick nanos, 10% within 4 s of the epoch, "
            "10% anywhere in the i64 range); a seeded subset through save/reopen. non-trivial = distinct in-range ticks exercised",
    "trusted_base": ["model MsiModel/Timestamp.lean (hand-written)", "Gen/Timestamp.lean regenerated from src/internal/timestamp.rs"],
    "assumptions": ["SystemTime has i64 seconds and checked_add/checked_sub behave as on 64-bit Linux"],
}
PROPS["C13"] = {
    "module": "MsiProofs.Props.C13",
    "gen": ["expr"],
    "profiles": ["dev", "release"],
    "theorems": [
        "MsiProofs.C13.unop_total", "MsiProofs.C13.binop_total", "MsiProofs.C13.row_get_ok",
        "MsiProofs.C13.eval_total", "MsiProofs.C13.build_eval", "MsiProofs.C13.build_columns",
        "MsiProofs.C13.arith_spec", "MsiProofs.C13.neg_spec", "MsiProofs.C13.bitwise_spec",
        "MsiProofs.C13.div_spec", "MsiProofs.C13.shift_spec", "MsiProofs.C13.wrong_type_null",
        "MsiProofs.C13.add_spec", "MsiProofs.C13.unop_wrong_type_null", "MsiProofs.C13.cmp_spec",
        "MsiProofs.C13.cmp_isBool", "MsiProofs.C13.truthy_spec", "MsiProofs.C13.logic_spec",
    ],
    "level_text": "Lean theorems by structural induction over expression trees of any depth, integers as Int32 (two's complement): evaluation "
                  "never panics on a row having the referenced columns; an expression built through the folding constructors evaluates like "
                  "the lazy tree and names the same columns; operator table (+ - * wrap, / truncates and wraps, zero divisor / wrong types / "
                  "out-of-range shift give null, string + concatenates, comparisons and NOT/AND/OR give 0/1 under the documented truthiness, "
                  "short-circuit); tie: three-way outcome diff (value / panic) against the real Expr API in dev (overflow checks on) and release.",
    "level_note": "Trusted: Lean kernel and core Int32 lemmas; hand model of expr.rs; harness builds rows through the cfg(msi_verif) hook make_row "
                  "(so i32::MIN can sit in a column). Evaluation through select/update/delete conditions is covered by C03/C12.",
    "technique": "Lean 4 proof (structural induction, Int32) + differential enumeration in two build profiles",
    "rule": "all depth-1 trees (18 operators x 24 leaves: the 12 literals of the property + 12 columns holding them); depth-2 trees over all "
            "operator pairs and both positions with boundary leaves (sampled 1/6 in quick, complete in thorough); seeded random trees to depth 6; "
            "rows lacking a column (model-vs-real only). non-trivial = distinct non-leaf expressions whose documented value is defined",
    "trusted_base": ["model MsiModel/Expr.lean, MsiModel/Value.lean (hand-written)", "reference evaluator harness/src/expr.rs::ref_eval (oracle)"],
    "assumptions": [],
}
PROPS["C19"] = {
    "module": "MsiProofs.Props.C19",
    "gen": ["expr"],
    "profiles": ["dev"],
    "theorems": [
        "MsiProofs.C19.gen_table_agrees", "MsiProofs.C19.printer_shape", "MsiProofs.C19.spellings",
    ],
    "level_text": "Lean: the printer model (format_with_precedence) is parametric in precedences and spellings regenerated from expr.rs; "
                  "theorems: the regenerated table is the grammar's ladder, the printer has the modelled shape, spellings are the grammar's tokens; "
                  "tie: real to_string() vs the model's printer on every parent/child operator pair, all small trees and random deep trees; "
                  "oracle: an independent precedence-climbing reader (harness/src/reader.rs) reads the REAL text back and the result is "
                  "re-evaluated on sample rows against the original expression.",
    "level_note": "Trusted: Lean kernel, translator, hand model of the printer, the Rust reader used as oracle. The reader round-trip theorem "
                  "(read (tokens (fmt e)) = e for all trees) is stated in DESIGN.md and not yet proved in Lean; until then the unbounded claim rests "
                  "on the printer model + table theorems and the per-pair enumeration.",
    "technique": "Lean 4 table theorems over regenerated precedences + printer correspondence + independent reader oracle",
    "rule": "every parent/child operator pair (18x18) on either side; all depth-1 trees over 7 leaves; seeded depth-2 and random trees to depth 5. "
            "non-trivial = distinct printed texts of depth >= 2",
    "trusted_base": ["model MsiModel/Expr.lean::fmtP", "Gen/Expr.lean regenerated from src/internal/expr.rs", "harness/src/reader.rs (ladder reader)"],
    "assumptions": ["string literals without characters needing escapes; column names that are not keywords (the property's domain)"],
}
PROPS["C14"] = {
    "module": "MsiProofs.Props.C14",
    "gen": ["codepage"],
    "profiles": ["release"],
    "theorems": [
        "MsiProofs.C14.id_fromId", "MsiProofs.C14.fromId_id", "MsiProofs.C14.fromId_zero", "MsiProofs.C14.fromId_unknown",
        "MsiProofs.C14.wiring", "MsiProofs.C14.decode_no_bom_sniffing", "MsiProofs.C14.encChunk_spec",
        "MsiProofs.C14.encode_is_concat", "MsiProofs.C14.encodeSpec_append", "MsiProofs.C14.per_char_law",
        "MsiProofs.C14.utf8_encode", "MsiProofs.C14.utf8_lossless", "MsiProofs.C14.ascii_concat",
        "MsiProofs.C14.ascii_per_char", "MsiProofs.C14.ascii_decode_total",
    ],
    "level_text": "Lean theorems about the repository's own logic: id/from_id mutually inverse and id 0 = default (decide over tables regenerated "
                  "from codepage.rs), every id wired to the encoding its name promises, no BOM sniffing in decode, the chunked encoder loop equals the "
                  "concatenation of per-character codes for every per-character encoder, every buffer size holding one code and every string length "
                  "(with termination), UTF-8 lossless (core's decoder), ASCII laws. The per-character tables are encoding_rs data: their law is a "
                  "finite statement decided by complete enumeration of all 1,112,064 scalars x 26 pages on the real implementation in every run.",
    "level_note": "Trusted: Lean kernel; translator; the contract of Encoder::encode_from_utf8_without_replacement as modelled by encChunk "
                  "(validated at the 1024-byte boundary for 10 pages); encoding_rs tables (enumerated, not proved). 28591 is wired to windows-1252 "
                  "because encoding_rs has no ISO-8859-1; accepted in the expected wiring and stated in DESIGN.md.",
    "technique": "Lean 4 proof (loop = concatenation by induction; decide on regenerated tables) + complete finite enumeration on the real code",
    "exhaustive": True,
    "rule": "cp_id for 26 pages; from_id for all 0..65535 and wrap-around neighbours; complete scalar sweep and 1-/2-byte decode sweep per page (in-process, "
            "oracle-only); strings straddling the 1024-byte buffer with multi-byte/unmappable characters at every offset 1020..1026 (thorough 1015..1032) "
            "for 10 pages, model loop vs real; seeded random strings for all pages; random bytes through ASCII decode. non-trivial = distinct "
            "(page, length) classes + sweeps + known ids",
    "trusted_base": ["model MsiModel/CodePage.lean", "Gen/CodePage.lean regenerated from src/internal/codepage.rs", "encoding_rs 0.8.41 per-character tables (enumerated)"],
    "assumptions": ["encoding_rs's encode_from_utf8_without_replacement consumes an unmappable character and reports OutputFull only when the next code does not fit"],
}
PROPS["C07"] = {
    "module": "MsiProofs.Props.C07",
    "gen": ["category", "column"],
    "profiles": ["dev"],
    "theorems": [
        "MsiProofs.C07.category_spelling_roundtrip", "MsiProofs.C07.category_all_listed",
        "MsiProofs.C07.intercalate_splitOn", "MsiProofs.C07.splitOn_intercalate", "MsiProofs.C07.splitOn_no_sep",
        "MsiProofs.C07.version_iff", "MsiProofs.C07.language_iff", "MsiProofs.C07.identifier_iff",
        "MsiProofs.C07.property_iff", "MsiProofs.C07.case_iff", "MsiProofs.C07.cabinet_hash",
        "MsiProofs.C07.validate_total", "MsiProofs.C07.unchecked_accept", "MsiProofs.C07.isValidValue_spec",
    ],
    "level_text": "Lean theorems, for every string / every (column, value): Category::validate is equivalent to the declarative grammar for "
                  "Version, Language (split/join inverse lemmas), Identifier, Property, UpperCase/LowerCase; validators total; "
                  "Column::is_valid_value equals the documented rule (nullability, storable and declared ranges with the most negative value "
                  "reserved, width in characters, enumeration, category); category spellings round-trip (decide on regenerated tables); "
                  "tie: bounded-exhaustive strings per category and all boundary integers on the real validators vs model, oracle = independent reference grammars.",
    "level_note": "Trusted: Lean kernel; hand model of category.rs/column.rs incl. str::parse and uuid::parse_str on 36 bytes (cross-checked by the harness); "
                  "the insert/update gate (invalid <=> refused) is decided with the query model in C03/C04. GUID, Cabinet and integer-text grammars are "
                  "tied by correspondence and examples (no iff theorem yet); guid/language values built by the library are checked by enumeration "
                  "(all 65,536 single codes in thorough).",
    "technique": "Lean 4 proof (validator = grammar, by induction on strings) + bounded-exhaustive differential testing",
    "rule": "all strings up to length 4-5 (quick) / 6 (thorough) over an adversarial alphabet per category; boundary numerals; GUID and cabinet shapes by "
            "structure and mutation; values built from UUIDs and language lists; integers within +-2 of every boundary x 40 column shapes; string columns "
            "(width x enumeration x category x nullability); seeded random strings for all 26 categories. non-trivial = distinct accepted strings / decided (column,value) pairs",
    "trusted_base": ["model MsiModel/Category.lean, MsiModel/Column.lean", "Gen/Category.lean, Gen/Column.lean regenerated", "reference grammars harness/src/colfmt.rs"],
    "assumptions": ["a leading '+' in Integer/DoubleInteger text is not covered by the documented grammar (three-valued oracle)"],
}
PROPS["C11"] = {
    "module": "MsiProofs.Props.C11",
    "gen": ["streamname"],
    "profiles": ["dev"],
    "theorems": [
        "MsiProofs.C11.constants", "MsiProofs.C11.toB64_lt", "MsiProofs.C11.fromB64_toB64",
        "MsiProofs.C11.encode_codepoints_valid", "MsiProofs.C11.decodeAux_encodeAux", "MsiProofs.C11.decode_encode",
        "MsiProofs.C11.encode_injective", "MsiProofs.C11.encodeAux_chars", "MsiProofs.C11.special_has_packable",
        "MsiProofs.C11.separated",
    ],
    "level_text": "Lean theorems about the stream-name codec for every name: decode(encode n) = n on every accepted name, hence accepted names never "
                  "collide or alias; every code point the encoder builds is a valid scalar (the unwraps cannot fail); encoded user names never equal a "
                  "summary/signature stream name, never start with the table marker, contain no container-reserved character and fit 31 UTF-16 units; "
                  "tie: is_valid/encode/decode of the real crate (cfg(msi_verif) hook) vs model on all short names over an adversarial alphabet, every "
                  "length to beyond the limit, random names; oracle: collisions under the container's comparison, separation, decode round trip.",
    "level_note": "Trusted: Lean kernel, translator (bases, ranges, reserved set, special names), hand model. Partial: the stream-contents half of the "
                  "property (listing = live names, read = last write, independence from tables, signature removal) needs the package model and is "
                  "not yet decided here.",
    "technique": "Lean 4 proof (codec round trip by functional induction, injectivity, separation) + bounded-exhaustive differential testing",
    "rule": "all names of length <= 3 (quick) / 4 (thorough) over 28 characters x {is_valid, encode, decode}; every length 0..70 for packable, unpackable, "
            "2-byte and astral characters, as stream and as table name; seeded random names. non-trivial = distinct accepted names",
    "trusted_base": ["model MsiModel/StreamName.lean", "Gen/StreamName.lean regenerated from src/internal/streamname.rs", "cfb 0.10 name comparison as restated in the oracle"],
    "assumptions": ["the container compares names by (UTF-16 length, upper-cased text)"],
}

# reasons for properties not claimed (yet); everything else defaults to "not yet built"
NOT_CLAIMED = {}
