"""Per-property configuration of check.py: Lean module, obligations (theorem names audited
with #print axioms), translator extractors consumed, harness profiles."""

PROPS = {
    "C17": {
        "module": "MsiProofs.Props.C17",
        "gen": ["languages"],
        "profiles": ["dev"],
        "theorems": [
            "MsiProofs.C17.code_preserved",
            "MsiProofs.C17.bsearch_lt",
            "MsiProofs.C17.tag_total",
            "MsiProofs.C17.tagIn_index_in_range",
            "MsiProofs.C17.table_tags_fixed",
            "MsiProofs.C17.table_codes",
            "MsiProofs.C17.und_fixed",
            "MsiProofs.C17.new_never_asserts",
            "MsiProofs.C17.tag_stable",
            "MsiProofs.C17.unknown_lang_neutral",
            "MsiProofs.C17.unknown_region_safe",
            "MsiProofs.C17.well_known",
        ],
        "level_text": "Lean theorems over the model of Language::{from_code,code,tag,from_tag}: totality of tag (binary-search "
                      "indices proved in range), tag->code->tag stability for every code, every table tag fixed, unknown language -> neutral, "
                      "unknown region -> bare language (generic lemmas by induction over any table + decide +kernel facts re-checked on the "
                      "table regenerated from the Rust source), well-known LCIDs; tie: translator + complete sweep of all 65,536 codes on the real crate.",
        "level_note": "Trusted: Lean kernel; tools/extract.py (cross-checked by the complete sweep: every code's tag is compared real vs model); "
                      "the hand model of binary_search_by_key; harness. The quantifier over codes is finite and is also decided completely on the real code.",
        "technique": "Lean 4 proof (induction + decide +kernel on regenerated table) + exhaustive differential sweep",
        "exhaustive": True,
        "rule": "all 65,536 codes through tag/from_tag/tag/code (complete); the well-known id/tag list; "
                "all tag strings up to length 4 (quick) / 5 (thorough) over a 13-letter alphabet; seeded random "
                "tags (known language x random region, unknown languages, odd shapes). "
                "non-trivial = distinct tag strings exercised + distinct non-'und' tags produced",
        "trusted_base": [
            "model MsiModel/Language.lean (hand-written; binary search modelled after core::slice::binary_search_by)",
            "Gen/Languages.lean regenerated from src/internal/language.rs",
        ],
        "assumptions": [
            "Rust's slice::binary_search_by_key behaves as the loop modelled in bsLoop (validated by the complete 65,536-code sweep)",
        ],
    },
}

# reasons for properties not claimed (yet); everything else defaults to "not yet built"
NOT_CLAIMED = {}
