"""Per-property configuration of check.py: Lean module, obligations (theorem names audited
with #print axioms), translator extractors consumed, harness profiles."""

PROPS = {
    "C17": {
        "module": "MsiProofs.Props.C17",
        "gen": ["languages"],
        "profiles": ["dev"],
        "theorems": [
            "MsiProofs.C17.code_preserved",
            "MsiProofs.C17.bsearch_lt",
            "MsiProofs.C17.tag_total",
            "MsiProofs.C17.tagIn_index_in_range",
            "MsiProofs.C17.table_tags_fixed",
            "MsiProofs.C17.table_codes",
            "MsiProofs.C17.und_fixed",
            "MsiProofs.C17.new_never_asserts",
            "MsiProofs.C17.tag_stable",
            "MsiProofs.C17.unknown_lang_neutral",
            "MsiProofs.C17.unknown_region_safe",
            "MsiProofs.C17.well_known",
        ],
        "level_text": "Lean theorems over the model of Language::{from_code,code,tag,from_tag}: totality of tag (binary-search "
                      "indices proved in range), tag->code->tag stability for every code, every table tag fixed, unknown language -> neutral, "
                      "unknown region -> bare language (generic lemmas by induction over any table + decide +kernel facts re-checked on the "
                      "table regenerated from the Rust source), well-known LCIDs; tie: translator + complete sweep of all 65,536 codes on the real crate.",
        "level_note": "Trusted: Lean kernel; tools/extract.py (cross-checked by the complete sweep: every code's tag is compared real vs model); "
                      "the hand model of binary_search_by_key; harness. The quantifier over codes is finite and is also decided completely on the real code.",
        "technique": "Lean 4 proof (induction + decide +kernel on regenerated table) + exhaustive differential sweep",
        "exhaustive": True,
        "rule": "all 65,536 codes through tag/from_tag/tag/code (complete); the well-known id/tag list; "
                "all tag strings up to length 4 (quick) / 5 (thorough) over a 13-letter alphabet; seeded random "
                "tags (known language x random region, unknown languages, odd shapes). "
                "non-trivial = distinct tag strings exercised + distinct non-'und' tags produced",
        "trusted_base": [
            "model MsiModel/Language.lean (hand-written; binary search modelled after core::slice::binary_search_by)",
            "Gen/Languages.lean regenerated from src/internal/language.rs",
        ],
        "assumptions": [
            "Rust's slice::binary_search_by_key behaves as the loop modelled in bsLoop (validated by the complete 65,536-code sweep)",
        ],
    },
}
PROPS["C18"] = {
    "module": "MsiProofs.Props.C18",
    "gen": ["timestamp"],
    "profiles": ["dev"],
    "theorems": [
        "MsiProofs.C18.constants",
        "MsiProofs.C18.toSystemTime_total",
        "MsiProofs.C18.fromSystemTime_nonneg",
        "MsiProofs.C18.fromSystemTime_neg",
        "MsiProofs.C18.within_resolution",
        "MsiProofs.C18.ticks_fixed",
        "MsiProofs.C18.set_get_idempotent",
        "MsiProofs.C18.monotone",
        "MsiProofs.C18.toSystemTime_monotone",
        "MsiProofs.C18.saturates_low",
        "MsiProofs.C18.saturates_high",
    ],
    "level_text": "Lean theorems (linear integer arithmetic, for every Int nanosecond offset / every u64 tick) over the model of "
                  "timestamp_from_system_time / system_time_from_timestamp with saturating u64 arithmetic: round trip within 100 ns on "
                  "[1601, tick maximum], ticks are fixed points (set(get) idempotent), monotone, saturation at both ends, no panic and no "
                  "UNIX_EPOCH fallback; constants regenerated from timestamp.rs; tie: boundary + random times through SummaryInfo in memory and through save/reopen.",
    "level_note": "Trusted: Lean kernel; the model of SystemTime as signed nanoseconds with i64 seconds (64-bit Linux); translator for the four constants; "
                  "harness. Through-save part relies on the FILETIME being 8 little-endian bytes (compared by the harness, theorem in C10).",
    "technique": "Lean 4 proof (omega over regenerated constants) + differential boundary/random correspondence",
    "rule": "every nanosecond within +-250 ns of 1601-01-01, 1970-01-01, the 64-bit tick maximum and neighbours; whole-second boundaries around the epoch; "
            "extremes of the i64-second SystemTime range; seeded random times (80% uniform ticks in range + sub-tick nanos, 10% within 4 s of the epoch, "
            "10% anywhere in the i64 range); a seeded subset through save/reopen. non-trivial = distinct in-range ticks exercised",
    "trusted_base": ["model MsiModel/Timestamp.lean (hand-written)", "Gen/Timestamp.lean regenerated from src/internal/timestamp.rs"],
    "assumptions": ["SystemTime has i64 seconds and checked_add/checked_sub behave as on 64-bit Linux"],
}
PROPS["C13"] = {
    "module": "MsiProofs.Props.C13",
    "gen": ["expr"],
    "profiles": ["dev", "release"],
    "theorems": [
        "MsiProofs.C13.unop_total", "MsiProofs.C13.binop_total", "MsiProofs.C13.row_get_ok",
        "MsiProofs.C13.eval_total", "MsiProofs.C13.build_eval", "MsiProofs.C13.build_columns",
        "MsiProofs.C13.arith_spec", "MsiProofs.C13.neg_spec", "MsiProofs.C13.bitwise_spec",
        "MsiProofs.C13.div_spec", "MsiProofs.C13.shift_spec", "MsiProofs.C13.wrong_type_null",
        "MsiProofs.C13.add_spec", "MsiProofs.C13.unop_wrong_type_null", "MsiProofs.C13.cmp_spec",
        "MsiProofs.C13.cmp_isBool", "MsiProofs.C13.truthy_spec", "MsiProofs.C13.logic_spec",
    ],
    "level_text": "Lean theorems by structural induction over expression trees of any depth, integers as Int32 (two's complement): evaluation "
                  "never panics on a row having the referenced columns; an expression built through the folding constructors evaluates like "
                  "the lazy tree and names the same columns; operator table (+ - * wrap, / truncates and wraps, zero divisor / wrong types / "
                  "out-of-range shift give null, string + concatenates, comparisons and NOT/AND/OR give 0/1 under the documented truthiness, "
                  "short-circuit); tie: three-way outcome diff (value / panic) against the real Expr API in dev (overflow checks on) and release.",
    "level_note": "Trusted: Lean kernel and core Int32 lemmas; hand model of expr.rs; harness builds rows through the cfg(msi_verif) hook make_row "
                  "(so i32::MIN can sit in a column). Evaluation through select/update/delete conditions is covered by C03/C12.",
    "technique": "Lean 4 proof (structural induction, Int32) + differential enumeration in two build profiles",
    "rule": "all depth-1 trees (18 operators x 24 leaves: the 12 literals of the property + 12 columns holding them); depth-2 trees over all "
            "operator pairs and both positions with boundary leaves (sampled 1/6 in quick, complete in thorough); seeded random trees to depth 6; "
            "rows lacking a column (model-vs-real only). non-trivial = distinct non-leaf expressions whose documented value is defined",
    "trusted_base": ["model MsiModel/Expr.lean, MsiModel/Value.lean (hand-written)", "reference evaluator harness/src/expr.rs::ref_eval (oracle)"],
    "assumptions": [],
}
PROPS["C19"] = {
    "module": "MsiProofs.Props.C19",
    "gen": ["expr"],
    "profiles": ["dev"],
    "theorems": [
        "MsiProofs.C19.gen_table_agrees", "MsiProofs.C19.printer_shape", "MsiProofs.C19.spellings",
        "MsiProofs.C19.render_toks", "MsiProofs.C19.read_print", "MsiProofs.C19.read_print_in_context",
        "MsiProofs.C19.read_print_eval",
        "MsiProofs.C19.read_text_print", "MsiProofs.C19.lex_print", "MsiProofs.C19.good_build",
        "MsiProofs.C19.printed_means_same",
    ],
    "level_text": "Lean: the printer model (format_with_precedence) is parametric in precedences and spellings regenerated from expr.rs; "
                  "theorems: READER ROUND TRIP for every tree (no depth bound): the token form of the printer spells exactly the printed text (render_toks) "
                  "and a precedence-climbing reader whose ladder is written out independently of the generated tables reads it back as the original tree "
                  "(read_print; also in any context, for WHERE/ON clauses), hence evaluates identically on every row; the regenerated table is the grammar's ladder, "
                  "the printer has the modelled shape, spellings are the grammar's tokens; "
                  "tie: real to_string() vs the model's printer on every parent/child operator pair, all small trees and random deep trees; "
                  "oracle: an independent precedence-climbing reader (harness/src/reader.rs) reads the REAL text back and the result is "
                  "re-evaluated on sample rows against the original expression.",
    "level_note": "Trusted: Lean kernel, translator, hand model of the printer, the Rust reader used as oracle. The round trip is proved from characters (read_text_print: lexer with the grammar's "
                  "lexical rules, then the ladder reader) on the domain Good: column names are grammar identifiers (not keywords), a prefix minus is not applied "
                  "directly to a non-negative integer literal (never produced by the API's constructors: good_build), and literals print without escapes. "
                  "The driver re-checks readText on every text it is diffed on. The four query printers (SELECT/INSERT/UPDATE/DELETE, joins) are modelled and "
                  "diffed but their reader is the independent Rust reader on the real text, not a Lean theorem.",
    "technique": "Lean 4 table theorems over regenerated precedences + printer correspondence + independent reader oracle",
    "rule": "every parent/child operator pair (18x18) on either side; all depth-1 trees over 7 leaves; seeded depth-2 and random trees to depth 5. "
            "non-trivial = distinct printed texts of depth >= 2",
    "trusted_base": ["model MsiModel/Expr.lean::fmtP", "Gen/Expr.lean regenerated from src/internal/expr.rs", "the reader MsiModel/ExprLex.lean + ExprRead.lean as the reading of 'the project's query grammar' (ladder and lexical rules written out from examples/msiquery.pest; binary levels left-associative)", "harness/src/reader.rs (independent ladder reader on the real text, also for queries)"],
    "assumptions": ["string literals without characters needing escapes; column names that are not keywords (the property's domain)"],
}
PROPS["C14"] = {
    "module": "MsiProofs.Props.C14",
    "gen": ["codepage"],
    "profiles": ["release"],
    "theorems": [
        "MsiProofs.C14.id_fromId", "MsiProofs.C14.fromId_id", "MsiProofs.C14.fromId_zero", "MsiProofs.C14.fromId_unknown",
        "MsiProofs.C14.wiring", "MsiProofs.C14.decode_no_bom_sniffing", "MsiProofs.C14.encChunk_spec",
        "MsiProofs.C14.encode_is_concat", "MsiProofs.C14.encodeSpec_append", "MsiProofs.C14.per_char_law",
        "MsiProofs.C14.utf8_encode", "MsiProofs.C14.utf8_lossless", "MsiProofs.C14.ascii_concat",
        "MsiProofs.C14.ascii_per_char", "MsiProofs.C14.ascii_decode_total",
    ],
    "level_text": "Lean theorems about the repository's own logic: id/from_id mutually inverse and id 0 = default (decide over tables regenerated "
                  "from codepage.rs), every id wired to the encoding its name promises, no BOM sniffing in decode, the chunked encoder loop equals the "
                  "concatenation of per-character codes for every per-character encoder, every buffer size holding one code and every string length "
                  "(with termination), UTF-8 lossless (core's decoder), ASCII laws. The per-character tables are encoding_rs data: their law is a "
                  "finite statement decided by complete enumeration of all 1,112,064 scalars x 26 pages on the real implementation in every run.",
    "level_note": "Trusted: Lean kernel; translator; the contract of Encoder::encode_from_utf8_without_replacement as modelled by encChunk "
                  "(validated at the 1024-byte boundary for 10 pages); encoding_rs tables (enumerated, not proved). 28591 is wired to windows-1252 "
                  "because encoding_rs has no ISO-8859-1; accepted in the expected wiring and stated in DESIGN.md.",
    "technique": "Lean 4 proof (loop = concatenation by induction; decide on regenerated tables) + complete finite enumeration on the real code",
    "exhaustive": True,
    "rule": "cp_id for 26 pages; from_id for all 0..65535 and wrap-around neighbours; complete scalar sweep and 1-/2-byte decode sweep per page (in-process, "
            "oracle-only); strings straddling the 1024-byte buffer with multi-byte/unmappable characters at every offset 1020..1026 (thorough 1015..1032) "
            "for 10 pages, model loop vs real; seeded random strings for all pages; random bytes through ASCII decode. non-trivial = distinct "
            "(page, length) classes + sweeps + known ids",
    "trusted_base": ["model MsiModel/CodePage.lean", "Gen/CodePage.lean regenerated from src/internal/codepage.rs", "encoding_rs 0.8.41 per-character tables (enumerated)"],
    "assumptions": ["encoding_rs's encode_from_utf8_without_replacement consumes an unmappable character and reports OutputFull only when the next code does not fit"],
}
PROPS["C07"] = {
    "module": "MsiProofs.Props.C07c",
    "gen": ["category", "column"],
    "profiles": ["dev"],
    "theorems": [
        "MsiProofs.C07.category_spelling_roundtrip", "MsiProofs.C07.category_all_listed",
        "MsiProofs.C07.intercalate_splitOn", "MsiProofs.C07.splitOn_intercalate", "MsiProofs.C07.splitOn_no_sep",
        "MsiProofs.C07.version_iff", "MsiProofs.C07.language_iff", "MsiProofs.C07.identifier_iff",
        "MsiProofs.C07.property_iff", "MsiProofs.C07.case_iff", "MsiProofs.C07.cabinet_hash",
        "MsiProofs.C07.validate_total", "MsiProofs.C07.unchecked_accept", "MsiProofs.C07.isValidValue_spec", "MsiProofs.C07.integer_iff", "MsiProofs.C07.cabinet_file", "MsiProofs.C07.guid_iff", "MsiProofs.C07.hex_size", "MsiProofs.C07.checkNew_eq", "MsiProofs.C07.loadMap_some", "MsiProofs.C07.addRows_no_err", "MsiProofs.C07.insert_reply"],
    "level_text": "THE INSERT GATE AT STATE LEVEL (insert_reply): in every state with the package invariant the reply of Insert::exec is a function of the rows the table shows and the request - an error exactly when a row has the wrong number of values or a value is not valid for its column (InvalidInput), a key is already present (AlreadyExists) or repeated in the batch, or the table would exceed the row bound; otherwise Ok (or the string pool's capacity panic, known finding D16b); no other failure exists. GUID (guid_iff): validate accepts exactly the braced hyphenated 8-4-4-4-12 form in hex digits none of which is a lower-case letter (38 bytes because every such character is one byte: hex_size); what Uuid::parse_str accepts on a 36-byte input is modelled (uuidHyphenated) and tied by bounded-exhaustive strings. Also Integer / DoubleInteger = the text of a 16- / 32-bit integer (one optional sign, digits, value in range: integer_iff) and the file-name form of Cabinet (1-8 characters before the last period, extension of at most 3, counted in characters: cabinet_file). Lean theorems, for every string / every (column, value): Category::validate is equivalent to the declarative grammar for "
                  "Version, Language (split/join inverse lemmas), Identifier, Property, UpperCase/LowerCase; validators total; "
                  "Column::is_valid_value equals the documented rule (nullability, storable and declared ranges with the most negative value "
                  "reserved, width in characters, enumeration, category); category spellings round-trip (decide on regenerated tables); "
                  "tie: bounded-exhaustive strings per category and all boundary integers on the real validators vs model, oracle = independent reference grammars.",
    "level_note": "Trusted: Lean kernel; hand model of category.rs/column.rs incl. str::parse and uuid::parse_str on 36 bytes (cross-checked by the harness); "
                  "the insert/update gate (invalid <=> refused) is decided with the query model in C03/C04. GUID, Cabinet and integer-text grammars are "
                  "tied by correspondence and examples (no iff theorem yet); guid/language values built by the library are checked by enumeration "
                  "(all 65,536 single codes in thorough).",
    "technique": "Lean 4 proof (validator = grammar, by induction on strings) + bounded-exhaustive differential testing",
    "rule": "all strings up to length 4-5 (quick) / 6 (thorough) over an adversarial alphabet per category; boundary numerals; GUID and cabinet shapes by "
            "structure and mutation; values built from UUIDs and language lists; integers within +-2 of every boundary x 40 column shapes; string columns "
            "(width x enumeration x category x nullability); seeded random strings for all 26 categories. non-trivial = distinct accepted strings / decided (column,value) pairs",
    "trusted_base": ["model MsiModel/Category.lean, MsiModel/Column.lean", "Gen/Category.lean, Gen/Column.lean regenerated", "reference grammars harness/src/colfmt.rs"],
    "assumptions": ["a leading '+' in Integer/DoubleInteger text is not covered by the documented grammar (three-valued oracle)"],
}
PROPS["C11"] = {
    "module": "MsiProofs.Props.C11b",
    "gen": ["streamname"],
    "profiles": ["dev"],
    "theorems": [
        "MsiProofs.C11.constants", "MsiProofs.C11.toB64_lt", "MsiProofs.C11.fromB64_toB64",
        "MsiProofs.C11.encode_codepoints_valid", "MsiProofs.C11.decodeAux_encodeAux", "MsiProofs.C11.decode_encode",
        "MsiProofs.C11.encode_injective", "MsiProofs.C11.encodeAux_chars", "MsiProofs.C11.special_has_packable",
        "MsiProofs.C11.separated", "MsiProofs.C11.user_stream_injective", "MsiProofs.C11.read_after_write", "MsiProofs.C11.write_other", "MsiProofs.C11.remove_then_read", "MsiProofs.C11.remove_other", "MsiProofs.C11.dml_keeps_streams", "MsiProofs.C11.write_keeps_rows", "MsiProofs.C11.writeStream_full", "MsiProofs.C11.removeStream_full", "MsiProofs.C11.removeSignature_full", "MsiProofs.C11.sig_ne_table"],
    "level_text": "Stream writes and removals and the removal of the signature streams keep every package invariant (exact counts, ascending keys, catalog in sync, metadata in sync): writeStream_full, removeStream_full, removeSignature_full. STREAM CONTENTS as a map: read returns the last write (overwrite truncates), a write or removal of one name leaves every other name as it was - names compared as cfb compares them (UTF-16 length + upper-cased text) -, no insert/update/delete (accepted or refused) changes what a stream reads as, no stream write changes a table's stored rows. Lean theorems about the stream-name codec for every name: decode(encode n) = n on every accepted name, hence accepted names never "
                  "collide or alias; every code point the encoder builds is a valid scalar (the unwraps cannot fail); encoded user names never equal a "
                  "summary/signature stream name, never start with the table marker, contain no container-reserved character and fit 31 UTF-16 units; "
                  "tie: is_valid/encode/decode of the real crate (cfg(msi_verif) hook) vs model on all short names over an adversarial alphabet, every "
                  "length to beyond the limit, random names; oracle: collisions under the container's comparison, separation, decode round trip.",
    "level_note": "Trusted: Lean kernel, translator (bases, ranges, reserved set, special names), hand model. Partial: the stream-contents half of the "
                  "property (listing = live names, read = last write, independence from tables, signature removal) needs the package model and is "
                  "not yet decided here.",
    "technique": "Lean 4 proof (codec round trip by functional induction, injectivity, separation) + bounded-exhaustive differential testing",
    "rule": "all names of length <= 3 (quick) / 4 (thorough) over 28 characters x {is_valid, encode, decode}; every length 0..70 for packable, unpackable, "
            "2-byte and astral characters, as stream and as table name; seeded random names. non-trivial = distinct accepted names",
    "trusted_base": ["model MsiModel/StreamName.lean", "Gen/StreamName.lean regenerated from src/internal/streamname.rs", "cfb 0.10 name comparison as restated in the oracle"],
    "assumptions": ["the container compares names by (UTF-16 length, upper-cased text)"],
}

PROPS["C01"] = {
    "module": "MsiProofs.Props.C01b",
    "gen": ["limits", "summary", "column", "streamname", "category", "codepage"],
    "profiles": ["dev"],
    "theorems": ["MsiProofs.C01.cell_roundtrip", "MsiProofs.C01.rows_roundtrip", "MsiProofs.C01.pool_roundtrip", "MsiProofs.C01.storable_spec", "MsiProofs.C01.flush_clean", "MsiProofs.C01.finish_clears", "MsiProofs.C01.flush_idempotent", "MsiProofs.C01.close_modes_same_bytes", "MsiProofs.C01.open_synced", "MsiProofs.C01.op_step", "MsiProofs.C01.history", "MsiProofs.C01.finish_saved", "MsiProofs.C01.finish_step", "MsiProofs.C01.openCore_of_saved", "MsiProofs.C01.reopen_after_any_history", "MsiProofs.C01.table_stream_notMeta", "MsiProofs.C01.user_stream_notMeta", "MsiProofs.C01.ascii_roundtrip", "MsiProofs.C01.poolOk_ascii", "MsiProofs.C01.synced_open", "MsiProofs.C01.reopen_same_tables", "MsiProofs.C01.op_allInv", "MsiProofs.C01.history_allInv", "MsiProofs.C01.reopen_after_history", "MsiProofs.C01.op_kept", "MsiProofs.C01.finish_catalogSynced", "MsiProofs.C01.createTable_full", "MsiProofs.C01.dropTable_full", "MsiProofs.C01.full_transfer", "MsiProofs.C01.created_full", "MsiProofs.C01.finish_core", "MsiProofs.C01.step_full", "MsiProofs.C01.saved_after_save", "MsiProofs.C01.created_ascii_reopens", "MsiProofs.C01.historyA", "MsiProofs.C01.step_pt", "MsiProofs.C01.history_full", "MsiProofs.C01.create_unfold", "MsiProofs.C01.create_reopens", "MsiProofs.C01.created_reopens", "MsiProofs.C01.create_succeeds", "MsiProofs.C01.demo_created", "MsiProofs.C01.demo_admissible", "MsiProofs.C01.demo_accepted"],
    "level_text": 'WHOLE LIFE OF A PACKAGE (create_reopens): for every package returned by Package::create, after ANY sequence of calls of the whole mutating API - inserts, updates and deletes on user tables (accepted or refused), create_table and drop_table calls (refused up front, or accepted), stream writes and removals, signature removal, any summary setter or clearer, set_database_codepage, saves, and closing and reopening after a save (any number of sessions) - and a final successful save, open on the saved container succeeds and yields a package with the same container, summary information, string pool AND table definitions, in which every table reads the same rows. Proved by an invariant (Full + NoOrphans: exact reference counts, ascending keys, metadata streams in sync, the three catalog tables holding exactly the rows of every definition, no table stream without a table) that the state built by create satisfies (created_full; create itself is kernel-evaluated to succeed: create_succeeds, and a history with an accepted create_table, accepted and refused inserts, a delete, an accepted and a refused drop_table is shown admissible: demo_admissible), and that every such call preserves (step_full, history_full: induction over the call list, no bound). Hypotheses left: at each save the state is expressible in the format (Savable: text the code page encodes and decodes back, well-formed summary) - DISCHARGED FOR ASCII TEXT (created_ascii_reopens: when every text handed to the library is ASCII, the pool of every reachable state is provably expressible under any supported code page - counts below 65,536, no live empty entry - and only the well-formedness of the summary is assumed at the final save); a create_table that passes its up-front checks and then fails midway (only the pool-capacity panic D16b or a catalog already holding rows for that name can do that) is outside the covered histories. END TO END (reopen_after_history): from any state satisfying the package invariants (AllInv: reference counts exact up to a slack, keys ascending, metadata streams in sync, catalog tables in sync with the table list), after any history of inserts, updates and deletes on user tables - accepted or refused - and a successful save of a state expressible in the format, open on the saved container succeeds and yields a package with the same container, summary information, string pool AND table definitions (the catalog pass is proved to return the in-memory list: synced_open), in which every table reads the same rows. For ASCII text the codec part of Savable is a theorem under every code page (poolOk_ascii). Lean theorems on the package model: HISTORIES — an invariant (Synced: whenever a modified flag is down, the summary/pool streams of the container decode to the in-memory summary/pool) that open establishes, that every API request preserves (insert, update, delete, create_table, drop_table, stream write/remove, signature removal, summary and code-page setters; accepted or refused; induction over the request list, no bound) and that a successful save re-establishes; hence reopen_after_any_history: after any history and a successful save, reopening yields the same container, summary information and string pool, so every table definition reads the same rows. Uses the frame condition that table and user streams never are the metadata streams under cfb\'s case-insensitive comparison (proved; false for tables named _StringPool/_StringData, which is how defect D22 was found). Layers: string-pool, row-block, cell and property-set round trips; the empty string is stored as null; flush writes exactly what changed and a second flush changes nothing; the three ways of closing leave the same bytes. NOT proved (tied by correspondence + oracle): that reachable states are expressible in the format (Savable is a hypothesis at the save; a theorem for ASCII text). Composition on the real code: byte-exact correspondence model vs real crate + oracle on the real code: snapshot before close = snapshot after reopen, for every close mode incl. crash-after-flush (bytes on the medium when flush returned, package forgotten).',
    "level_note": "Trusted: Lean kernel; the hand-written package model (MsiModel/Pkg.lean, PkgApi.lean, Pool, Table, PropSet, Summary), tied to the code by byte-exact correspondence: the same request histories run on the real crate and on the model's definitions, compared on every reply including full snapshots and the raw bytes of every saved stream; cfb is modelled as a finite map from names (compared by UTF-16 length and upper-cased text) to byte strings; the 24 table-backed code pages are modelled on ASCII text only (non-ASCII text is exercised under UTF-8; all pages are exercised by the oracle on the real code).",
    "technique": 'Lean 4 proof (codec round trip, flush idempotence) + byte-exact differential histories + reopen oracle',
    "rule": 'seeded random sessions: package type, database code page, 1-3 tables with random schemas (types, widths, flags, ranges, categories, enumerations, composite/nullable keys), inserts (valid with controlled invalid mutations), updates (incl. key columns), deletes, selects, stream writes/removes (0..9000 bytes), summary setters/clearers, create/drop table, rejected calls, close/reopen in all three modes at random positions, snapshot after every step, raw bytes after flush. non-trivial = distinct successful mutating requests + decoded files',
    "trusted_base": ["package model lean/MsiModel/{Pkg,PkgApi,Pool,Table,PropSet,Summary,Session}.lean", "reference database / independent decoder in harness/src/{refdb,decode,walk}.rs"],
    "assumptions": ["cfb 0.10 behaves as a map from names to byte strings; Stream drop after an explicit flush is silent"],
}

PROPS["C03"] = {
    "module": "MsiProofs.Props.C03c",
    "gen": ["limits", "column", "category"],
    "profiles": ["dev"],
    "theorems": ["MsiProofs.C03.filterRows_spec", "MsiProofs.C03.deleteGo_rows", "MsiProofs.C03.updPlan_spec", "MsiProofs.C03.insert_adds_exactly", "MsiProofs.C03.incref_ext", "MsiProofs.C03.insert_refines", "MsiProofs.C03.insert_then_load", "MsiProofs.C03.decref_spec", "MsiProofs.C03.deleteGo_refines", "MsiProofs.C03.delete_refines", "MsiProofs.C03.delete_then_load", "MsiProofs.C03.readRows_rowOk", "MsiProofs.C03.write_read", "MsiProofs.C03.history_inv", "MsiProofs.C03.op_inv", "MsiProofs.C03.update_then_load", "MsiProofs.C03.assign_spec", "MsiProofs.C03.dml_history_inv", "MsiProofs.C03.ascending_perm_unique", "MsiProofs.C03.specResult_unique", "MsiProofs.C03.insert_view", "MsiProofs.C03.delete_view", "MsiProofs.C03.update_view", "MsiProofs.C03.op_refines", "MsiProofs.C03.history_refines", "MsiProofs.C03.createTable_view", "MsiProofs.C03.dropTable_view", "MsiProofs.C03.step_view_same", "MsiProofs.C03.created_dml_refines", "MsiProofs.C03.select_table_view", "MsiProofs.C03.select_order"],
    "level_text": 'REFINEMENT TO THE RELATIONAL MODEL (op_refines, history_refines, created_dml_refines): the view of a package = every table definition with its rows as values. In every state with the package invariant - in particular every state reachable from Package::create through the whole mutating API - each statement, accepted or refused, changes the view exactly as the plain relational model says: INSERT leaves the table showing a permutation of the old rows plus the given rows ("" as null) in strictly ascending key order; DELETE leaves exactly the rows on which the condition, evaluated on the row\'s values, is false, in order; UPDATE leaves a permutation of the old rows with the assignments applied to exactly the rows on which the condition is true, in ascending key order; the table list and the rows of every other table are untouched; a refused statement returns the state it was given. \'Ascending + permutation of X\' determines the list (ascending_perm_unique), so the result is a function of the old view and the statement (specResult_unique). create_table adds the new definition showing no rows and leaves every user table\'s rows untouched (createTable_view); drop_table removes it and leaves the others untouched (dropTable_view); every other call - stream writes/removals, signature removal, summary setters, code page, save, close-and-reopen - leaves the whole view untouched (step_view_same). SELECT on a table returns - as values - exactly the rows the table shows on which the condition is true, in the order shown (ascending primary-key order: select_order), restricted to the requested columns in the requested order, and as many rows as satisfy the condition (select_table_view). UPDATE too: update_then_load - after a successful Update::exec the new state reads the table as a re-ordering of rows that are, as values, the old rows with the assignments ("" as null) applied to exactly the planned rows; every other cell keeps its value; same slack; no other stream touched; and every history of inserts, updates and deletes keeps the package invariant (dml_history_inv). Package-wide frame condition: an insert or delete on one table leaves what every other table reads as unchanged and keeps the package invariant; along every history (history_inv). STATE-LEVEL REFINEMENT: Insert::exec and Delete::exec refine the relational insert / delete on the package state. insert_then_load: after a successful insert the new state reads the table as - in values - exactly the old rows plus the new ones (with "" stored as null), in strictly ascending key order, the pool only having been extended (live entries keep their text), no other stream touched. delete_then_load: with the pools reference counts covering the stored references (Accounted; any other cells of interest may be included), after a successful delete the new state reads exactly the stored rows on which the condition - evaluated on their original values - is false, in order; every remaining cell anywhere keeps its value and the accounting keeps holding (the hypothesis hconst of the loop-level theorem is discharged). Rows read fit their columns and are read back as written (readRows_rowOk, write_read). Lean theorems: the row loops of select, delete and update equal filter / keep-if-not / map-if of the relational model for every table, row list and condition; insert adds exactly the given rows to a key-sorted map. Frame condition and lift over histories: correspondence + an independent in-memory relational reference (harness/src/refdb.rs) compared after every step, plus all operation sequences to depth 3 (quick) / 4 (thorough) over a small alphabet.',
    "level_note": "Trusted: Lean kernel; the hand-written package model (MsiModel/Pkg.lean, PkgApi.lean, Pool, Table, PropSet, Summary), tied to the code by byte-exact correspondence: the same request histories run on the real crate and on the model's definitions, compared on every reply including full snapshots and the raw bytes of every saved stream; cfb is modelled as a finite map from names (compared by UTF-16 length and upper-cased text) to byte strings; the 24 table-backed code pages are modelled on ASCII text only (non-ASCII text is exercised under UTF-8; all pages are exercised by the oracle on the real code).",
    "technique": 'Lean 4 proof (loops = list operations, by induction) + exhaustive small-alphabet sequences + reference database oracle',
    "rule": 'seeded random sessions: package type, database code page, 1-3 tables with random schemas (types, widths, flags, ranges, categories, enumerations, composite/nullable keys), inserts (valid with controlled invalid mutations), updates (incl. key columns), deletes, selects, stream writes/removes (0..9000 bytes), summary setters/clearers, create/drop table, rejected calls, close/reopen in all three modes at random positions, snapshot after every step, raw bytes after flush. non-trivial = distinct successful mutating requests + decoded files',
    "trusted_base": ["package model lean/MsiModel/{Pkg,PkgApi,Pool,Table,PropSet,Summary,Session}.lean", "reference database / independent decoder in harness/src/{refdb,decode,walk}.rs"],
    "assumptions": ["cfb 0.10 behaves as a map from names to byte strings; Stream drop after an explicit flush is silent"],
}

PROPS["C04"] = {
    "module": "MsiProofs.Props.C04b",
    "gen": ["limits", "column", "category", "streamname"],
    "profiles": ["dev"],
    "theorems": ["MsiProofs.C04.createTable_rejected_noop", "MsiProofs.C04.createError_covers", "MsiProofs.C04.dropTable_rejected_noop", "MsiProofs.C04.stream_rejected_noop", "MsiProofs.C04.removeStream_missing_noop", "MsiProofs.C04.writeCols_err", "MsiProofs.C04.insert_rejected_noop", "MsiProofs.C04.delete_rejected_noop", "MsiProofs.C04.update_rejected_noop", "MsiProofs.C04.update_invalid_noop", "MsiProofs.C04.storeRows_err", "MsiProofs.C04.insert_refused_noop", "MsiProofs.C04.delete_refused_noop", "MsiProofs.C04.update_refused_noop"],
    "level_text": '(Update::exec included.) Under the package invariant ANY insert or delete that does not return Ok - whatever the error kind, incl. the capacity panic - leaves the state exactly as it was (no late failure exists: the rows to be written always fit their columns). Update::exec too: every rejection other than a late InvalidInput returns the state it was given (unknown table, key collision, malformed stored table), and the InvalidInput rejections of its checks precede any change. Lean theorems: a step of the model returns the state it leaves behind also on error; create_table performs every check (names, arity, key, duplicates, existence, storability, validity of all catalog rows) before its first mutation and returns the state untouched when one fails; likewise drop_table, the stream calls, and the argument rejections of Insert::exec / Delete::exec (write_rows can only fail with InvalidInput). Tie: every rejected call in the histories is followed by a snapshot compared with the previous one, and by save/reopen.',
    "level_note": "Trusted: Lean kernel; the hand-written package model (MsiModel/Pkg.lean, PkgApi.lean, Pool, Table, PropSet, Summary), tied to the code by byte-exact correspondence: the same request histories run on the real crate and on the model's definitions, compared on every reply including full snapshots and the raw bytes of every saved stream; cfb is modelled as a finite map from names (compared by UTF-16 length and upper-cased text) to byte strings; the 24 table-backed code pages are modelled on ASCII text only (non-ASCII text is exercised under UTF-8; all pages are exercised by the oracle on the real code).",
    "technique": 'Lean 4 proof (error paths return the input state) + snapshot-equality oracle on rejected calls',
    "rule": 'seeded random sessions: package type, database code page, 1-3 tables with random schemas (types, widths, flags, ranges, categories, enumerations, composite/nullable keys), inserts (valid with controlled invalid mutations), updates (incl. key columns), deletes, selects, stream writes/removes (0..9000 bytes), summary setters/clearers, create/drop table, rejected calls, close/reopen in all three modes at random positions, snapshot after every step, raw bytes after flush. non-trivial = distinct successful mutating requests + decoded files',
    "trusted_base": ["package model lean/MsiModel/{Pkg,PkgApi,Pool,Table,PropSet,Summary,Session}.lean", "reference database / independent decoder in harness/src/{refdb,decode,walk}.rs"],
    "assumptions": ["cfb 0.10 behaves as a map from names to byte strings; Stream drop after an explicit flush is silent"],
}

PROPS["C05"] = {
    "module": "MsiProofs.Props.C05c",
    "gen": ["limits", "column"],
    "profiles": ["dev"],
    "theorems": ["MsiProofs.C05.key_order_strict_total", "MsiProofs.C05.loadMap_sorted", "MsiProofs.C05.addRows_sorted", "MsiProofs.C05.insert_writes_sorted_unique", "MsiProofs.C05.insert_refused_iff_present", "MsiProofs.C05.sortByKey_perm", "MsiProofs.C05.insert_sorted", "MsiProofs.C05.delete_sorted", "MsiProofs.C05.history_sorted", "MsiProofs.C05.keys_distinct", "MsiProofs.C05.readRows_rowOk", "MsiProofs.C05.sortByKey_sorted", "MsiProofs.C05.strict_of_sorted_nodup", "MsiProofs.C05.update_sorted", "MsiProofs.C05.dml_history_sorted", "MsiProofs.C05.created_history_sorted", "MsiProofs.C05.rowValid_of_checked", "MsiProofs.C05.rowValid_applyUps", "MsiProofs.C05.op_valid", "MsiProofs.C05.dml_history_valid", "MsiProofs.C05.step_valid", "MsiProofs.C05.created_history_valid"],
    "level_text": 'VALID CELLS IN EVERY REACHABLE STATE (created_history_valid): in every state reachable from Package::create by statements (accepted or refused), create_table, drop_table, stream calls, signature removal, summary setters, code-page changes, saves and close-and-reopen, every row of every table - catalog tables included - has one value per column and every value is the stored form ("" stored as null) of a value its column declares valid: type, nullability, integer range, category, enumeration, maximum length (op_valid / step_valid: one call keeps it; base_valid / created_valid: create establishes it). EVERY REACHABLE STATE (created_history_sorted): in every state reachable from Package::create by statements on user tables (accepted or refused), create_table, drop_table and saves, every table - the catalog tables included - reads its rows in strictly ascending key order, hence with pairwise distinct keys. HISTORIES: in every table the rows the state reads are in strictly ascending key order (keys = values of the key columns under the current pool), hence pairwise distinct; every insert, UPDATE (re-sorted by an insertion sort proved to sort, with the duplicate check giving strict ascent; stored order and keys kept when no key column is assigned) or delete on any table, accepted or refused, keeps this for ALL tables of the package (dml_history_sorted, with the package invariant of C08); rows read always fit the type and width of their columns. Cell validity beyond type/width (ranges, categories, enumerations): oracle. Lean theorems: the derived ordering of values and key tuples is a strict total order; the key-sorted map used by Insert::exec stays strictly sorted through loading and adding, so the rows written back have pairwise distinct, ascending keys for every table, batch and arrival order; an insertion is refused exactly for a present key; the update path re-sorts by a permutation. Tie: the invariant (unique ascending keys, valid cells) is evaluated on the real rows after every step and reopen.',
    "level_note": "Trusted: Lean kernel; the hand-written package model (MsiModel/Pkg.lean, PkgApi.lean, Pool, Table, PropSet, Summary), tied to the code by byte-exact correspondence: the same request histories run on the real crate and on the model's definitions, compared on every reply including full snapshots and the raw bytes of every saved stream; cfb is modelled as a finite map from names (compared by UTF-16 length and upper-cased text) to byte strings; the 24 table-backed code pages are modelled on ASCII text only (non-ASCII text is exercised under UTF-8; all pages are exercised by the oracle on the real code).",
    "technique": 'Lean 4 proof (strict total order + sortedness invariant by induction) + invariant oracle on real rows',
    "rule": 'seeded random sessions: package type, database code page, 1-3 tables with random schemas (types, widths, flags, ranges, categories, enumerations, composite/nullable keys), inserts (valid with controlled invalid mutations), updates (incl. key columns), deletes, selects, stream writes/removes (0..9000 bytes), summary setters/clearers, create/drop table, rejected calls, close/reopen in all three modes at random positions, snapshot after every step, raw bytes after flush. non-trivial = distinct successful mutating requests + decoded files',
    "trusted_base": ["package model lean/MsiModel/{Pkg,PkgApi,Pool,Table,PropSet,Summary,Session}.lean", "reference database / independent decoder in harness/src/{refdb,decode,walk}.rs"],
    "assumptions": ["cfb 0.10 behaves as a map from names to byte strings; Stream drop after an explicit flush is silent"],
}

PROPS["C06"] = {
    "module": "MsiProofs.Props.C06b",
    "gen": ["column", "limits", "category"],
    "profiles": ["dev"],
    "theorems": ["MsiProofs.C06.bits_disjoint", "MsiProofs.C06.typeword_roundtrip_all", "MsiProofs.C06.bitfield_depends", "MsiProofs.C06.typeword_roundtrip", "MsiProofs.C06.unstorable_refused", "MsiProofs.C06.isStorable_iff", "MsiProofs.C06.column_roundtrip", "MsiProofs.C06.openColumns_spec", "MsiProofs.C06.category_roundtrip", "MsiProofs.C06.splitOn_intercalate", "MsiProofs.C06.openTables_of_catalog", "MsiProofs.C06.decode_table", "MsiProofs.C06.nameSorted_unique", "MsiProofs.C06.createTable_then_open", "MsiProofs.C06.createTable_full", "MsiProofs.C06.dropTable_full", "MsiProofs.C06.synced_of_rows", "MsiProofs.C06.created_full"],
    "level_text": "CREATE_TABLE THEN OPEN (createTable_then_open): in every state satisfying the package invariants (which the state built by Package::create does - created_full - and every statement, accepted create_table / drop_table and save preserves), after an accepted create_table the three catalog tables hold exactly the rows of every definition incl. the new one (createTable_full) and the catalog pass of open returns the in-memory table list with the new definition in it, column for column. THE CATALOG PASS OF OPEN, DECODED (openTables_of_catalog): if the three catalog streams hold - in any row order - the _Tables, _Columns and _Validation rows create_table writes for a name-sorted list of tables (distinct names, storable columns with distinct names), then open returns exactly those table definitions (plus the two built-in catalog tables): every column with its name, type and width, flags, range, foreign key, category and enumeration. Lean: CATALOG ROUND TRIP — the _Validation row and the _Columns type word that create_table writes for a storable column decode, through the builder open uses, to exactly that column (name, type and width, nullable / primary-key / localizable, value range, foreign key, category [all 26], enumeration [split undoes join when no value contains ;]) (column_roundtrip), and the loop of open rebuilds all columns of a table in order (openColumns_spec); Lean theorems: the type word round-trips (type, width, nullable, key, localizable) for every storable column — generic lemma + decide +kernel over all 3,096 type words, bit constants regenerated from column.rs; create_table refuses every column that is not storable (width > 255, empty or ';'-containing enumeration values) without changing anything. Range, category, enumeration and foreign key travel through _Validation: tied by correspondence over builder options and by the schema-equality oracle after reopen.",
    "level_note": "Trusted: Lean kernel; the hand-written package model (MsiModel/Pkg.lean, PkgApi.lean, Pool, Table, PropSet, Summary), tied to the code by byte-exact correspondence: the same request histories run on the real crate and on the model's definitions, compared on every reply including full snapshots and the raw bytes of every saved stream; cfb is modelled as a finite map from names (compared by UTF-16 length and upper-cased text) to byte strings; the 24 table-backed code pages are modelled on ASCII text only (non-ASCII text is exercised under UTF-8; all pages are exercised by the oracle on the real code).",
    "technique": 'Lean 4 proof (exhaustive decide +kernel on regenerated constants, lifted) + schema round-trip oracle',
    "rule": 'seeded random sessions: package type, database code page, 1-3 tables with random schemas (types, widths, flags, ranges, categories, enumerations, composite/nullable keys), inserts (valid with controlled invalid mutations), updates (incl. key columns), deletes, selects, stream writes/removes (0..9000 bytes), summary setters/clearers, create/drop table, rejected calls, close/reopen in all three modes at random positions, snapshot after every step, raw bytes after flush. non-trivial = distinct successful mutating requests + decoded files',
    "trusted_base": ["package model lean/MsiModel/{Pkg,PkgApi,Pool,Table,PropSet,Summary,Session}.lean", "reference database / independent decoder in harness/src/{refdb,decode,walk}.rs"],
    "assumptions": ["cfb 0.10 behaves as a map from names to byte strings; Stream drop after an explicit flush is silent"],
}

PROPS["C08"] = {
    "module": "MsiProofs.Props.C08b",
    "gen": ["limits", "column"],
    "profiles": ["dev"],
    "theorems": ["MsiProofs.C08.cell_roundtrip", "MsiProofs.C08.min_is_null", "MsiProofs.C08.rows_roundtrip", "MsiProofs.C08.pool_roundtrip", "MsiProofs.C08.increfScan_total", "MsiProofs.C08.incref_accounting", "MsiProofs.C08.decrefAt_total", "MsiProofs.C08.decref_accounting", "MsiProofs.C08.incref_exact", "MsiProofs.C08.decref_spec", "MsiProofs.C08.insert_accounted", "MsiProofs.C08.delete_accounted", "MsiProofs.C08.exact_iff", "MsiProofs.C08.history_inv", "MsiProofs.C08.insert_inv", "MsiProofs.C08.delete_inv", "MsiProofs.C08.update_inv", "MsiProofs.C08.dml_history_inv", "MsiProofs.C08.s0_inv", "MsiProofs.C08.s0_sorted", "MsiProofs.C08.created_history_exact", "MsiProofs.C08.createTable_full", "MsiProofs.C08.dropTable_full", "MsiProofs.C08.release_stage", "MsiProofs.C08.step_pt", "MsiProofs.C08.poolOk_of_pt", "MsiProofs.C08.incref_pt", "MsiProofs.C08.decref_pt"],
    "level_text": "THE POOL STAYS EXPRESSIBLE (step_pt): in every reachable state every reference count is below 65,536, an entry is empty only when unreferenced (no live empty string), every text satisfies whatever predicate the inputs satisfy and the code page is a supported one - preserved by every call of the API; for ASCII text this is PoolOk (poolOk_of_pt): the saved pool reads back as the in-memory pool. EVERY REACHABLE STATE (created_history_exact): in every state reachable from Package::create by statements on user tables (accepted or refused), create_table, drop_table and saves, the reference count of every pool entry equals the number of cells, over all tables incl. the catalog, that refer to it (slack 0); create_table and drop_table keep the counts exact (createTable_full, dropTable_full; drop_table releases exactly the dropped table's references: release_stage). Update::exec included: every history of inserts, updates and deletes keeps the counts exact over the whole package (dml_history_inv). WHOLE PACKAGES, WHOLE HISTORIES: the invariant Inv (every table loads; table streams pairwise distinct; reference counts = references held by the cells of ALL tables + a fixed slack; pool within its reference width) is re-established by every successful insert or delete on any table and untouched by every refused one, hence holds along every history (history_inv: induction over the request list). EXACT COUNTS AS AN INVARIANT: with AccountedWith slack p cells (references from the cells + slack = reference count, every entry), a successful Insert::exec and a successful Delete::exec leave the cells the new state reads - together with any other cells of interest, e.g. those of all other tables - accounted with the SAME slack (slack 0: counts equal the numbers of references; the empty state is exact); incref adds exactly one reference to the entry it returns, decref releases exactly one and clears text only at zero. create/drop table (catalog rows) in histories: by oracle. Lean theorems: cells are offset-binary with zero = null and the reserved minimum; incref adds exactly one reference to an entry holding exactly the string and never yields a live empty entry, decref removes exactly one and clears the text at zero (unused entries are empty), dangling references change nothing. Tie: the raw streams of every saved file are decoded by an independent decoder (harness/src/decode.rs): whole rows, live references, exact reference counts over all tables incl. the catalog, no stale text, catalog = existing tables with columns numbered 1..n, rows = API rows; and compared byte-for-byte with the model's own save.",
    "level_note": "Trusted: Lean kernel; the hand-written package model (MsiModel/Pkg.lean, PkgApi.lean, Pool, Table, PropSet, Summary), tied to the code by byte-exact correspondence: the same request histories run on the real crate and on the model's definitions, compared on every reply including full snapshots and the raw bytes of every saved stream; cfb is modelled as a finite map from names (compared by UTF-16 length and upper-cased text) to byte strings; the 24 table-backed code pages are modelled on ASCII text only (non-ASCII text is exercised under UTF-8; all pages are exercised by the oracle on the real code).",
    "technique": 'Lean 4 proof (reference-count accounting by induction) + independent format decoder on real saved bytes',
    "rule": 'seeded random sessions: package type, database code page, 1-3 tables with random schemas (types, widths, flags, ranges, categories, enumerations, composite/nullable keys), inserts (valid with controlled invalid mutations), updates (incl. key columns), deletes, selects, stream writes/removes (0..9000 bytes), summary setters/clearers, create/drop table, rejected calls, close/reopen in all three modes at random positions, snapshot after every step, raw bytes after flush. non-trivial = distinct successful mutating requests + decoded files',
    "trusted_base": ["package model lean/MsiModel/{Pkg,PkgApi,Pool,Table,PropSet,Summary,Session}.lean", "reference database / independent decoder in harness/src/{refdb,decode,walk}.rs"],
    "assumptions": ["cfb 0.10 behaves as a map from names to byte strings; Stream drop after an explicit flush is silent"],
}

PROPS["C10"] = {
    "module": "MsiProofs.Props.C10",
    "gen": ["summary", "codepage", "limits"],
    "profiles": ["dev"],
    "theorems": ["MsiProofs.C10.value_size_exact", "MsiProofs.C10.value_tag", "MsiProofs.C10.insertSorted_get", "MsiProofs.C10.set_get", "MsiProofs.C10.remove_get", "MsiProofs.C10.codepage_follows_set", "MsiProofs.C10.val_roundtrip", "MsiProofs.C10.propset_roundtrip", "MsiProofs.C10.demo_wf", "MsiProofs.C10.valOk_ascii"],
    "level_text": 'For ASCII strings the codec hypothesis is a theorem under every code page (valOk_ascii). Lean theorems: READER ROUND TRIP — PropSet.read (PropSet.write p) = p for every well-formed property set (header fields, code page entry consistent with the page in use, ascending ids, values in range, total size < 2^32), in every code page whose codec round-trips the strings (codec = parameter, the contract C14 decides); every property value is written in exactly the number of bytes the offset table assumes (the encoded length for strings), a multiple of four, with the type tag the reader dispatches on — so offsets are exact and aligned and the section size is exact, for every property set and codec; setters are last-write-wins, clearing makes a property absent, others untouched; the cached code page follows property 1 for every ordered pair of the 26 pages incl. back to UTF-8. Tie: getters before/after reopen vs an independent expectation, raw summary bytes model vs real.',
    "level_note": "Trusted: Lean kernel; the hand-written package model (MsiModel/Pkg.lean, PkgApi.lean, Pool, Table, PropSet, Summary), tied to the code by byte-exact correspondence: the same request histories run on the real crate and on the model's definitions, compared on every reply including full snapshots and the raw bytes of every saved stream; cfb is modelled as a finite map from names (compared by UTF-16 length and upper-cased text) to byte strings; the 24 table-backed code pages are modelled on ASCII text only (non-ASCII text is exercised under UTF-8; all pages are exercised by the oracle on the real code).",
    "technique": 'Lean 4 proof (size = written length; setter algebra; decide on regenerated ids) + correspondence of summary bytes and getters',
    "rule": 'seeded random sessions: package type, database code page, 1-3 tables with random schemas (types, widths, flags, ranges, categories, enumerations, composite/nullable keys), inserts (valid with controlled invalid mutations), updates (incl. key columns), deletes, selects, stream writes/removes (0..9000 bytes), summary setters/clearers, create/drop table, rejected calls, close/reopen in all three modes at random positions, snapshot after every step, raw bytes after flush. non-trivial = distinct successful mutating requests + decoded files',
    "trusted_base": ["package model lean/MsiModel/{Pkg,PkgApi,Pool,Table,PropSet,Summary,Session}.lean", "reference database / independent decoder in harness/src/{refdb,decode,walk}.rs"],
    "assumptions": ["cfb 0.10 behaves as a map from names to byte strings; Stream drop after an explicit flush is silent"],
}

PROPS["C12"] = {
    "module": "MsiProofs.Props.C12b",
    "gen": ["limits", "column"],
    "profiles": ["dev"],
    "theorems": ["MsiProofs.C12.joinInner_spec", "MsiProofs.C12.joinRows_spec", "MsiProofs.C12.prefixed_spec", "MsiProofs.C12.unknown_table", "MsiProofs.C12.unknown_projection", "MsiProofs.C12.select_is_denotation", "MsiProofs.C12.join_is_denotation", "MsiProofs.C12.select_width", "MsiProofs.C12.select_never_panics"],
    "level_text": 'WHOLE QUERY TREES: for every tree of joins, projections and filters and every package state, Select::exec equals the comprehension reading of the tree (denoteSelect: inner join = concatenations on which the condition holds, left rows outermost; left join = plus each unmatched left row padded with nulls; filter = rows on which the condition holds; projection = the named columns; errors for unknown tables/columns) - induction over the tree, no depth bound (select_is_denotation); result rows have one cell per result column; no panic outcome on any state and tree (select_never_panics). Lean theorems: the join loops equal the documented combination for every pair of row lists and every condition: inner = for each left row in order, each right row in order, the concatenation exactly when the condition holds; left = additionally each unmatched left row once, padded with nulls; result columns are table.column with the right side nullable in a left join; unknown tables/columns are errors. Composition over select trees: correspondence + reference evaluator on generated trees (self-joins, nested joins, sub-selects).',
    "level_note": "Trusted: Lean kernel; the hand-written package model (MsiModel/Pkg.lean, PkgApi.lean, Pool, Table, PropSet, Summary), tied to the code by byte-exact correspondence: the same request histories run on the real crate and on the model's definitions, compared on every reply including full snapshots and the raw bytes of every saved stream; cfb is modelled as a finite map from names (compared by UTF-16 length and upper-cased text) to byte strings; the 24 table-backed code pages are modelled on ASCII text only (non-ASCII text is exercised under UTF-8; all pages are exercised by the oracle on the real code).",
    "technique": 'Lean 4 proof (join loops = flatMap/filter by induction) + reference evaluator over select trees',
    "rule": 'seeded random sessions: package type, database code page, 1-3 tables with random schemas (types, widths, flags, ranges, categories, enumerations, composite/nullable keys), inserts (valid with controlled invalid mutations), updates (incl. key columns), deletes, selects, stream writes/removes (0..9000 bytes), summary setters/clearers, create/drop table, rejected calls, close/reopen in all three modes at random positions, snapshot after every step, raw bytes after flush. non-trivial = distinct successful mutating requests + decoded files',
    "trusted_base": ["package model lean/MsiModel/{Pkg,PkgApi,Pool,Table,PropSet,Summary,Session}.lean", "reference database / independent decoder in harness/src/{refdb,decode,walk}.rs"],
    "assumptions": ["cfb 0.10 behaves as a map from names to byte strings; Stream drop after an explicit flush is silent"],
}

PROPS["C20"] = {
    "module": "MsiProofs.Props.C20",
    "gen": ["limits", "streamname", "column"],
    "profiles": ["dev"],
    "theorems": ["MsiProofs.C20.limits", "MsiProofs.C20.too_many_columns", "MsiProofs.C20.row_limit_insert", "MsiProofs.C20.row_limit_read", "MsiProofs.C20.incref_below_limit", "MsiProofs.C20.incref_at_limit_panics", "MsiProofs.C20.table_name_fits"],
    "level_text": "Lean theorems: more than 32 columns is refused with the state untouched; an insert beyond the reader's row bound is refused with the state untouched and the reader refuses the same bound (one regenerated constant); incref accepts any string strictly below the reference-width capacity; accepted table names fit the container. The panic at exactly 65,535 pool entries is a recorded finding (theorem incref_at_limit_panics states it on the model). Tie: boundary histories at L-1, L, L+1.",
    "level_note": "Trusted: Lean kernel; the hand-written package model (MsiModel/Pkg.lean, PkgApi.lean, Pool, Table, PropSet, Summary), tied to the code by byte-exact correspondence: the same request histories run on the real crate and on the model's definitions, compared on every reply including full snapshots and the raw bytes of every saved stream; cfb is modelled as a finite map from names (compared by UTF-16 length and upper-cased text) to byte strings; the 24 table-backed code pages are modelled on ASCII text only (non-ASCII text is exercised under UTF-8; all pages are exercised by the oracle on the real code).",
    "technique": 'Lean 4 proof (limits as theorems over regenerated constants) + boundary correspondence',
    "rule": 'seeded random sessions: package type, database code page, 1-3 tables with random schemas (types, widths, flags, ranges, categories, enumerations, composite/nullable keys), inserts (valid with controlled invalid mutations), updates (incl. key columns), deletes, selects, stream writes/removes (0..9000 bytes), summary setters/clearers, create/drop table, rejected calls, close/reopen in all three modes at random positions, snapshot after every step, raw bytes after flush. non-trivial = distinct successful mutating requests + decoded files',
    "trusted_base": ["package model lean/MsiModel/{Pkg,PkgApi,Pool,Table,PropSet,Summary,Session}.lean", "reference database / independent decoder in harness/src/{refdb,decode,walk}.rs"],
    "assumptions": ["cfb 0.10 behaves as a map from names to byte strings; Stream drop after an explicit flush is silent"],
}

PROPS["C16"] = {
    "module": "MsiProofs.Props.C16",
    "gen": ["limits", "summary"],
    "profiles": ["dev"],
    "theorems": ["MsiProofs.C16.open_clean", "MsiProofs.C16.readonly_step_same", "MsiProofs.C16.close_clean", "MsiProofs.C16.readonly_session"],
    "level_text": "Lean theorem over every opened container and every finite sequence of read-only requests (induction over the request list): the package state is unchanged, an opened package has no finisher and nothing pending, and closing it by flush, into_inner or drop leaves the container byte-for-byte as opened. Tie: on the real crate a write-counting medium reports zero writes and identical bytes for sessions of random read-only calls (selects, joins, snapshots, stream listing/reading, has_*) over packages produced by random histories, in all three close modes; the same requests run on the model.",
    "level_note": PROPS["C01"]["level_note"] + " cfb's own behaviour on open/read (K5: no medium write) is observed by the counting medium, not proved.",
    "technique": "Lean 4 proof (induction over read-only request lists) + write-counting medium on the real crate",
    "rule": "packages produced by seeded random histories (tables, rows, streams, summary), saved and reopened; then 0-11 read-only calls; then close in a random mode on a counting medium. non-trivial = sessions closed",
    "trusted_base": PROPS["C01"]["trusted_base"],
    "assumptions": ["cfb issues no medium write for open_stream / exists / iteration (observed every run)"],
}

PROPS["C15"] = {
    "module": "MsiProofs.Props.C15",
    "gen": ["flush"],
    "profiles": ["dev"],
    "theorems": ["MsiProofs.C15.run_ok_mono", "MsiProofs.C15.step_ok", "MsiProofs.C15.no_swallow", "MsiProofs.C15.writers_flush",
                 "MsiProofs.C15.writer_wellFlushed", "MsiProofs.C15.api_no_swallow", "MsiProofs.C15.unflushed_writer_swallows"],
    "level_text": "Lean theorems on an effect model (scripts of container actions under the stated cfb contract K1-K5; for every fault assignment, every number of buffer spills, every combination of pending summary/pool): a call whose script flushes every stream before dropping it cannot return Ok after a failed medium write; the four stream writers do flush and flush()/into_inner() propagate the finisher (extracted from the current source on every run), hence every DML call, the finisher and flush have the property; an unflushed writer provably swallows. Partial: the order/number of cfb's own sector writes and partial writes are outside the model. Tie: fault enumeration on the real code: for 5 (quick) / 6 (thorough) scripts, every index k of the medium's write, read and seek calls, transient and persistent: no panic, no call Ok with a failed medium call during it, and after an all-Ok run ending in flush (package forgotten = crash) or into_inner the bytes reopen to the fault-free state.",
    "level_note": "Trusted: Lean kernel; the cfb contract K1-K5 (not proved; observed by the sweep); translator (flush discipline of write_rows, write_pool, write_data, PropertySet::write, Package::flush, into_inner); fault-injecting medium in harness/src/session.rs.",
    "technique": "Lean 4 proof on an effect model + static flush-discipline extraction + exhaustive single-fault enumeration on the real code",
    "rule": "scripts: create package; create table + 300-row insert; update + delete; drop table; stream write + summary + code page; insert + into_inner. For each: every index of the write / read / seek calls of the fault-free run, one failing call (transient) or all from there (persistent). non-trivial = sweeps; evaluations = fault points",
    "trusted_base": ["effect model lean/MsiModel/Effects.lean (contract K1-K5 of cfb 0.10)", "Gen/Flush.lean regenerated from table.rs, stringpool.rs, propset.rs, package.rs"],
    "assumptions": ["cfb: every operation except Stream::drop reports a failed medium write; after a successful Stream::flush, dropping the stream writes nothing"],
    "exhaustive": True,
}

PROPS["C09"] = {
    "module": "MsiProofs.Props.C09b",
    "gen": ["limits", "summary", "column", "codepage", "category"],
    "profiles": ["dev"],
    "theorems": ["MsiProofs.C09.np_bind", "MsiProofs.C09.np_propset_read", "MsiProofs.C09.np_pool_read", "MsiProofs.C09.np_readRows",
                 "MsiProofs.C09.np_openCore", "MsiProofs.C09.open_never_panics", "MsiProofs.C09.stream_reads_never_panic", "MsiProofs.C09.readRows_width", "MsiProofs.C09.delete_never_panics", "MsiProofs.C09.insert_never_panics", "MsiProofs.C09.update_never_panics"],
    "level_text": "MUTATING OPERATIONS: Delete::exec has no panic outcome on ANY package state (rows read have one cell per column, the condition names only existing columns, kept rows are written back in range); Insert::exec and Update::exec have none while the string pool has room for the new strings (Room: the only reachable panic is the capacity panic of incref, known finding D16b; the unreachable branch after the duplicate check is proved unreachable; update's re-ordering indexes rows in range). Lean theorem: in the model every unwrap / index / panic! / debug_assert! of the Rust is a visible `panic` outcome, and Package::open has no reachable panic outcome for ANY container (any map from stream names to byte strings, any root class id) - proved by showing every reader (property set with seeks, string pool with the long-string escape, column-major tables, the three catalog passes, type words) panic-free under bind. Partial: bytes -> container is the cfb crate, and mutating operations on foreign files are tied by correspondence rather than proved. Tie: three-way outcome diff (value / error kind / panic) of open and of a battery of read and mutate+flush calls on structure-aware corruptions of three base files (one written by the library, two by the independent encoder incl. three-byte references): any word of any stream replaced (null / dangling / huge reference, out-of-range number, pool lengths and counts, header words), streams truncated, extended, missing, property-set bytes mutated, wrong class id; plus raw and byte-damaged files straight into Package::open (fuzzing in support).",
    "level_note": PROPS["C01"]["level_note"] + " FFI (ffi/src/lib.rs) is not executed by the harness: its two panic sites were repaired and its calls are the same open / getters / select exercised here.",
    "technique": "Lean 4 proof (panic-freedom of the reader for all containers) + three-way outcome differential testing on corruptions",
    "rule": "one corruption per case (open walks a HashMap: with two faults the first error met is not fixed); kinds: word_replaced, truncated, halved, extended, stream_missing, summary_byte, summary_values (well-formed property set, hostile values), pool_lengths (long-string escapes summing past 2^32), wrong_clsid; each followed by a fixed battery of 18 calls; raw byte inputs: random bytes, truncated files, files with 1-4 damaged bytes. non-trivial = distinct inputs",
    "trusted_base": PROPS["C01"]["trusted_base"] + ["cfb 0.10 (bytes -> container; its Stream::seek refuses positions beyond the end)"],
    "assumptions": ["allocation failure for attacker-chosen lengths (up to 4 GiB, lazily committed on Linux) is outside the model"],
}

PROPS["C02"] = {
    "module": "MsiProofs.Props.C02",
    "gen": ["limits", "summary", "column", "codepage", "category", "streamname"],
    "profiles": ["dev"],
    "theorems": ["MsiProofs.C02.pool_entries_read", "MsiProofs.C02.pool_strings_read", "MsiProofs.C02.pool_roundtrip",
                 "MsiProofs.C02.live_empty_entry_misread", "MsiProofs.C02.rows_roundtrip", "MsiProofs.C02.cell_roundtrip",
                 "MsiProofs.C02.typeword_roundtrip", "MsiProofs.C02.int_size_one_is_int16", "MsiProofs.C02.cp_zero_default"],
    "level_text": "Lean theorems: the readers against the format for every well-formed input of each layer: the pool reader reads every entry list the format can express (both reference widths, long-string escape, holes, duplicates, any order; a live empty entry is exactly the inexpressible case), the data stream is cut and decoded correctly, reader o writer = id on pools; row blocks are whole numbers of column-major rows read back exactly; every storable cell and type word round-trips; size-1 integers and code page 0 are read as documented. The catalog pass and the property-set reader: tied by correspondence. Tie: files produced by an independent encoder of the format (harness/src/decode.rs: explicit layout choices - reference width, holes, duplicates, over-counted counts, entry order, unsorted rows, 1/2/4-byte integer fields, with/without _Validation, any supported code-page id incl. 0, > 64 KiB strings, 32-column tables; property sets with arbitrary property order, offsets, padding, versions) are opened by the real reader and compared with what the independent decoder reads from the same streams; then API edits, save, independent decode again.",
    "level_note": PROPS["C01"]["level_note"] + " The independent encoder/decoder are ours (written from the format as implemented by this library's documentation; no network to check against other readers).",
    "technique": "Lean 4 proof (reader vs writer codecs for all well-formed inputs) + differential testing on independently encoded files",
    "rule": "seeded databases: 1-3 tables of 1-32 columns in any type mix, keys not necessarily leading, 0-6 rows, strings shared between cells, occasionally > 64 KiB or non-ASCII (UTF-8 / id 0); pool layout: 2- or 3-byte references, filler entries (holes, unreferenced text), over-counted counts, duplicated entries with alternating references; with or without _Validation; rows in reverse order; summary by the independent property-set writer (random property order, value order, padding gaps, section offset, version, OS) under code pages 65001, 0, 1252, 932, 20127; optional binary streams; then insert/update/delete/stream/summary edits, flush, raw, reopen. non-trivial = loaded files + decoded saves",
    "trusted_base": PROPS["C01"]["trusted_base"],
    "assumptions": ["the format facts in harness/src/decode.rs (position of the high length word in the long-string escape follows the library's documented reading)"],
}

# reasons for properties not claimed (yet); everything else defaults to "not yet built"
NOT_CLAIMED = {}
