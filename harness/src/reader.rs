//! An independent reader of printed expressions, using the operator precedence of the
//! project's query grammar (examples/msiquery.pest), as listed in property C19:
//! OR < AND < NOT < comparison < | < ^ < & < shifts < + - < * / < unary - ~.
//! Binary levels are read left-associatively (a superset of the example grammar, which
//! makes comparison and shift non-associative and has no ^).

use crate::expr::*;

#[derive(Clone, Debug, PartialEq)]
pub enum Tok {
    Num(i32),
    Str(String),
    Null,
    Ident(String),
    Op(&'static str), // binary operator names as in expr::BINOPS, or "minus" (ambiguous), "tilde", "not"
    LParen,
    RParen,
}

pub fn lex(s: &str) -> Option<Vec<Tok>> {
    let cs: Vec<char> = s.chars().collect();
    let mut i = 0;
    let mut out: Vec<Tok> = vec![];
    let prefix_pos = |out: &Vec<Tok>| match out.last() {
        None => true,
        Some(Tok::Op(_)) | Some(Tok::LParen) => true,
        _ => false,
    };
    while i < cs.len() {
        let c = cs[i];
        if c == ' ' {
            i += 1;
            continue;
        }
        if c == '(' {
            out.push(Tok::LParen);
            i += 1;
            continue;
        }
        if c == ')' {
            out.push(Tok::RParen);
            i += 1;
            continue;
        }
        if c == '"' {
            let mut j = i + 1;
            let mut st = String::new();
            while j < cs.len() && cs[j] != '"' {
                if cs[j] == '\\' {
                    return None; // escapes are outside the property's domain
                }
                st.push(cs[j]);
                j += 1;
            }
            if j >= cs.len() {
                return None;
            }
            out.push(Tok::Str(st));
            i = j + 1;
            continue;
        }
        if c.is_ascii_digit() || (c == '-' && prefix_pos(&out) && i + 1 < cs.len() && cs[i + 1].is_ascii_digit()) {
            let mut j = i + 1;
            while j < cs.len() && cs[j].is_ascii_digit() {
                j += 1;
            }
            let t: String = cs[i..j].iter().collect();
            out.push(Tok::Num(t.parse().ok()?));
            i = j;
            continue;
        }
        if c.is_ascii_alphabetic() || c == '_' {
            let mut j = i + 1;
            while j < cs.len() && (cs[j].is_ascii_alphanumeric() || cs[j] == '_' || cs[j] == '.') {
                j += 1;
            }
            let t: String = cs[i..j].iter().collect();
            match t.to_ascii_uppercase().as_str() {
                "NULL" => out.push(Tok::Null),
                "NOT" => out.push(Tok::Op("not")),
                "AND" => out.push(Tok::Op("and")),
                "OR" => out.push(Tok::Op("or")),
                _ => out.push(Tok::Ident(t)),
            }
            i = j;
            continue;
        }
        let two: String = cs[i..(i + 2).min(cs.len())].iter().collect();
        let (op, len) = match two.as_str() {
            "!=" => ("ne", 2),
            "<=" => ("le", 2),
            ">=" => ("ge", 2),
            "<<" => ("shl", 2),
            ">>" => ("shr", 2),
            _ => match c {
                '=' => ("eq", 1),
                '<' => ("lt", 1),
                '>' => ("gt", 1),
                '+' => ("add", 1),
                '-' => ("minus", 1),
                '*' => ("mul", 1),
                '/' => ("div", 1),
                '&' => ("band", 1),
                '|' => ("bor", 1),
                '^' => ("bxor", 1),
                '~' => ("tilde", 1),
                _ => return None,
            },
        };
        out.push(Tok::Op(op));
        i += len;
    }
    Some(out)
}

/// precedence ladder of the property
pub fn bin_prec(op: &str) -> Option<u32> {
    Some(match op {
        "or" => 1,
        "and" => 2,
        "eq" | "ne" | "lt" | "le" | "gt" | "ge" => 4,
        "bor" => 5,
        "bxor" => 6,
        "band" => 7,
        "shl" | "shr" => 8,
        "add" | "sub" | "minus" => 9,
        "mul" | "div" => 10,
        _ => return None,
    })
}
const PREC_NOT: u32 = 3;
const PREC_UNARY: u32 = 11;

pub struct Parser {
    pub toks: Vec<Tok>,
    pub pos: usize,
}

impl Parser {
    fn peek(&self) -> Option<&Tok> {
        self.toks.get(self.pos)
    }
    pub fn expr(&mut self, min_prec: u32) -> Option<E> {
        let t = self.peek()?.clone();
        self.pos += 1;
        let mut lhs = match t {
            Tok::Num(n) => E::Lit(V::Int(n)),
            Tok::Str(s) => E::Lit(V::Str(s)),
            Tok::Null => E::Lit(V::Null),
            Tok::Ident(n) => E::Col(n),
            Tok::LParen => {
                let e = self.expr(0)?;
                if self.peek()? != &Tok::RParen {
                    return None;
                }
                self.pos += 1;
                e
            }
            Tok::Op("not") => {
                if PREC_NOT < min_prec {
                    return None; // NOT cannot appear here without parentheses
                }
                E::Un("not", Box::new(self.expr(PREC_NOT)?))
            }
            Tok::Op("minus") => E::Un("neg", Box::new(self.expr(PREC_UNARY)?)),
            Tok::Op("tilde") => E::Un("bitnot", Box::new(self.expr(PREC_UNARY)?)),
            _ => return None,
        };
        loop {
            let op = match self.peek() {
                Some(Tok::Op(op)) => *op,
                _ => break,
            };
            let p = match bin_prec(op) {
                Some(p) => p,
                None => return None, // a prefix operator in infix position
            };
            if p < min_prec {
                break;
            }
            self.pos += 1;
            let rhs = self.expr(p + 1)?;
            let name: &'static str = if op == "minus" { "sub" } else { op };
            lhs = E::Bin(name, Box::new(lhs), Box::new(rhs));
        }
        Some(lhs)
    }
}

pub fn read_expr(text: &str) -> Option<E> {
    let toks = lex(text)?;
    let mut p = Parser { toks, pos: 0 };
    let e = p.expr(0)?;
    if p.pos != p.toks.len() {
        return None;
    }
    Some(e)
}
