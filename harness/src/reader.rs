//! An independent reader of printed expressions, using the operator precedence of the
//! project's query grammar (examples/msiquery.pest), as listed in property C19:
//! OR < AND < NOT < comparison < | < ^ < & < shifts < + - < * / < unary - ~.
//! Binary levels are read left-associatively (a superset of the example grammar, which
//! makes comparison and shift non-associative and has no ^).

use crate::expr::*;

#[derive(Clone, Debug, PartialEq)]
pub enum Tok {
    Num(i32),
    Str(String),
    Null,
    Ident(String),
    Op(&'static str), // binary operator names as in expr::BINOPS, or "minus" (ambiguous), "tilde", "not"
    LParen,
    RParen,
    Comma,
    Kw(&'static str),
}

pub const KEYWORDS: &[&str] = &["SELECT", "FROM", "WHERE", "INNER", "LEFT", "JOIN", "ON", "INSERT", "INTO", "VALUES", "UPDATE", "SET", "DELETE"];

pub fn lex(s: &str) -> Option<Vec<Tok>> {
    let cs: Vec<char> = s.chars().collect();
    let mut i = 0;
    let mut out: Vec<Tok> = vec![];
    let prefix_pos = |out: &Vec<Tok>| match out.last() {
        None => true,
        Some(Tok::Op(_)) | Some(Tok::LParen) | Some(Tok::Comma) | Some(Tok::Kw(_)) => true,
        _ => false,
    };
    while i < cs.len() {
        let c = cs[i];
        if c == ' ' {
            i += 1;
            continue;
        }
        if c == '(' {
            out.push(Tok::LParen);
            i += 1;
            continue;
        }
        if c == ')' {
            out.push(Tok::RParen);
            i += 1;
            continue;
        }
        if c == ',' {
            out.push(Tok::Comma);
            i += 1;
            continue;
        }
        if c == '"' {
            let mut j = i + 1;
            let mut st = String::new();
            while j < cs.len() && cs[j] != '"' {
                if cs[j] == '\\' {
                    return None; // escapes are outside the property's domain
                }
                st.push(cs[j]);
                j += 1;
            }
            if j >= cs.len() {
                return None;
            }
            out.push(Tok::Str(st));
            i = j + 1;
            continue;
        }
        if c.is_ascii_digit() || (c == '-' && prefix_pos(&out) && i + 1 < cs.len() && cs[i + 1].is_ascii_digit()) {
            let mut j = i + 1;
            while j < cs.len() && cs[j].is_ascii_digit() {
                j += 1;
            }
            let t: String = cs[i..j].iter().collect();
            out.push(Tok::Num(t.parse().ok()?));
            i = j;
            continue;
        }
        if c.is_ascii_alphabetic() || c == '_' {
            let mut j = i + 1;
            while j < cs.len() && (cs[j].is_ascii_alphanumeric() || cs[j] == '_' || cs[j] == '.') {
                j += 1;
            }
            let t: String = cs[i..j].iter().collect();
            match t.to_ascii_uppercase().as_str() {
                "NULL" => out.push(Tok::Null),
                "NOT" => out.push(Tok::Op("not")),
                "AND" => out.push(Tok::Op("and")),
                "OR" => out.push(Tok::Op("or")),
                u => match KEYWORDS.iter().find(|k| **k == u) {
                    Some(k) => out.push(Tok::Kw(k)),
                    None => out.push(Tok::Ident(t)),
                },
            }
            i = j;
            continue;
        }
        let two: String = cs[i..(i + 2).min(cs.len())].iter().collect();
        let (op, len) = match two.as_str() {
            "!=" => ("ne", 2),
            "<=" => ("le", 2),
            ">=" => ("ge", 2),
            "<<" => ("shl", 2),
            ">>" => ("shr", 2),
            _ => match c {
                '=' => ("eq", 1),
                '<' => ("lt", 1),
                '>' => ("gt", 1),
                '+' => ("add", 1),
                '-' => ("minus", 1),
                '*' => ("mul", 1),
                '/' => ("div", 1),
                '&' => ("band", 1),
                '|' => ("bor", 1),
                '^' => ("bxor", 1),
                '~' => ("tilde", 1),
                _ => return None,
            },
        };
        out.push(Tok::Op(op));
        i += len;
    }
    Some(out)
}

/// precedence ladder of the property
pub fn bin_prec(op: &str) -> Option<u32> {
    Some(match op {
        "or" => 1,
        "and" => 2,
        "eq" | "ne" | "lt" | "le" | "gt" | "ge" => 4,
        "bor" => 5,
        "bxor" => 6,
        "band" => 7,
        "shl" | "shr" => 8,
        "add" | "sub" | "minus" => 9,
        "mul" | "div" => 10,
        _ => return None,
    })
}
const PREC_NOT: u32 = 3;
const PREC_UNARY: u32 = 11;

pub struct Parser {
    pub toks: Vec<Tok>,
    pub pos: usize,
}

impl Parser {
    fn peek(&self) -> Option<&Tok> {
        self.toks.get(self.pos)
    }
    pub fn expr(&mut self, min_prec: u32) -> Option<E> {
        let t = self.peek()?.clone();
        self.pos += 1;
        let mut lhs = match t {
            Tok::Num(n) => E::Lit(V::Int(n)),
            Tok::Str(s) => E::Lit(V::Str(s)),
            Tok::Null => E::Lit(V::Null),
            Tok::Ident(n) => E::Col(n),
            Tok::LParen => {
                let e = self.expr(0)?;
                if self.peek()? != &Tok::RParen {
                    return None;
                }
                self.pos += 1;
                e
            }
            Tok::Op("not") => {
                if PREC_NOT < min_prec {
                    return None; // NOT cannot appear here without parentheses
                }
                E::Un("not", Box::new(self.expr(PREC_NOT)?))
            }
            Tok::Op("minus") => E::Un("neg", Box::new(self.expr(PREC_UNARY)?)),
            Tok::Op("tilde") => E::Un("bitnot", Box::new(self.expr(PREC_UNARY)?)),
            _ => return None,
        };
        loop {
            let op = match self.peek() {
                Some(Tok::Op(op)) => *op,
                _ => break,
            };
            let p = match bin_prec(op) {
                Some(p) => p,
                None => return None, // a prefix operator in infix position
            };
            if p < min_prec {
                break;
            }
            self.pos += 1;
            let rhs = self.expr(p + 1)?;
            let name: &'static str = if op == "minus" { "sub" } else { op };
            lhs = E::Bin(name, Box::new(lhs), Box::new(rhs));
        }
        Some(lhs)
    }
}

pub fn read_expr(text: &str) -> Option<E> {
    let toks = lex(text)?;
    let mut p = Parser { toks, pos: 0 };
    let e = p.expr(0)?;
    if p.pos != p.toks.len() {
        return None;
    }
    Some(e)
}

// ------------------------------------------------------------------------------------
// queries (grammar rules QuerySelect / QueryInsert / QueryUpdate / QueryDelete)

use crate::refdb::{Sel, Q};

impl Parser {
    fn kw(&mut self, k: &str) -> Option<()> {
        match self.peek()? {
            Tok::Kw(x) if *x == k => {
                self.pos += 1;
                Some(())
            }
            _ => None,
        }
    }
    fn ident(&mut self) -> Option<String> {
        match self.peek()?.clone() {
            Tok::Ident(n) => {
                self.pos += 1;
                Some(n)
            }
            _ => None,
        }
    }
    fn literal(&mut self) -> Option<V> {
        let t = self.peek()?.clone();
        self.pos += 1;
        Some(match t {
            Tok::Num(n) => V::Int(n),
            Tok::Str(s) => V::Str(s),
            Tok::Null => V::Null,
            _ => return None,
        })
    }
    /// Table2 = Ident | ( QuerySelect )
    fn table2(&mut self) -> Option<Sel> {
        if self.peek()? == &Tok::LParen {
            self.pos += 1;
            let s = self.select()?;
            if self.peek()? != &Tok::RParen {
                return None;
            }
            self.pos += 1;
            Some(s)
        } else {
            Some(Sel { from: Q::Table(self.ident()?), cols: vec![], cond: None })
        }
    }
    /// QuerySelect = SELECT ColumnList FROM Table (WHERE Expr)?
    pub fn select(&mut self) -> Option<Sel> {
        self.kw("SELECT")?;
        let mut cols = vec![];
        if self.peek()? == &Tok::Op("mul") {
            self.pos += 1;
        } else {
            cols.push(self.ident()?);
            while self.peek() == Some(&Tok::Comma) {
                self.pos += 1;
                cols.push(self.ident()?);
            }
        }
        self.kw("FROM")?;
        let first = self.table2()?;
        let from = match self.peek() {
            Some(Tok::Kw(j)) if *j == "INNER" || *j == "LEFT" => {
                let is_left = *j == "LEFT";
                self.pos += 1;
                self.kw("JOIN")?;
                let second = self.table2()?;
                self.kw("ON")?;
                let on = self.expr(0)?;
                if is_left {
                    Q::Left(Box::new(first), Box::new(second), on)
                } else {
                    Q::Inner(Box::new(first), Box::new(second), on)
                }
            }
            _ => {
                // a bare table, or a parenthesised select used as the table
                if first.cols.is_empty() && first.cond.is_none() {
                    first.from
                } else {
                    // SELECT ... FROM (SELECT ...): the query objects cannot express this
                    return None;
                }
            }
        };
        let cond = if self.kw("WHERE").is_some() { Some(self.expr(0)?) } else { None };
        Some(Sel { from, cols, cond })
    }
}

/// literal-only subtrees evaluated (what the API's constructors do, and more: applied to both sides)
pub fn fold(e: &E) -> E {
    match e {
        E::Lit(_) | E::Col(_) => e.clone(),
        E::Un(op, a) => {
            let a = fold(a);
            if let E::Lit(_) = a {
                if let Some(v) = E::Un(op, Box::new(a.clone())).ref_eval(&[]) {
                    return E::Lit(v);
                }
            }
            E::Un(op, Box::new(a))
        }
        E::Bin(op, a, b) => {
            let a = fold(a);
            let b = fold(b);
            if let (E::Lit(_), E::Lit(_)) = (&a, &b) {
                if let Some(v) = E::Bin(op, Box::new(a.clone()), Box::new(b.clone())).ref_eval(&[]) {
                    return E::Lit(v);
                }
            }
            E::Bin(op, Box::new(a), Box::new(b))
        }
    }
}

pub fn same_cond(a: &Option<E>, b: &Option<E>) -> bool {
    match (a, b) {
        (None, None) => true,
        (Some(x), Some(y)) => fold(x) == fold(y),
        _ => false,
    }
}

pub fn same_select(a: &Sel, b: &Sel) -> bool {
    a.cols == b.cols
        && same_cond(&a.cond, &b.cond)
        && match (&a.from, &b.from) {
            (Q::Table(x), Q::Table(y)) => x == y,
            (Q::Inner(l1, r1, e1), Q::Inner(l2, r2, e2)) | (Q::Left(l1, r1, e1), Q::Left(l2, r2, e2)) => {
                same_select(l1, l2) && same_select(r1, r2) && fold(e1) == fold(e2)
            }
            _ => false,
        }
}

pub fn read_select(text: &str) -> Option<Sel> {
    let toks = lex(text)?;
    let mut p = Parser { toks, pos: 0 };
    let s = p.select()?;
    if p.pos != p.toks.len() {
        return None;
    }
    Some(s)
}

/// INSERT INTO t [VALUES (l, ...), ...]
pub fn read_insert(text: &str) -> Option<(String, Vec<Vec<V>>)> {
    let toks = lex(text)?;
    let mut p = Parser { toks, pos: 0 };
    p.kw("INSERT")?;
    p.kw("INTO")?;
    let t = p.ident()?;
    let mut rows = vec![];
    if p.kw("VALUES").is_some() {
        loop {
            if p.peek()? != &Tok::LParen {
                return None;
            }
            p.pos += 1;
            let mut row = vec![p.literal()?];
            while p.peek() == Some(&Tok::Comma) {
                p.pos += 1;
                row.push(p.literal()?);
            }
            if p.peek()? != &Tok::RParen {
                return None;
            }
            p.pos += 1;
            rows.push(row);
            if p.peek() == Some(&Tok::Comma) {
                p.pos += 1;
            } else {
                break;
            }
        }
    }
    if p.pos != p.toks.len() {
        return None;
    }
    Some((t, rows))
}

/// UPDATE t SET c = l, ... [WHERE e]
pub fn read_update(text: &str) -> Option<(String, Vec<(String, V)>, Option<E>)> {
    let toks = lex(text)?;
    let mut p = Parser { toks, pos: 0 };
    p.kw("UPDATE")?;
    let t = p.ident()?;
    p.kw("SET")?;
    let mut ups = vec![];
    loop {
        let c = p.ident()?;
        if p.peek()? != &Tok::Op("eq") {
            return None;
        }
        p.pos += 1;
        ups.push((c, p.literal()?));
        if p.peek() == Some(&Tok::Comma) {
            p.pos += 1;
        } else {
            break;
        }
    }
    let cond = if p.kw("WHERE").is_some() { Some(p.expr(0)?) } else { None };
    if p.pos != p.toks.len() {
        return None;
    }
    Some((t, ups, cond))
}

/// DELETE FROM t [WHERE e]
pub fn read_delete(text: &str) -> Option<(String, Option<E>)> {
    let toks = lex(text)?;
    let mut p = Parser { toks, pos: 0 };
    p.kw("DELETE")?;
    p.kw("FROM")?;
    let t = p.ident()?;
    let cond = if p.kw("WHERE").is_some() { Some(p.expr(0)?) } else { None };
    if p.pos != p.toks.len() {
        return None;
    }
    Some((t, cond))
}
