//! The C interface of the repository (`ffi/src/lib.rs`): `get_information` and `get_table`, called
//! through their exported C symbols on a file, in a child process (a panic inside an
//! `extern "C"` function aborts the process; the parent sees the signal).
//!
//!   harness ffi <file>     prints what the C interface reports for the file, one line per item

use safer_ffi::prelude::*;
use std::ffi::CString;
use std::os::raw::c_char;

extern crate msi_ffi;

#[repr(C)]
pub struct Info {
    arch: repr_c::String,
    author: repr_c::String,
    comments: repr_c::String,
    creating_application: repr_c::String,
    creation_time: repr_c::String,
    languages: repr_c::Vec<repr_c::String>,
    subject: repr_c::String,
    title: repr_c::String,
    uuid: repr_c::String,
    word_count: i32,
    has_digital_signature: bool,
    table_names: repr_c::Vec<repr_c::String>,
}

extern "C" {
    fn get_information(path: *const c_char) -> Info;
    fn free_information(info: Info);
    fn get_table(path: *const c_char, table_name: *const c_char) -> repr_c::Vec<repr_c::Vec<repr_c::String>>;
    fn free_table(table: repr_c::Vec<repr_c::Vec<repr_c::String>>);
}

fn hex(s: &str) -> String {
    crate::util::hex_of_str(s)
}

/// what the C interface reports, in the same form as `expected`
pub fn report(path: &str) -> Vec<String> {
    let cpath = CString::new(path).unwrap();
    let mut out = vec![];
    let info = unsafe { get_information(cpath.as_ptr()) };
    out.push(format!("arch {}", hex(&info.arch)));
    out.push(format!("author {}", hex(&info.author)));
    out.push(format!("comments {}", hex(&info.comments)));
    out.push(format!("app {}", hex(&info.creating_application)));
    out.push(format!("time-set {}", !info.creation_time.is_empty()));
    out.push(format!("languages {}", info.languages.iter().map(|l| l.to_string()).collect::<Vec<_>>().join(",")));
    out.push(format!("subject {}", hex(&info.subject)));
    out.push(format!("title {}", hex(&info.title)));
    out.push(format!("uuid {}", hex(&info.uuid)));
    out.push(format!("words {}", info.word_count));
    out.push(format!("sig {}", info.has_digital_signature));
    let names: Vec<String> = info.table_names.iter().map(|n| n.to_string()).collect();
    out.push(format!("tables {}", names.iter().map(|n| hex(n)).collect::<Vec<_>>().join(",")));
    unsafe { free_information(info) };
    for n in names.iter().chain(std::iter::once(&"No such table".to_string())) {
        let cname = match CString::new(n.as_str()) {
            Ok(c) => c,
            Err(_) => continue,
        };
        let t = unsafe { get_table(cpath.as_ptr(), cname.as_ptr()) };
        let lines: Vec<String> = t.iter().map(|row| row.iter().map(|c| hex(c)).collect::<Vec<_>>().join(",")).collect();
        out.push(format!("table {} {}", hex(n), lines.join(";")));
        unsafe { free_table(t) };
    }
    out
}

/// the same report computed through the Rust API
pub fn expected(path: &str) -> Option<Vec<String>> {
    let mut pkg = msi::open(path).ok()?;
    let mut out = vec![];
    {
        let s = pkg.summary_info();
        out.push(format!("arch {}", hex(s.arch().unwrap_or_default())));
        out.push(format!("author {}", hex(s.author().unwrap_or_default())));
        out.push(format!("comments {}", hex(s.comments().unwrap_or_default())));
        out.push(format!("app {}", hex(s.creating_application().unwrap_or_default())));
        // RFC 2822 can express the years 0..9999 only; other times are reported as unset
        let set = match s.creation_time() {
            Some(t) => {
                let secs = match t.duration_since(std::time::UNIX_EPOCH) {
                    Ok(d) => d.as_secs() as i64,
                    Err(e) => -(e.duration().as_secs() as i64) - 1,
                };
                // 0000-01-01 .. 9999-12-31 in seconds since 1970
                (-62167219200..=253402300799).contains(&secs)
            }
            None => false,
        };
        out.push(format!("time-set {set}"));
        out.push(format!("languages {}", s.languages().iter().map(|l| l.code().to_string()).collect::<Vec<_>>().join(",")));
        out.push(format!("subject {}", hex(s.subject().unwrap_or_default())));
        out.push(format!("title {}", hex(s.title().unwrap_or_default())));
        out.push(format!("uuid {}", hex(&s.uuid().unwrap_or_default().to_string())));
        out.push(format!("words {}", s.word_count().unwrap_or_default()));
    }
    out.push(format!("sig {}", pkg.has_digital_signature()));
    let names: Vec<String> = pkg.tables().map(|t| t.name().to_string()).collect();
    out.push(format!("tables {}", names.iter().map(|n| hex(n)).collect::<Vec<_>>().join(",")));
    for n in names.iter() {
        if n.contains('\0') {
            continue;
        }
        let cols: Vec<String> = pkg.get_table(n).unwrap().columns().iter().map(|c| hex(c.name())).collect();
        let mut lines = vec![cols.join(",")];
        match pkg.select_rows(msi::Select::table(n.as_str())) {
            Ok(rows) => {
                for row in rows {
                    lines.push((0..row.len()).map(|i| hex(&row[i].to_string())).collect::<Vec<_>>().join(","));
                }
                out.push(format!("table {} {}", hex(n), lines.join(";")));
            }
            Err(_) => out.push(format!("table {} ", hex(n))),
        }
    }
    out.push(format!("table {} ", hex("No such table")));
    Some(out)
}
