//! Fault sweeps for C15: run a script of API calls on a medium that fails the k-th
//! write / read / seek (once, or from then on), for every k.

use crate::session::*;
use std::panic::{catch_unwind, AssertUnwindSafe};

type Step = (&'static str, Box<dyn Fn(&mut Pkg) -> std::io::Result<()>>);

fn base_package() -> Vec<u8> {
    let m = Medium::new(Vec::new());
    let mut pkg = msi::Package::create(msi::PackageType::Installer, m.clone()).unwrap();
    pkg.create_table(
        "Items",
        vec![
            msi::Column::build("Id").primary_key().int16(),
            msi::Column::build("Name").nullable().string(64),
        ],
    )
    .unwrap();
    let rows: Vec<Vec<msi::Value>> =
        (1..=40).map(|i| vec![msi::Value::Int(i), msi::Value::Str(format!("item number {i}"))]).collect();
    pkg.insert_rows(msi::Insert::into("Items").rows(rows)).unwrap();
    pkg.create_table("Other", vec![msi::Column::build("K").primary_key().string(16)]).unwrap();
    pkg.insert_rows(msi::Insert::into("Other").row(vec![msi::Value::from("solo")])).unwrap();
    pkg.flush().unwrap();
    drop(pkg);
    m.snapshot_bytes()
}

fn script(n: usize) -> (bool, Vec<Step>, &'static str) {
    // (starts from an empty medium?, steps, how it ends: "flush" | "into_inner")
    use msi::{Column, Delete, Expr, Insert, Update, Value};
    use std::io::Write;
    match n {
        0 => (true, vec![], "flush"),
        1 => (
            false,
            vec![
                ("create_table", Box::new(|p: &mut Pkg| p.create_table("New", vec![Column::build("A").primary_key().int32(), Column::build("B").nullable().string(0)]))),
                ("insert", Box::new(|p: &mut Pkg| {
                    let rows: Vec<Vec<Value>> = (0..300).map(|i| vec![Value::Int(i * 7), Value::Str(format!("a fairly long string value number {i} to fill buffers"))]).collect();
                    p.insert_rows(Insert::into("New").rows(rows))
                })),
            ],
            "flush",
        ),
        2 => (
            false,
            vec![
                ("update", Box::new(|p: &mut Pkg| p.update_rows(Update::table("Items").set("Name", Value::from("renamed")).with(Expr::col("Id").lt(Expr::integer(20)))))),
                ("delete", Box::new(|p: &mut Pkg| p.delete_rows(Delete::from("Items").with(Expr::col("Id").gt(Expr::integer(30)))))),
            ],
            "flush",
        ),
        3 => (false, vec![("drop_table", Box::new(|p: &mut Pkg| p.drop_table("Items")))], "flush"),
        4 => (
            false,
            vec![
                ("write_stream", Box::new(|p: &mut Pkg| {
                    let mut w = p.write_stream("payload")?;
                    w.write_all(&vec![0xabu8; 9000])?;
                    w.flush()
                })),
                ("summary", Box::new(|p: &mut Pkg| {
                    p.summary_info_mut().set_author("Someone with a reasonably long name");
                    p.summary_info_mut().set_comments("x".repeat(3000));
                    Ok(())
                })),
                ("set_db_cp", Box::new(|p: &mut Pkg| {
                    p.set_database_codepage(msi::CodePage::Windows1252);
                    Ok(())
                })),
            ],
            "flush",
        ),
        5 => (
            false,
            vec![("insert", Box::new(|p: &mut Pkg| p.insert_rows(Insert::into("Items").row(vec![Value::Int(1000), Value::from("late")]))))],
            "into_inner",
        ),
        7 => (
            false,
            vec![
                ("create_table", Box::new(|p: &mut Pkg| p.create_table("Notes", vec![Column::build("K").primary_key().int16(), Column::build("Text").nullable().string(0)]))),
                ("insert_long_last", Box::new(|p: &mut Pkg| {
                    // the last string of the pool is a text of several KiB (string data ending on / past block sizes)
                    let rows: Vec<Vec<Value>> = vec![
                        vec![Value::Int(1), Value::Str("short".into())],
                        vec![Value::Int(2), Value::Str("x".repeat(4096 + 700))],
                    ];
                    p.insert_rows(Insert::into("Notes").rows(rows))
                })),
            ],
            "flush",
        ),
        8 => (
            false,
            vec![
                ("summary_only", Box::new(|p: &mut Pkg| {
                    p.summary_info_mut().set_author("Jane Doe");
                    p.summary_info_mut().set_comments("y".repeat(5000));
                    Ok(())
                })),
            ],
            "into_inner",
        ),
        9 => (
            false,
            vec![
                ("drop_table", Box::new(|p: &mut Pkg| p.drop_table("Items"))),
                ("create_again", Box::new(|p: &mut Pkg| p.create_table("Items", vec![Column::build("Id").primary_key().int16(), Column::build("Name").nullable().string(64)]))),
            ],
            "flush",
        ),
        10 => (
            false,
            vec![
                // a placeholder header, the body, then back to fill in the header (the seek makes the
                // container write out its buffer: a fault there must not be swallowed)
                ("write_stream_header_last", Box::new(|p: &mut Pkg| {
                    use std::io::{Seek, SeekFrom};
                    let mut w = p.write_stream("with header")?;
                    w.write_all(&[0u8; 16])?;
                    let body: Vec<u8> = (0..12000).map(|i| (i % 253) as u8).collect();
                    w.write_all(&body)?;
                    w.seek(SeekFrom::Start(0))?;
                    w.write_all(b"HEADER-0123456789"[..16].as_ref())?;
                    w.flush()
                })),
            ],
            "flush",
        ),
        // tables whose serialised size lands on and around buffer sizes (4400 = just past 4 KiB
        // at the last column, 8192 = exactly the container's stream buffer, 512 = one sector)
        _ => (
            false,
            vec![
                ("create_tables", Box::new(|p: &mut Pkg| {
                    for name in ["Big", "Exact", "Sector"] {
                        p.create_table(name, vec![Column::build("K").primary_key().int16(), Column::build("V").int16()])?;
                    }
                    Ok(())
                })),
                ("insert_big", Box::new(|p: &mut Pkg| {
                    for (name, n) in [("Big", 1100), ("Exact", 2048), ("Sector", 128)] {
                        let rows: Vec<Vec<Value>> = (0..n).map(|i| vec![Value::Int(i), Value::Int(i % 7)]).collect();
                        p.insert_rows(Insert::into(name).rows(rows))?;
                    }
                    Ok(())
                })),
            ],
            "flush",
        ),
    }
}

pub const NUM_SCRIPTS: usize = 11;

struct Outcome {
    calls: usize,
    swallowed: bool,
    all_ok: bool,
    panicked: bool,
    final_snapshot: Option<String>,
    /// the state on the medium when a flush reported success after an earlier flush had failed
    retry_snapshot: Option<String>,
}

fn run(n: usize, base: &[u8], arm: &dyn Fn(&mut MediumStats)) -> Outcome {
    let (fresh, steps, ending) = script(n);
    let medium = Medium::new(if fresh { Vec::new() } else { base.to_vec() });
    arm(&mut medium.stats.borrow_mut());
    let failed = |m: &Medium| m.stats.borrow().failed_calls;
    let mut swallowed = false;
    let mut all_ok = true;
    let mut retry_ok = false;
    let m2 = medium.clone();
    let result = catch_unwind(AssertUnwindSafe(|| {
        let before = failed(&m2);
        let opened = if fresh { msi::Package::create(msi::PackageType::Installer, m2.clone()) } else { msi::Package::open(m2.clone()) };
        let mut pkg = match opened {
            Ok(p) => {
                if failed(&m2) > before {
                    swallowed = true;
                }
                p
            }
            Err(_) => {
                all_ok = false;
                return;
            }
        };
        for (_, f) in &steps {
            let before = failed(&m2);
            match f(&mut pkg) {
                Ok(()) => {
                    if failed(&m2) > before {
                        swallowed = true;
                    }
                }
                Err(_) => {
                    all_ok = false;
                }
            }
        }
        let before = failed(&m2);
        let r = if ending == "flush" {
            let r = pkg.flush();
            if r.is_err() {
                // the caller tries again (with the fault still there, or gone): whatever the
                // outcome, no panic; and a flush that then reports success has written what is pending
                let r2 = pkg.flush();
                let r3 = pkg.flush();
                if all_ok && (r2.is_ok() || r3.is_ok()) {
                    retry_ok = true;
                }
            }
            // a crash right after flush: no destructor runs
            std::mem::forget(pkg);
            r
        } else {
            pkg.into_inner().map(|_| ())
        };
        match r {
            Ok(()) => {
                if failed(&m2) > before {
                    swallowed = true;
                }
            }
            Err(_) => all_ok = false,
        }
    }));
    let panicked = result.is_err();
    let calls = {
        let st = medium.stats.borrow();
        (st.writes + st.reads + st.seeks) as usize
    };
    let final_snapshot = if all_ok && !panicked {
        let r = catch_unwind(AssertUnwindSafe(|| match msi::Package::open(Medium::new(medium.snapshot_bytes())) {
            Ok(mut p) => snapshot(&mut p),
            Err(e) => format!("reopen-err {}", kind_name(&e)),
        }));
        Some(r.unwrap_or_else(|_| "reopen-panic".to_string()))
    } else {
        None
    };
    let retry_snapshot = if retry_ok && !panicked {
        let r = catch_unwind(AssertUnwindSafe(|| match msi::Package::open(Medium::new(medium.snapshot_bytes())) {
            Ok(mut p) => snapshot(&mut p),
            Err(e) => format!("reopen-err {}", kind_name(&e)),
        }));
        Some(r.unwrap_or_else(|_| "reopen-panic".to_string()))
    } else {
        None
    };
    Outcome { calls, swallowed, all_ok, panicked, final_snapshot, retry_snapshot }
}

/// `@fault_sweep <script> <write|read|seek> <transient|persistent>`
pub fn sweep(n: usize, kind: &str, mode: &str) -> String {
    let base = base_package();
    let clean = run(n, &base, &|_| {});
    let expected = clean.final_snapshot.clone().unwrap_or_default();
    let total = {
        // number of calls of the chosen kind in the fault-free run
        let (fresh, _, _) = script(n);
        let medium = Medium::new(if fresh { Vec::new() } else { base.clone() });
        drop(medium);
        let m = run_count(n, &base);
        match kind {
            "write" => m.0,
            "read" => m.1,
            "flush" => m.3,
            _ => m.2,
        }
    };
    let persistent = mode == "persistent";
    let mut swallowed: Vec<u64> = vec![];
    let mut corrupt: Vec<u64> = vec![];
    let mut panics: Vec<u64> = vec![];
    let mut retrylost: Vec<u64> = vec![];
    let mut ok_runs = 0u64;
    for k in 0..total {
        let o = run(n, &base, &|st: &mut MediumStats| {
            st.persistent = persistent;
            match kind {
                "write" => st.fail_write_at = Some(k),
                "read" => st.fail_read_at = Some(k),
                "flush" => st.fail_flush_at = Some(k),
                _ => st.fail_seek_at = Some(k),
            }
        });
        let _ = o.calls;
        if o.panicked {
            panics.push(k);
            continue;
        }
        if o.swallowed {
            swallowed.push(k);
        }
        if let Some(s) = &o.retry_snapshot {
            if *s != expected {
                retrylost.push(k);
            }
        }
        if o.all_ok {
            ok_runs += 1;
            if o.final_snapshot.as_deref() != Some(expected.as_str()) {
                corrupt.push(k);
            }
        }
    }
    let show = |v: &Vec<u64>| v.iter().take(12).map(|x| x.to_string()).collect::<Vec<_>>().join(",");
    format!(
        "points={} all_ok_runs={} swallowed={}[{}] corrupt={}[{}] panics={}[{}] retrylost={}[{}] clean_ok={}",
        total, ok_runs, swallowed.len(), show(&swallowed), corrupt.len(), show(&corrupt), panics.len(), show(&panics),
        retrylost.len(), show(&retrylost),
        (clean.all_ok && !expected.starts_with("reopen-")) as i32
    )
}

fn run_count(n: usize, base: &[u8]) -> (u64, u64, u64, u64) {
    let (fresh, steps, ending) = script(n);
    let medium = Medium::new(if fresh { Vec::new() } else { base.to_vec() });
    let m2 = medium.clone();
    let _ = catch_unwind(AssertUnwindSafe(|| {
        let opened = if fresh { msi::Package::create(msi::PackageType::Installer, m2.clone()) } else { msi::Package::open(m2.clone()) };
        if let Ok(mut pkg) = opened {
            for (_, f) in &steps {
                let _ = f(&mut pkg);
            }
            if ending == "flush" {
                let _ = pkg.flush();
                std::mem::forget(pkg);
            } else {
                let _ = pkg.into_inner();
            }
        }
    }));
    let st = medium.stats.borrow();
    (st.writes, st.reads, st.seeks, st.flushes)
}
