//! Wire format of column definitions: `name:type:flags:range:fk:cat:enum`
//!   name  hex;  type `i16` | `i32` | `s<maxlen>`;  flags subset of "LNK" or `-`
//!   range `-` | `<min>,<max>`;  fk `-` | `<tablehex>,<index>`;  cat `-` | variant name
//!   enum `-` | comma-separated hex values (`_` = empty string)

use crate::expr::V;
use crate::util::*;

#[derive(Clone, Debug, PartialEq)]
pub enum CT {
    I16,
    I32,
    Str(usize),
}

#[derive(Clone, Debug, PartialEq)]
pub struct ColDef {
    pub name: String,
    pub ct: CT,
    pub localizable: bool,
    pub nullable: bool,
    pub key: bool,
    pub range: Option<(i32, i32)>,
    pub fk: Option<(String, i32)>,
    pub cat: Option<&'static str>,
    pub enums: Vec<String>,
}

pub const CATEGORIES: &[(&str, msi::Category)] = &[
    ("Text", msi::Category::Text), ("UpperCase", msi::Category::UpperCase),
    ("LowerCase", msi::Category::LowerCase), ("Integer", msi::Category::Integer),
    ("DoubleInteger", msi::Category::DoubleInteger), ("TimeDate", msi::Category::TimeDate),
    ("Identifier", msi::Category::Identifier), ("Property", msi::Category::Property),
    ("Filename", msi::Category::Filename), ("WildCardFilename", msi::Category::WildCardFilename),
    ("Path", msi::Category::Path), ("Paths", msi::Category::Paths),
    ("AnyPath", msi::Category::AnyPath), ("DefaultDir", msi::Category::DefaultDir),
    ("RegPath", msi::Category::RegPath), ("Formatted", msi::Category::Formatted),
    ("FormattedSddlText", msi::Category::FormattedSddlText), ("Template", msi::Category::Template),
    ("Condition", msi::Category::Condition), ("Guid", msi::Category::Guid),
    ("Version", msi::Category::Version), ("Language", msi::Category::Language),
    ("Binary", msi::Category::Binary), ("CustomSource", msi::Category::CustomSource),
    ("Cabinet", msi::Category::Cabinet), ("Shortcut", msi::Category::Shortcut),
];

pub fn cat_by_name(n: &str) -> Option<(&'static str, msi::Category)> {
    CATEGORIES.iter().find(|c| c.0 == n).cloned()
}

pub fn cat_name(c: msi::Category) -> &'static str {
    CATEGORIES.iter().find(|x| x.1 == c).map(|x| x.0).unwrap_or("?")
}

impl ColDef {
    pub fn new(name: &str, ct: CT) -> ColDef {
        ColDef {
            name: name.to_string(),
            ct,
            localizable: false,
            nullable: false,
            key: false,
            range: None,
            fk: None,
            cat: None,
            enums: vec![],
        }
    }
    pub fn tok(&self) -> String {
        let ty = match self.ct {
            CT::I16 => "i16".to_string(),
            CT::I32 => "i32".to_string(),
            CT::Str(n) => format!("s{n}"),
        };
        let mut fl = String::new();
        if self.localizable {
            fl.push('L');
        }
        if self.nullable {
            fl.push('N');
        }
        if self.key {
            fl.push('K');
        }
        if fl.is_empty() {
            fl.push('-');
        }
        let range = match self.range {
            Some((a, b)) => format!("{a},{b}"),
            None => "-".into(),
        };
        let fk = match &self.fk {
            Some((t, i)) => format!("{},{}", hex_of_str(t), i),
            None => "-".into(),
        };
        let cat = self.cat.unwrap_or("-").to_string();
        let en = if self.enums.is_empty() {
            "-".to_string()
        } else {
            self.enums.iter().map(|e| hex_of_str(e)).collect::<Vec<_>>().join(",")
        };
        format!("{}:{}:{}:{}:{}:{}:{}", hex_of_str(&self.name), ty, fl, range, fk, cat, en)
    }
    pub fn parse(t: &str) -> Option<ColDef> {
        let f: Vec<&str> = t.split(':').collect();
        if f.len() != 7 {
            return None;
        }
        let ct = match f[1] {
            "i16" => CT::I16,
            "i32" => CT::I32,
            s => CT::Str(s.strip_prefix('s')?.parse().ok()?),
        };
        let range = if f[3] == "-" {
            None
        } else {
            let (a, b) = f[3].split_once(',')?;
            Some((a.parse().ok()?, b.parse().ok()?))
        };
        let fk = if f[4] == "-" {
            None
        } else {
            let (a, b) = f[4].split_once(',')?;
            Some((str_of_hex(a)?, b.parse().ok()?))
        };
        let cat = if f[5] == "-" { None } else { Some(cat_by_name(f[5])?.0) };
        let enums = if f[6] == "-" {
            vec![]
        } else {
            f[6].split(',').map(str_of_hex).collect::<Option<Vec<_>>>()?
        };
        Some(ColDef {
            name: str_of_hex(f[0])?,
            ct,
            localizable: f[2].contains('L'),
            nullable: f[2].contains('N'),
            key: f[2].contains('K'),
            range,
            fk,
            cat,
            enums,
        })
    }
    pub fn to_msi(&self) -> msi::Column {
        let mut b = msi::Column::build(self.name.as_str());
        if self.localizable {
            b = b.localizable();
        }
        if self.nullable {
            b = b.nullable();
        }
        if self.key {
            b = b.primary_key();
        }
        if let Some((a, z)) = self.range {
            b = b.range(a, z);
        }
        if let Some((t, i)) = &self.fk {
            b = b.foreign_key(t, *i);
        }
        if let Some(c) = self.cat {
            b = b.category(cat_by_name(c).unwrap().1);
        }
        if !self.enums.is_empty() {
            let vs: Vec<&str> = self.enums.iter().map(|s| s.as_str()).collect();
            b = b.enum_values(&vs);
        }
        // half of the columns of the four categories that have a convenience finisher are built
        // through it, after an explicit category of another kind (documented: `id_string(n)` is
        // `category(Identifier).string(n)`, so the finisher's category is the one that counts)
        let via_finisher = self.name.len() % 2 == 0;
        match (&self.ct, self.cat) {
            (CT::I16, _) => b.int16(),
            (CT::I32, _) => b.int32(),
            (CT::Str(n), Some("Identifier")) if via_finisher => b.category(msi::Category::Text).id_string(*n),
            (CT::Str(n), Some("Text")) if via_finisher => b.category(msi::Category::Guid).text_string(*n),
            (CT::Str(n), Some("Formatted")) if via_finisher => b.category(msi::Category::Identifier).formatted_string(*n),
            (CT::Str(0), Some("Binary")) if via_finisher => b.category(msi::Category::Text).binary(),
            (CT::Str(n), _) => b.string(*n),
        }
    }
    /// description of a real column through its public getters (foreign key is not public)
    pub fn of_msi(c: &msi::Column) -> ColDef {
        ColDef {
            name: c.name().to_string(),
            ct: match c.coltype() {
                msi::ColumnType::Int16 => CT::I16,
                msi::ColumnType::Int32 => CT::I32,
                msi::ColumnType::Str(n) => CT::Str(n),
            },
            localizable: c.is_localizable(),
            nullable: c.is_nullable(),
            key: c.is_primary_key(),
            range: c.value_range(),
            fk: None,
            cat: c.category().map(cat_name),
            enums: c.enum_values().map(|v| v.to_vec()).unwrap_or_default(),
        }
    }
    /// The documented validity rule of C07 (reference, independent of the implementation).
    /// None = the documentation is silent for this (category, string).
    pub fn ref_valid(&self, v: &V) -> Option<bool> {
        Some(match v {
            V::Null => self.nullable,
            V::Int(n) => {
                if let Some((a, z)) = self.range {
                    if *n < a || *n > z {
                        return Some(false);
                    }
                }
                match self.ct {
                    CT::I16 => *n > -32768 && *n <= 32767,
                    CT::I32 => *n > i32::MIN,
                    CT::Str(_) => false,
                }
            }
            V::Str(s) => match self.ct {
                CT::I16 | CT::I32 => false,
                CT::Str(max) => {
                    if max != 0 && s.chars().count() > max {
                        return Some(false);
                    }
                    if !self.enums.is_empty() && !self.enums.contains(s) {
                        return Some(false);
                    }
                    match self.cat {
                        Some(c) => return ref_category(c, s),
                        None => true,
                    }
                }
            },
        })
    }
}

fn is_ident(s: &str) -> bool {
    let mut cs = s.chars();
    match cs.next() {
        Some(c) if c.is_ascii_alphabetic() || c == '_' => {}
        _ => return false,
    }
    cs.all(|c| c.is_ascii_alphanumeric() || c == '_' || c == '.')
}

fn numeral_u16(p: &str) -> bool {
    if p.is_empty() || !p.chars().all(|c| c.is_ascii_digit()) {
        return false;
    }
    let t = p.trim_start_matches('0');
    t.len() <= 5 && t.parse::<u32>().map(|v| v <= 65535).unwrap_or(t.is_empty())
}

/// signed decimal text in [lo, hi]; a leading '+' is not covered by the documentation -> None
fn int_text(s: &str, lo: i64, hi: i64) -> Option<bool> {
    if s.starts_with('+') {
        return None;
    }
    let (neg, ds) = match s.strip_prefix('-') {
        Some(r) => (true, r),
        None => (false, s),
    };
    if ds.is_empty() || !ds.chars().all(|c| c.is_ascii_digit()) {
        return Some(false);
    }
    let t = ds.trim_start_matches('0');
    if t.len() > 11 {
        return Some(false);
    }
    let mag: i64 = if t.is_empty() { 0 } else { t.parse().unwrap() };
    let v = if neg { -mag } else { mag };
    Some(v >= lo && v <= hi)
}

/// Reference grammars of the categories the library documents a check for.
pub fn ref_category(cat: &str, s: &str) -> Option<bool> {
    Some(match cat {
        "UpperCase" => !s.chars().any(|c| c.is_ascii_lowercase()),
        "LowerCase" => !s.chars().any(|c| c.is_ascii_uppercase()),
        "Integer" => return int_text(s, -32768, 32767),
        "DoubleInteger" => return int_text(s, i32::MIN as i64, i32::MAX as i64),
        "Identifier" => is_ident(s),
        "Property" => is_ident(s.strip_prefix('%').unwrap_or(s)),
        "Guid" => {
            let cs: Vec<char> = s.chars().collect();
            cs.len() == 38
                && cs[0] == '{'
                && cs[37] == '}'
                && (1..37).all(|i| {
                    if [9, 14, 19, 24].contains(&i) {
                        cs[i] == '-'
                    } else {
                        cs[i].is_ascii_digit() || ('A'..='F').contains(&cs[i])
                    }
                })
        }
        "Version" => {
            let parts: Vec<&str> = s.split('.').collect();
            parts.len() <= 4 && parts.iter().all(|p| numeral_u16(p))
        }
        "Language" => s.split(',').all(numeral_u16),
        "Cabinet" => {
            if let Some(r) = s.strip_prefix('#') {
                is_ident(r)
            } else {
                let (base, ext) = match s.rfind('.') {
                    Some(i) => (&s[..i], Some(&s[i + 1..])),
                    None => (s, None),
                };
                let bl = base.chars().count();
                (1..=8).contains(&bl) && ext.map(|e| e.chars().count() <= 3).unwrap_or(true)
            }
        }
        _ => true,
    })
}
