//! Package sessions on the REAL crate: a shared in-memory medium, the package-level
//! requests of the line protocol, and the canonical snapshot shared with the Lean driver.

use crate::colfmt::*;
use crate::expr::*;
use crate::util::*;
use std::cell::RefCell;
use std::io::{self, Read, Seek, SeekFrom, Write};
use std::rc::Rc;

/// A medium whose bytes remain reachable after the package that owns it is dropped.
/// Counts the calls it receives and can inject I/O faults (C15/C16).
#[derive(Clone)]
pub struct Medium {
    pub buf: Rc<RefCell<Vec<u8>>>,
    pub pos: u64,
    pub stats: Rc<RefCell<MediumStats>>,
}

#[derive(Default, Clone, Debug)]
pub struct MediumStats {
    pub writes: u64,
    pub reads: u64,
    pub seeks: u64,
    pub flushes: u64,
    /// fail the k-th write/read/seek (0-based, counted from `armed_at`); persistent = all later ones too
    pub fail_write_at: Option<u64>,
    pub fail_read_at: Option<u64>,
    pub fail_seek_at: Option<u64>,
    pub fail_flush_at: Option<u64>,
    pub persistent: bool,
    pub failed_calls: u64,
}

impl Medium {
    pub fn new(bytes: Vec<u8>) -> Medium {
        Medium { buf: Rc::new(RefCell::new(bytes)), pos: 0, stats: Rc::new(RefCell::new(MediumStats::default())) }
    }
    pub fn snapshot_bytes(&self) -> Vec<u8> {
        self.buf.borrow().clone()
    }
}

fn injected() -> io::Error {
    io::Error::new(io::ErrorKind::Other, "injected fault")
}

fn should_fail(at: Option<u64>, n: u64, persistent: bool) -> bool {
    match at {
        Some(k) => n == k || (persistent && n > k),
        None => false,
    }
}

impl Read for Medium {
    fn read(&mut self, out: &mut [u8]) -> io::Result<usize> {
        let mut st = self.stats.borrow_mut();
        let n = st.reads;
        st.reads += 1;
        if should_fail(st.fail_read_at, n, st.persistent) {
            st.failed_calls += 1;
            return Err(injected());
        }
        drop(st);
        let buf = self.buf.borrow();
        let start = (self.pos as usize).min(buf.len());
        let k = out.len().min(buf.len() - start);
        out[..k].copy_from_slice(&buf[start..start + k]);
        self.pos += k as u64;
        Ok(k)
    }
}

impl Write for Medium {
    fn write(&mut self, data: &[u8]) -> io::Result<usize> {
        let mut st = self.stats.borrow_mut();
        let n = st.writes;
        st.writes += 1;
        if should_fail(st.fail_write_at, n, st.persistent) {
            st.failed_calls += 1;
            return Err(injected());
        }
        drop(st);
        let mut buf = self.buf.borrow_mut();
        let start = self.pos as usize;
        if buf.len() < start + data.len() {
            buf.resize(start + data.len(), 0);
        }
        buf[start..start + data.len()].copy_from_slice(data);
        self.pos += data.len() as u64;
        Ok(data.len())
    }
    fn flush(&mut self) -> io::Result<()> {
        let mut st = self.stats.borrow_mut();
        let n = st.flushes;
        st.flushes += 1;
        if should_fail(st.fail_flush_at, n, st.persistent) {
            st.failed_calls += 1;
            return Err(injected());
        }
        Ok(())
    }
}

impl Seek for Medium {
    fn seek(&mut self, from: SeekFrom) -> io::Result<u64> {
        let mut st = self.stats.borrow_mut();
        let n = st.seeks;
        st.seeks += 1;
        if should_fail(st.fail_seek_at, n, st.persistent) {
            st.failed_calls += 1;
            return Err(injected());
        }
        drop(st);
        let len = self.buf.borrow().len() as i64;
        let p = match from {
            SeekFrom::Start(x) => x as i64,
            SeekFrom::End(x) => len + x,
            SeekFrom::Current(x) => self.pos as i64 + x,
        };
        if p < 0 {
            return Err(io::Error::new(io::ErrorKind::InvalidInput, "negative seek"));
        }
        self.pos = p as u64;
        Ok(self.pos)
    }
}

pub type Pkg = msi::Package<Medium>;

pub fn kind_name(e: &io::Error) -> &'static str {
    match e.kind() {
        io::ErrorKind::NotFound => "NotFound",
        io::ErrorKind::AlreadyExists => "AlreadyExists",
        io::ErrorKind::InvalidInput => "InvalidInput",
        io::ErrorKind::InvalidData => "InvalidData",
        io::ErrorKind::UnexpectedEof => "UnexpectedEof",
        _ => "Other",
    }
}

pub fn res_unit(r: io::Result<()>) -> String {
    match r {
        Ok(()) => "ok".into(),
        Err(e) => format!("err {}", kind_name(&e)),
    }
}

pub fn ptype_of(n: usize) -> msi::PackageType {
    match n {
        0 => msi::PackageType::Installer,
        1 => msi::PackageType::Patch,
        _ => msi::PackageType::Transform,
    }
}

pub fn ptype_num(p: msi::PackageType) -> usize {
    match p {
        msi::PackageType::Installer => 0,
        msi::PackageType::Patch => 1,
        msi::PackageType::Transform => 2,
    }
}

pub const CLSIDS: [&str; 3] = [
    "000C1084-0000-0000-C000-000000000046",
    "000C1086-0000-0000-C000-000000000046",
    "000C1082-0000-0000-C000-000000000046",
];

/// query in wire form -> msi::Select; returns tokens consumed
pub fn parse_select(toks: &[&str]) -> Option<(msi::Select, usize)> {
    if toks.first() != Some(&"SEL") {
        return None;
    }
    let k: usize = toks.get(1)?.parse().ok()?;
    let mut cols: Vec<String> = vec![];
    for i in 0..k {
        cols.push(str_of_hex(toks.get(2 + i)?)?);
    }
    let mut pos = 2 + k;
    let cond = if *toks.get(pos)? == "-" {
        pos += 1;
        None
    } else {
        let (e, n) = E::parse(&toks[pos..])?;
        pos += n;
        Some(e)
    };
    let (mut sel, n) = parse_join(&toks[pos..])?;
    pos += n;
    // the projection is what the LAST `columns()` call says (an empty list = every column):
    // built the direct way or by overriding an earlier call, depending on the query
    let roundabout = (toks.len() + cols.len()) % 2 == 1;
    if !cols.is_empty() {
        if roundabout {
            sel = sel.columns(&cols[..1]).columns(&cols);
        } else {
            sel = sel.columns(&cols);
        }
    } else if roundabout {
        sel = sel.columns(&["Overridden"]).columns(&Vec::<String>::new());
    }
    if let Some(e) = cond {
        // a conjunction at the top is handed over in two `with()` calls (which AND their
        // arguments): the same query, built the other way the API offers
        match e {
            E::Bin("and", a, b) => sel = sel.with(a.to_msi()).with(b.to_msi()),
            e => sel = sel.with(e.to_msi()),
        }
    }
    Some((sel, pos))
}

fn parse_join(toks: &[&str]) -> Option<(msi::Select, usize)> {
    match *toks.first()? {
        "T" => Some((msi::Select::table(str_of_hex(toks.get(1)?)?), 2)),
        j @ ("IJ" | "LJ") => {
            let (l, n1) = parse_select(&toks[1..])?;
            let (r, n2) = parse_select(&toks[1 + n1..])?;
            let (e, n3) = E::parse(&toks[1 + n1 + n2..])?;
            let s = if j == "IJ" { l.inner_join(r, e.to_msi()) } else { l.left_join(r, e.to_msi()) };
            Some((s, 1 + n1 + n2 + n3))
        }
        _ => None,
    }
}

pub fn cols_tok(cols: &[msi::Column]) -> String {
    cols.iter().map(|c| ColDef::of_msi(c).tok()).collect::<Vec<_>>().join("|")
}

pub fn rows_reply(rows: msi::Rows) -> String {
    let cols = cols_tok(rows.columns());
    let n = rows.len();
    let names: Vec<String> = rows.columns().iter().map(|c| c.name().to_string()).collect();
    let mut parts: Vec<String> = vec![];
    // the read side of the API, checked against itself on every result: size hints while
    // iterating, columns of a row = columns of the result, a value by column name = the value at
    // the first column of exactly that name, has_column
    let mut flaw: Option<String> = None;
    let mut note = |f: String| {
        if flaw.is_none() {
            flaw = Some(f);
        }
    };
    let mut rows = rows;
    let mut left = n;
    loop {
        if rows.size_hint() != (left, Some(left)) {
            note(format!("size_hint {:?} with {left} rows left", rows.size_hint()));
        }
        let row = match rows.next() {
            Some(r) => r,
            None => break,
        };
        left = left.saturating_sub(1);
        if row.len() != names.len() || row.is_empty() != names.is_empty() {
            note(format!("row of {} values for {} columns", row.len(), names.len()));
        }
        if row.columns().iter().map(|c| c.name()).ne(names.iter().map(|s| s.as_str())) {
            note("columns of a row differ from the columns of the result".into());
        }
        for (i, nm) in names.iter().enumerate() {
            let first = names.iter().position(|x| x == nm).unwrap();
            if first == i && i < row.len() {
                if !row.has_column(nm) {
                    note(format!("has_column({nm:?}) is false"));
                } else if row[nm.as_str()] != row[i] {
                    note(format!("row[{nm:?}] is not the value of column {i}"));
                }
            }
        }
        if row.has_column("\u{1}no such column") {
            note("has_column of an absent name is true".into());
        }
        let vals: Vec<String> = (0..row.len()).map(|i| V::of_msi(&row[i]).tok()).collect();
        parts.push(format!("r:{}", vals.join(",")));
    }
    if left != 0 {
        note(format!("iteration ended with {left} of the {n} reported rows missing"));
    }
    // positioned past the end (nth / skip / step_by do this): still nothing left, length 0
    if rows.nth(2).is_some() || rows.next().is_some() {
        note("a row after the last one".into());
    }
    if rows.size_hint() != (0, Some(0)) || rows.len() != 0 {
        note(format!("size_hint {:?} after the last row", rows.size_hint()));
    }
    match flaw {
        None => format!("cols={} n={} {}", cols, n, parts.join(" ")),
        Some(f) => format!("cols={} n={} {} READAPI:{}", cols, n, parts.join(" "), f.replace(' ', "_")),
    }
}

fn opt_str(s: Option<&str>) -> String {
    match s {
        Some(x) => hex_of_str(x),
        None => "-".into(),
    }
}

pub fn summary_tok(si: &msi::SummaryInfo) -> String {
    let ct = match si.creation_time() {
        Some(t) => {
            let (a, b) = crate::exec::secs_nanos_of(t);
            format!("{a}.{b}")
        }
        None => "-".into(),
    };
    let uu = match si.uuid() {
        Some(u) => u.simple().to_string(),
        None => "-".into(),
    };
    let wc = match si.word_count() {
        Some(n) => n.to_string(),
        None => "-".into(),
    };
    let langs: Vec<String> = si.languages().iter().map(|l| l.code().to_string()).collect();
    format!(
        "arch={} author={} cp={} comments={} app={} ctime={} langs={} subject={} title={} uuid={} wc={}",
        opt_str(si.arch()),
        opt_str(si.author()),
        si.codepage().id(),
        opt_str(si.comments()),
        opt_str(si.creating_application()),
        ct,
        langs.join(","),
        opt_str(si.subject()),
        opt_str(si.title()),
        uu,
        wc
    )
}


/// the contents of a stream, read in several ways that must agree: to the end at once; in small
/// pieces; a few bytes and then the rest; from a position sought to (from the start, from the
/// end, relative).  `Err(reply)` for an error of the first read or a disagreement (`STREAMAPI:`).
pub fn read_stream_checked<F: Read + Seek>(pkg: &mut msi::Package<F>, name: &str) -> Result<Vec<u8>, String> {
    let mut data = vec![];
    match pkg.read_stream(name) {
        Ok(mut r) => {
            if let Err(e) = r.read_to_end(&mut data) {
                return Err(format!("err {}", kind_name(&e)));
            }
        }
        Err(e) => return Err(format!("err {}", kind_name(&e))),
    }
    let bad = |what: &str| Err(format!("STREAMAPI:{}", what.replace(' ', "_")));
    let len = data.len();
    // in pieces of seven bytes
    {
        let mut r = match pkg.read_stream(name) {
            Ok(r) => r,
            Err(_) => return bad("second read_stream failed"),
        };
        let mut got = vec![];
        let mut buf = [0u8; 7];
        loop {
            match r.read(&mut buf) {
                Ok(0) => break,
                Ok(k) => got.extend_from_slice(&buf[..k]),
                Err(_) => return bad("read in pieces failed"),
            }
            if got.len() > len + 64 {
                break;
            }
        }
        if got != data {
            return bad("read in pieces differs from read_to_end");
        }
        // at the end: nothing more, also through read_to_end
        let mut more = vec![];
        match r.read_to_end(&mut more) {
            Ok(0) if more.is_empty() => {}
            _ => return bad("read_to_end at the end of the stream returned something"),
        }
    }
    // a few bytes, then the rest
    for k in [1usize, 5, len / 2] {
        if k == 0 || k > len {
            continue;
        }
        let mut r = match pkg.read_stream(name) {
            Ok(r) => r,
            Err(_) => return bad("read_stream failed again"),
        };
        let mut head = vec![0u8; k];
        if r.read_exact(&mut head).is_err() || head[..] != data[..k] {
            return bad("read_exact of the first bytes differs");
        }
        let mut rest = vec![0xEEu8; 3];
        match r.read_to_end(&mut rest) {
            Ok(n) if n == len - k && rest[..3] == [0xEE; 3] && rest[3..] == data[k..] => {}
            _ => return bad("read_to_end after a partial read differs from the rest of the stream"),
        }
    }
    // positions sought to
    {
        let mut r = match pkg.read_stream(name) {
            Ok(r) => r,
            Err(_) => return bad("read_stream failed again"),
        };
        for (pos, want) in [
            (SeekFrom::Start((len / 3) as u64), len / 3),
            (SeekFrom::End(-((len / 4) as i64)), len - len / 4),
            (SeekFrom::Start(0), 0),
            (SeekFrom::End(0), len),
        ] {
            match r.seek(pos) {
                Ok(p) if p as usize == want => {}
                _ => return bad("seek returned another position"),
            }
            let mut rest = vec![];
            match r.read_to_end(&mut rest) {
                Ok(n) if n == len - want && rest[..] == data[want..] => {}
                _ => return bad("read_to_end after a seek differs from the rest of the stream"),
            }
            match r.seek(SeekFrom::Current(0)) {
                Ok(p) if p as usize == len => {}
                _ => return bad("position after read_to_end is not the end"),
            }
        }
    }
    Ok(data)
}

fn pkg_col_names(rows: &msi::Rows) -> Vec<String> {
    rows.columns().iter().map(|c| c.name().to_string()).collect()
}

pub fn snapshot(pkg: &mut Pkg) -> String {
    let names: Vec<String> = pkg.tables().map(|t| t.name().to_string()).collect();
    let mut tabs: Vec<String> = vec![];
    for name in names {
        let mut cols = cols_tok(pkg.get_table(&name).unwrap().columns());
        // the accessors by name hand out what the list holds: each listed column is found under its
        // own name (the first of that name), no other name is; the key columns are the flagged ones
        {
            let t = pkg.get_table(&name).unwrap();
            let list = t.columns();
            let mut bad: Option<String> = None;
            for c in list.iter() {
                let first = list.iter().find(|d| d.name() == c.name()).unwrap();
                let same = |a: &msi::Column, b: &msi::Column| cols_tok(std::slice::from_ref(a)) == cols_tok(std::slice::from_ref(b));
                match t.get_column(c.name()) {
                    Some(g) if same(g, first) => {}
                    _ => bad = Some(format!("get_column({:?}) is not the listed column", c.name())),
                }
                if !t.has_column(c.name()) {
                    bad = Some(format!("has_column({:?}) is false for a listed column", c.name()));
                }
                let swapped: String = c.name().chars().map(|ch| if ch.is_ascii_lowercase() { ch.to_ascii_uppercase() } else { ch.to_ascii_lowercase() }).collect();
                for odd in [format!("{}.{}", name, c.name()), format!("{} ", c.name()), c.name().to_lowercase() + "_", swapped, name.clone(), format!("{name}.")] {
                    if !list.iter().any(|d| d.name() == odd) && (t.has_column(&odd) || t.get_column(&odd).is_some()) {
                        bad = Some(format!("has_column / get_column find {:?}, which is not listed", odd));
                    }
                }
            }
            let keys: Vec<usize> = list.iter().enumerate().filter(|(_, c)| c.is_primary_key()).map(|(i, _)| i).collect();
            if t.primary_key_indices() != keys {
                bad = Some(format!("primary_key_indices() = {:?}, flagged columns {:?}", t.primary_key_indices(), keys));
            }
            if t.name() != name {
                bad = Some("Table::name() differs from the listed name".into());
            }
            if let Some(b) = bad {
                cols = format!("{} READAPI:{}", cols, b.replace(' ', "_"));
            }
        }
        let rows = match pkg.select_rows(msi::Select::table(name.as_str())) {
            Ok(rows) => {
                let n = rows.len();
                let mut parts: Vec<String> = vec![];
                let listed: Vec<String> = pkg_col_names(&rows);
                for row in rows {
                    let vals: Vec<String> = (0..row.len()).map(|i| V::of_msi(&row[i]).tok()).collect();
                    // a row indexed by a column's name gives the cell of the first column of that name
                    for (i, cn) in listed.iter().enumerate() {
                        let first = listed.iter().position(|d| d == cn).unwrap();
                        if row.has_column(cn) && V::of_msi(&row[cn.as_str()]).tok() != vals[first] {
                            cols = format!("{} READAPI:row[{:?}]_is_not_cell_{}", cols, cn, first);
                        }
                        let _ = i;
                    }
                    parts.push(format!("r:{}", vals.join(",")));
                }
                format!("n={} {}", n, parts.join(" "))
            }
            Err(e) => format!("ERR:{}", kind_name(&e)),
        };
        tabs.push(format!("T[{} {} {}]", hex_of_str(&name), cols, rows));
    }
    let stream_names: Vec<String> = pkg.streams().collect();
    let mut strs: Vec<String> = vec![];
    for n in stream_names {
        let item = match read_stream_checked(pkg, &n) {
            Ok(data) => format!("{}={}", hex_of_str(&n), hex_of_bytes(&data)),
            Err(e) if e.starts_with("STREAMAPI:") => format!("{}={}", hex_of_str(&n), e),
            Err(e) => format!("{}=ERR:{}", hex_of_str(&n), &e[4..]),
        };
        strs.push(item);
    }
    strs.sort();
    format!(
        "pt={} cp={} {} S[{}] I[{}] sig={}",
        ptype_num(pkg.package_type()),
        pkg.database_codepage().id(),
        tabs.join(" "),
        strs.join(" "),
        summary_tok(pkg.summary_info()),
        pkg.has_digital_signature() as i32
    )
}

/// every stream of a compound file, by raw name (cfb only; the library is not involved)
pub fn raw_streams(bytes: &[u8]) -> io::Result<Vec<(String, Vec<u8>)>> {
    let mut comp = cfb::CompoundFile::open(io::Cursor::new(bytes.to_vec()))?;
    let mut names: Vec<String> = vec![];
    for e in comp.read_root_storage() {
        if e.is_stream() {
            names.push(e.name().to_string());
        }
    }
    let mut out = vec![];
    for n in names {
        let mut data = vec![];
        comp.open_stream(format!("/{n}"))?.read_to_end(&mut data)?;
        out.push((n, data));
    }
    Ok(out)
}

pub fn raw_tok(bytes: &[u8]) -> String {
    match raw_streams(bytes) {
        Ok(list) => {
            let mut items: Vec<String> =
                list.iter().map(|(n, d)| format!("{}={}", hex_of_str(n), hex_of_bytes(d))).collect();
            items.sort();
            items.join(" ")
        }
        Err(e) => format!("raw-err {}", kind_name(&e)),
    }
}

/// build a compound file from raw streams with the cfb crate only
pub fn build_container(ptype: Option<usize>, entries: &[(String, Vec<u8>)]) -> io::Result<Vec<u8>> {
    let cur = io::Cursor::new(Vec::new());
    let mut comp = cfb::CompoundFile::create(cur)?;
    let clsid = match ptype {
        Some(p) => uuid::Uuid::parse_str(CLSIDS[p.min(2)]).unwrap(),
        None => uuid::Uuid::parse_str("00020906-0000-0000-C000-000000000046").unwrap(),
    };
    comp.set_storage_clsid("/", clsid)?;
    for (n, d) in entries {
        let mut st = comp.create_stream(format!("/{n}"))?;
        st.write_all(d)?;
        st.flush()?;
    }
    comp.flush()?;
    Ok(comp.into_inner().into_inner())
}

pub fn parse_entries(t: &str) -> Option<Vec<(String, Vec<u8>)>> {
    if t == "-" {
        return Some(vec![]);
    }
    t.split(';')
        .map(|kv| {
            let (k, v) = kv.split_once('=')?;
            Some((str_of_hex(k)?, bytes_of_hex(v)?))
        })
        .collect()
}
