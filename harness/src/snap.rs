//! Parser of the canonical `snapshot` reply.

use crate::colfmt::*;
use crate::expr::V;
use std::collections::BTreeMap;

#[derive(Clone, Debug, PartialEq)]
pub struct TableSnap {
    pub cols: Vec<ColDef>,
    pub rows: Result<Vec<Vec<V>>, String>,
}

#[derive(Clone, Debug, PartialEq)]
pub struct Snap {
    pub pt: usize,
    pub cp: i64,
    pub tables: BTreeMap<String, TableSnap>,
    /// stream name (hex) -> contents (hex) or ERR:..
    pub streams: BTreeMap<String, String>,
    pub summary: String,
    pub sig: bool,
}

pub fn parse_rows(s: &str) -> Option<Vec<Vec<V>>> {
    // "n=<k> r:a,b r:c,d"
    let mut it = s.split(' ').filter(|x| !x.is_empty());
    let n: usize = it.next()?.strip_prefix("n=")?.parse().ok()?;
    let mut rows = vec![];
    for r in it {
        let body = r.strip_prefix("r:")?;
        rows.push(body.split(',').map(V::parse).collect::<Option<Vec<_>>>()?);
    }
    if rows.len() != n {
        return None;
    }
    Some(rows)
}

pub fn parse_cols(s: &str) -> Option<Vec<ColDef>> {
    s.split('|').map(ColDef::parse).collect()
}

impl Snap {
    pub fn parse(s: &str) -> Option<Snap> {
        let rest = s.strip_prefix("pt=")?;
        let (pt, rest) = rest.split_once(' ')?;
        let rest = rest.strip_prefix("cp=")?;
        let (cp, mut rest) = rest.split_once(' ')?;
        let mut tables = BTreeMap::new();
        while let Some(r) = rest.strip_prefix("T[") {
            let end = r.find(']')?;
            let body = &r[..end];
            let mut parts = body.splitn(3, ' ');
            let name = crate::util::str_of_hex(parts.next()?)?;
            let cols = parse_cols(parts.next()?)?;
            let rows_s = parts.next().unwrap_or("");
            let rows = if rows_s.starts_with("ERR:") || rows_s == "PANIC" {
                Err(rows_s.to_string())
            } else {
                Ok(parse_rows(rows_s)?)
            };
            tables.insert(name, TableSnap { cols, rows });
            rest = r[end + 1..].trim_start();
        }
        let r = rest.strip_prefix("S[")?;
        let end = r.find(']')?;
        let mut streams = BTreeMap::new();
        for item in r[..end].split(' ').filter(|x| !x.is_empty()) {
            let (k, v) = item.split_once('=')?;
            streams.insert(k.to_string(), v.to_string());
        }
        let rest = r[end + 1..].trim_start();
        let r = rest.strip_prefix("I[")?;
        let end = r.find(']')?;
        let summary = r[..end].to_string();
        let rest = r[end + 1..].trim_start();
        let sig = rest.strip_prefix("sig=")? == "1";
        Some(Snap { pt: pt.parse().ok()?, cp: cp.parse().ok()?, tables, streams, summary, sig })
    }

    pub fn summary_field(&self, key: &str) -> Option<String> {
        for kv in self.summary.split(' ') {
            if let Some((k, v)) = kv.split_once('=') {
                if k == key {
                    return Some(v.to_string());
                }
            }
        }
        None
    }
}
