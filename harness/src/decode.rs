//! An independent decoder (and encoder) of the MSI database format, written from the
//! format description only: string pool with 2/3-byte references and the long-string
//! escape, column-major offset-binary tables, catalog tables, stream-name packing.
//! It shares no code with the library; it is the oracle of C02 and C08.

use crate::colfmt::*;
use crate::expr::V;
use std::collections::BTreeMap;

#[derive(Clone, Debug, PartialEq)]
pub enum CellD {
    Null,
    Int(i32),
    Ref(u32),
}

#[derive(Clone, Debug)]
pub struct Decoded {
    pub cp_id: u32,
    pub long_refs: bool,
    pub pool: Vec<(Vec<u8>, u16)>, // raw bytes of each entry, refcount
    pub pool_text: Vec<String>,
    /// table name -> (columns (name, type bits), rows of cells)
    pub tables: BTreeMap<String, (Vec<(String, i32)>, Vec<Vec<CellD>>)>,
    pub problems: Vec<String>,
}

pub fn unpack_name(raw: &str) -> (String, bool) {
    let mut out = String::new();
    let mut is_table = false;
    for (i, ch) in raw.chars().enumerate() {
        let v = ch as u32;
        if i == 0 && v == 0x4840 {
            is_table = true;
            continue;
        }
        let b64 = |x: u32| -> char {
            match x {
                0..=9 => (b'0' + x as u8) as char,
                10..=35 => (b'A' + (x - 10) as u8) as char,
                36..=61 => (b'a' + (x - 36) as u8) as char,
                62 => '.',
                _ => '_',
            }
        };
        if (0x3800..0x4800).contains(&v) {
            let w = v - 0x3800;
            out.push(b64(w & 63));
            out.push(b64(w >> 6));
        } else if (0x4800..0x4840).contains(&v) {
            out.push(b64(v - 0x4800));
        } else {
            out.push(ch);
        }
    }
    (out, is_table)
}

pub fn pack_name(name: &str, is_table: bool) -> String {
    let val = |c: char| -> Option<u32> {
        match c {
            '0'..='9' => Some(c as u32 - '0' as u32),
            'A'..='Z' => Some(10 + c as u32 - 'A' as u32),
            'a'..='z' => Some(36 + c as u32 - 'a' as u32),
            '.' => Some(62),
            '_' => Some(63),
            _ => None,
        }
    };
    let cs: Vec<char> = name.chars().collect();
    let mut out = String::new();
    if is_table {
        out.push('\u{4840}');
    }
    let mut i = 0;
    while i < cs.len() {
        match val(cs[i]) {
            Some(a) => {
                if i + 1 < cs.len() {
                    if let Some(b) = val(cs[i + 1]) {
                        out.push(char::from_u32(0x3800 + (b << 6) + a).unwrap());
                        i += 2;
                        continue;
                    }
                }
                out.push(char::from_u32(0x4800 + a).unwrap());
                i += 1;
            }
            None => {
                out.push(cs[i]);
                i += 1;
            }
        }
    }
    out
}

fn u16at(b: &[u8], i: usize) -> Option<u32> {
    Some(*b.get(i)? as u32 | (*b.get(i + 1)? as u32) << 8)
}
fn u32at(b: &[u8], i: usize) -> Option<u32> {
    Some(u16at(b, i)? | u16at(b, i + 2)? << 16)
}

pub fn decode_text(cp_id: u32, bytes: &[u8]) -> String {
    let name = crate::exec::ALL_CP.iter().find(|p| p.1.id() as u32 == cp_id).map(|p| p.0);
    match name {
        Some("UsAscii") => bytes.iter().map(|&b| if b < 128 { b as char } else { '\u{fffd}' }).collect(),
        Some(n) => match crate::exec::expected_encoding(n) {
            Some(e) => e.decode_without_bom_handling(bytes).0.into_owned(),
            None => String::from_utf8_lossy(bytes).into_owned(),
        },
        None => String::from_utf8_lossy(bytes).into_owned(),
    }
}

/// widths by type word: string bit 0x800 -> reference, else field size 4 -> 4 bytes, else 2
fn width(bits: i32, long: bool) -> usize {
    if bits & 0x800 != 0 {
        if long { 3 } else { 2 }
    } else if bits & 0xff == 4 {
        4
    } else {
        2
    }
}

fn read_table(data: &[u8], types: &[i32], long: bool, problems: &mut Vec<String>, what: &str) -> Vec<Vec<CellD>> {
    let row_size: usize = types.iter().map(|&t| width(t, long)).sum();
    if row_size == 0 {
        return vec![];
    }
    if data.len() % row_size != 0 {
        problems.push(format!("stream of table {what} is not a whole number of rows ({} bytes, row size {row_size})", data.len()));
    }
    let n = data.len() / row_size;
    let mut rows: Vec<Vec<CellD>> = vec![vec![]; n];
    let mut off = 0;
    for &t in types {
        let w = width(t, long);
        for row in rows.iter_mut() {
            let cell = if t & 0x800 != 0 {
                let mut v = u16at(data, off).unwrap();
                if long {
                    v |= (data[off + 2] as u32) << 16;
                }
                if v == 0 { CellD::Null } else { CellD::Ref(v) }
            } else if w == 4 {
                let v = u32at(data, off).unwrap();
                if v == 0 { CellD::Null } else { CellD::Int((v ^ 0x8000_0000) as i32) }
            } else {
                let v = u16at(data, off).unwrap();
                if v == 0 { CellD::Null } else { CellD::Int((v as i32) - 0x8000) }
            };
            row.push(cell);
            off += w;
        }
    }
    rows
}

pub fn decode(entries: &[(String, Vec<u8>)]) -> Result<Decoded, String> {
    let mut by_name: BTreeMap<String, &Vec<u8>> = BTreeMap::new();
    for (raw, data) in entries {
        let (n, is_table) = unpack_name(raw);
        if is_table {
            by_name.insert(n, data);
        }
    }
    let pool_b = by_name.get("_StringPool").ok_or("no _StringPool stream")?;
    let data_b = by_name.get("_StringData").ok_or("no _StringData stream")?;
    let hdr = u32at(pool_b, 0).ok_or("short pool header")?;
    let long_refs = hdr & 0x8000_0000 != 0;
    let cp_id = hdr & 0x7fff_ffff;
    let mut problems = vec![];
    let mut pool: Vec<(Vec<u8>, u16)> = vec![];
    let mut i = 4;
    let mut off = 0usize;
    while i + 4 <= pool_b.len() {
        let mut len = u16at(pool_b, i).unwrap() as usize;
        let mut rc = u16at(pool_b, i + 2).unwrap();
        i += 4;
        if len == 0 && rc != 0 {
            // long-string escape: high word of the length here, low word and refcount in the next pair
            let lo = u16at(pool_b, i).ok_or("truncated long-string entry")? as usize;
            let rc2 = u16at(pool_b, i + 2).ok_or("truncated long-string entry")?;
            len = (rc as usize) << 16 | lo;
            rc = rc2;
            i += 4;
        }
        if off + len > data_b.len() {
            return Err(format!("string data too short for entry {}", pool.len() + 1));
        }
        pool.push((data_b[off..off + len].to_vec(), rc as u16));
        off += len;
    }
    if i != pool_b.len() {
        problems.push("trailing bytes in _StringPool".into());
    }
    if off != data_b.len() {
        problems.push(format!("{} unaccounted bytes at the end of _StringData", data_b.len() - off));
    }
    let pool_text: Vec<String> = pool.iter().map(|(b, _)| decode_text(cp_id, b)).collect();
    let text = |c: &CellD| -> Option<String> {
        match c {
            CellD::Ref(n) => pool_text.get(*n as usize - 1).cloned(),
            _ => None,
        }
    };
    // catalog: _Tables(Name s), _Columns(Table s, Number i2, Name s, Type i2)
    let empty = Vec::new();
    let t_rows = read_table(by_name.get("_Tables").copied().unwrap_or(&empty), &[0x800 | 64], long_refs, &mut problems, "_Tables");
    let c_rows = read_table(by_name.get("_Columns").copied().unwrap_or(&empty), &[0x800 | 64, 2, 0x800 | 64, 2], long_refs, &mut problems, "_Columns");
    let mut tables: BTreeMap<String, (Vec<(String, i32)>, Vec<Vec<CellD>>)> = BTreeMap::new();
    let mut names = vec![];
    for r in &t_rows {
        match text(&r[0]) {
            Some(n) => names.push(n),
            None => problems.push("_Tables row without a name".into()),
        }
    }
    for n in &names {
        let mut cols: Vec<(i32, String, i32)> = vec![];
        for r in &c_rows {
            if text(&r[0]).as_deref() == Some(n.as_str()) {
                let num = match r[1] { CellD::Int(x) => x, _ => -1 };
                let ty = match r[3] { CellD::Int(x) => x, _ => 0 };
                cols.push((num, text(&r[2]).unwrap_or_default(), ty));
            }
        }
        cols.sort();
        for (k, c) in cols.iter().enumerate() {
            if c.0 != k as i32 + 1 {
                problems.push(format!("columns of {n} are not numbered 1..n"));
                break;
            }
        }
        let types: Vec<i32> = cols.iter().map(|c| c.2).collect();
        let rows = read_table(by_name.get(n.as_str()).copied().unwrap_or(&empty), &types, long_refs, &mut problems, n);
        tables.insert(n.clone(), (cols.iter().map(|c| (c.1.clone(), c.2)).collect(), rows));
    }
    for r in &c_rows {
        if let Some(t) = text(&r[0]) {
            if !names.contains(&t) {
                problems.push(format!("_Columns mentions {t}, which is not in _Tables"));
            }
        }
    }
    tables.insert("_Tables".into(), (vec![("Name".into(), 0x800 | 64)], t_rows));
    tables.insert(
        "_Columns".into(),
        (vec![("Table".into(), 0x840), ("Number".into(), 2), ("Name".into(), 0x840), ("Type".into(), 2)], c_rows),
    );
    for (n, _) in by_name.iter() {
        if !tables.contains_key(n.as_str()) && n != "_StringPool" && n != "_StringData" {
            problems.push(format!("table stream {n} is not listed in _Tables"));
        }
    }
    Ok(Decoded { cp_id, long_refs, pool, pool_text, tables, problems })
}

impl Decoded {
    pub fn value(&self, c: &CellD) -> V {
        match c {
            CellD::Null => V::Null,
            CellD::Int(n) => V::Int(*n),
            CellD::Ref(n) => V::Str(self.pool_text.get(*n as usize - 1).cloned().unwrap_or_default()),
        }
    }
    /// exact string accounting (C08)
    pub fn accounting_problems(&self) -> Vec<String> {
        let mut out = vec![];
        let mut counts = vec![0u32; self.pool.len()];
        for (name, (_, rows)) in &self.tables {
            for r in rows {
                for c in r {
                    if let CellD::Ref(n) = c {
                        let i = *n as usize;
                        if i == 0 || i > self.pool.len() {
                            out.push(format!("table {name} holds string reference {n} beyond the pool ({} entries)", self.pool.len()));
                        } else {
                            counts[i - 1] += 1;
                        }
                    }
                }
            }
        }
        for (i, ((bytes, rc), cnt)) in self.pool.iter().zip(counts.iter()).enumerate() {
            if *rc as u32 != *cnt {
                out.push(format!("pool entry {} ({:?}) has reference count {} but {} cells refer to it", i + 1, self.pool_text[i], rc, cnt));
            }
            if *rc == 0 && !bytes.is_empty() {
                out.push(format!("unused pool entry {} still holds text {:?}", i + 1, self.pool_text[i]));
            }
            if *rc > 0 && bytes.is_empty() {
                out.push(format!("live pool entry {} is the empty string", i + 1));
            }
        }
        out
    }
}

// ------------------------------------------------------------------------------------
// independent ENCODER (C02): layout choices are explicit

pub struct EncLayout {
    pub long_refs: bool,
    pub cp_id: u32,
    /// pool entries to place before/among the real strings: (text, refcount) with refcount 0 = hole
    pub filler: Vec<(String, u16)>,
    /// extra refcount added to every live entry (over-counted refcounts)
    pub overcount: u16,
    /// duplicate each string into two entries, alternating references
    pub duplicate: bool,
    pub with_validation: bool,
    /// reverse the row order of user tables (unsorted rows)
    pub reverse_rows: bool,
    /// integer field size byte for 16-bit columns: 2 or 1
    pub int16_size: i32,
}

#[derive(Clone)]
pub struct EncTable {
    pub name: String,
    pub cols: Vec<ColDef>,
    pub rows: Vec<Vec<V>>,
}

fn type_bits(c: &ColDef, layout: &EncLayout) -> i32 {
    let mut b = match c.ct {
        CT::I16 => layout.int16_size,
        CT::I32 => 4,
        CT::Str(n) => 0x800 | (n as i32 & 0xff),
    };
    b |= 0x100;
    if c.localizable { b |= 0x200; }
    if c.nullable { b |= 0x1000; }
    if c.key { b |= 0x2000; }
    if !matches!(c.ct, CT::I32) { b |= 0x400; }
    b
}

pub struct Encoder<'a> {
    layout: &'a EncLayout,
    pool: Vec<(Vec<u8>, u16)>,
    index: BTreeMap<String, Vec<u32>>,
    flip: BTreeMap<String, usize>,
}

impl<'a> Encoder<'a> {
    fn encode_text(&self, s: &str) -> Vec<u8> {
        let name = crate::exec::ALL_CP.iter().find(|p| p.1.id() as u32 == self.layout.cp_id).map(|p| p.0);
        match name {
            Some("UsAscii") => s.bytes().collect(),
            Some(n) => match crate::exec::expected_encoding(n) {
                Some(e) => {
                    let mut out = vec![];
                    for c in s.chars() {
                        out.extend(crate::exec::expected_char(e, c).unwrap_or_else(|| vec![b'?']));
                    }
                    out
                }
                None => s.as_bytes().to_vec(),
            },
            None => s.as_bytes().to_vec(),
        }
    }
    fn intern(&mut self, s: &str) -> u32 {
        if !self.index.contains_key(s) {
            let bytes = self.encode_text(s);
            let mut ids = vec![];
            let copies = if self.layout.duplicate { 2 } else { 1 };
            for _ in 0..copies {
                self.pool.push((bytes.clone(), 0));
                ids.push(self.pool.len() as u32);
            }
            self.index.insert(s.to_string(), ids);
        }
        let ids = self.index.get(s).unwrap().clone();
        let k = self.flip.entry(s.to_string()).or_insert(0);
        let id = ids[*k % ids.len()];
        *k += 1;
        self.pool[id as usize - 1].1 += 1;
        id
    }
    fn cell(&mut self, bits: i32, v: &V, out: &mut Vec<u8>) {
        let long = self.layout.long_refs;
        if bits & 0x800 != 0 {
            let id = match v {
                V::Str(s) if !s.is_empty() => self.intern(s),
                _ => 0,
            };
            out.extend_from_slice(&(id as u16).to_le_bytes());
            if long {
                out.push((id >> 16) as u8);
            }
        } else if bits & 0xff == 4 {
            let w: u32 = match v {
                V::Int(n) => (*n as u32) ^ 0x8000_0000,
                _ => 0,
            };
            out.extend_from_slice(&w.to_le_bytes());
        } else {
            let w: u16 = match v {
                V::Int(n) => ((*n + 0x8000) & 0xffff) as u16,
                _ => 0,
            };
            out.extend_from_slice(&w.to_le_bytes());
        }
    }
    fn table_bytes(&mut self, types: &[i32], rows: &[Vec<V>]) -> Vec<u8> {
        let mut out = vec![];
        for (i, &t) in types.iter().enumerate() {
            for r in rows {
                self.cell(t, &r[i], &mut out);
            }
        }
        out
    }
}

/// encode a database into raw streams (the summary stream is supplied by the caller)
pub fn encode_db(layout: &EncLayout, tables: &[EncTable]) -> Vec<(String, Vec<u8>)> {
    let mut enc = Encoder { layout, pool: vec![], index: BTreeMap::new(), flip: BTreeMap::new() };
    for (s, rc) in &layout.filler {
        let b = enc.encode_text(s);
        enc.pool.push((b, *rc));
    }
    let mut entries: Vec<(String, Vec<u8>)> = vec![];
    let mut t_rows: Vec<Vec<V>> = vec![];
    let mut c_rows: Vec<Vec<V>> = vec![];
    let mut v_rows: Vec<Vec<V>> = vec![];
    let mut all: Vec<&EncTable> = tables.iter().collect();
    let val_cols = validation_cols();
    let val_table = EncTable { name: "_Validation".into(), cols: val_cols.clone(), rows: vec![] };
    if layout.with_validation {
        all.push(&val_table);
    }
    for t in &all {
        t_rows.push(vec![V::Str(t.name.clone())]);
        for (i, c) in t.cols.iter().enumerate() {
            c_rows.push(vec![V::Str(t.name.clone()), V::Int(i as i32 + 1), V::Str(c.name.clone()), V::Int(type_bits(c, layout))]);
            if layout.with_validation {
                v_rows.push(vec![
                    V::Str(t.name.clone()),
                    V::Str(c.name.clone()),
                    V::Str(if c.nullable { "Y".into() } else { "N".into() }),
                    c.range.map(|r| V::Int(r.0)).unwrap_or(V::Null),
                    c.range.map(|r| V::Int(r.1)).unwrap_or(V::Null),
                    c.fk.as_ref().map(|f| V::Str(f.0.clone())).unwrap_or(V::Null),
                    c.fk.as_ref().map(|f| V::Int(f.1)).unwrap_or(V::Null),
                    c.cat.map(|k| V::Str(cat_spelling(k).to_string())).unwrap_or(V::Null),
                    if c.enums.is_empty() { V::Null } else { V::Str(c.enums.join(";")) },
                    V::Null,
                ]);
            }
        }
    }
    // user tables first (so that their strings come first in the pool), then the catalog
    for t in tables {
        let types: Vec<i32> = t.cols.iter().map(|c| type_bits(c, layout)).collect();
        let mut rows = t.rows.clone();
        if layout.reverse_rows {
            rows.reverse();
        }
        let bytes = enc.table_bytes(&types, &rows);
        entries.push((pack_name(&t.name, true), bytes));
    }
    if layout.with_validation {
        let types: Vec<i32> = val_cols.iter().map(|c| type_bits(c, layout)).collect();
        // the library reads _Validation with its own fixed schema: 16-bit KeyColumn, 32-bit Min/Max
        let bytes = enc.table_bytes(&types, &v_rows);
        entries.push((pack_name("_Validation", true), bytes));
    }
    let b = enc.table_bytes(&[0x800 | 64], &t_rows);
    entries.push((pack_name("_Tables", true), b));
    let b = enc.table_bytes(&[0x800 | 64, 2, 0x800 | 64, 2], &c_rows);
    entries.push((pack_name("_Columns", true), b));
    // pool
    let mut hdr = layout.cp_id;
    if layout.long_refs {
        hdr |= 0x8000_0000;
    }
    let mut pool_b = hdr.to_le_bytes().to_vec();
    let mut data_b = vec![];
    for (bytes, rc) in &enc.pool {
        let rc = if *rc > 0 { rc.saturating_add(layout.overcount) } else { 0 };
        let len = bytes.len();
        if len > 0xffff {
            pool_b.extend_from_slice(&0u16.to_le_bytes());
            pool_b.extend_from_slice(&((len >> 16) as u16).to_le_bytes());
        }
        pool_b.extend_from_slice(&((len & 0xffff) as u16).to_le_bytes());
        pool_b.extend_from_slice(&rc.to_le_bytes());
        data_b.extend_from_slice(bytes);
    }
    entries.push((pack_name("_StringPool", true), pool_b));
    entries.push((pack_name("_StringData", true), data_b));
    entries
}

pub fn cat_spelling(variant: &str) -> &'static str {
    match variant {
        "FormattedSddlText" => "FormattedSDDLText",
        "Guid" => "GUID",
        other => CATEGORIES.iter().find(|c| c.0 == other).map(|c| c.0).unwrap_or("Text"),
    }
}

pub fn validation_cols() -> Vec<ColDef> {
    let mut v = vec![];
    let mk = |n: &str, ct: CT, key: bool, nullable: bool| {
        let mut c = ColDef::new(n, ct);
        c.key = key;
        c.nullable = nullable;
        c
    };
    let mut t = mk("Table", CT::Str(32), true, false);
    t.cat = Some("Identifier");
    v.push(t);
    let mut c = mk("Column", CT::Str(32), true, false);
    c.cat = Some("Identifier");
    v.push(c);
    let mut n = mk("Nullable", CT::Str(4), false, false);
    n.enums = vec!["Y".into(), "N".into()];
    v.push(n);
    let mut a = mk("MinValue", CT::I32, false, true);
    a.range = Some((-0x7fff_ffff, 0x7fff_ffff));
    v.push(a.clone());
    a.name = "MaxValue".into();
    v.push(a);
    let mut k = mk("KeyTable", CT::Str(255), false, true);
    k.cat = Some("Identifier");
    v.push(k);
    let mut kc = mk("KeyColumn", CT::I16, false, true);
    kc.range = Some((1, 32));
    v.push(kc);
    let mut cat = mk("Category", CT::Str(32), false, true);
    cat.enums = CATEGORIES.iter().map(|c| cat_spelling(c.0).to_string()).collect();
    v.push(cat);
    let mut s = mk("Set", CT::Str(255), false, true);
    s.cat = Some("Text");
    v.push(s.clone());
    s.name = "Description".into();
    v.push(s);
    v
}

// ------------------------------------------------------------------------------------
// property sets: independent parser and writer (OLE property set layout only)

#[derive(Clone, Debug, PartialEq)]
pub enum PVal {
    Empty,
    Null,
    I1(i8),
    I2(i16),
    I4(i32),
    Str(Vec<u8>),
    Time(u64),
}

pub fn parse_propset(d: &[u8]) -> Option<BTreeMap<u32, PVal>> {
    if u16at(d, 0)? != 0xfffe {
        return None;
    }
    let so = u32at(d, 44)? as usize;
    let count = u32at(d, so + 4)? as usize;
    let mut out = BTreeMap::new();
    for k in 0..count {
        let id = u32at(d, so + 8 + 8 * k)?;
        let p = so + u32at(d, so + 12 + 8 * k)? as usize;
        let v = match u32at(d, p)? {
            0 => PVal::Empty,
            1 => PVal::Null,
            2 => PVal::I2(u16at(d, p + 4)? as u16 as i16),
            3 => PVal::I4(u32at(d, p + 4)? as i32),
            16 => PVal::I1(*d.get(p + 4)? as i8),
            30 => {
                let n = u32at(d, p + 4)? as usize;
                PVal::Str(d.get(p + 8..p + 8 + n.saturating_sub(1))?.to_vec())
            }
            64 => PVal::Time(u32at(d, p + 4)? as u64 | (u32at(d, p + 8)? as u64) << 32),
            _ => return None,
        };
        out.insert(id, v);
    }
    Some(out)
}

pub struct PropLayout {
    pub version: u16,
    pub os: u16,
    pub os_version: u16,
    pub section_gap: usize,   // extra bytes between the header and the section
    pub table_order: Vec<usize>, // permutation: order of the (id, offset) pairs
    pub value_order: Vec<usize>, // permutation: order of the values in the value area
    pub gaps: Vec<usize>,        // padding (multiples of 4) before each value
}

pub fn write_propset(props: &[(u32, PVal)], l: &PropLayout) -> Vec<u8> {
    let mut d: Vec<u8> = vec![0xfe, 0xff];
    d.extend_from_slice(&l.version.to_le_bytes());
    d.extend_from_slice(&l.os_version.to_le_bytes());
    d.extend_from_slice(&l.os.to_le_bytes());
    d.extend_from_slice(&[0u8; 16]);
    d.extend_from_slice(&1u32.to_le_bytes());
    d.extend_from_slice(&[0xe0, 0x85, 0x9f, 0xf2, 0xf9, 0x4f, 0x68, 0x10, 0xab, 0x91, 0x08, 0x00, 0x2b, 0x27, 0xb3, 0xd9]);
    let so = 48 + l.section_gap;
    d.extend_from_slice(&(so as u32).to_le_bytes());
    d.extend(std::iter::repeat(0xcc).take(l.section_gap));
    let enc = |v: &PVal| -> Vec<u8> {
        let mut b = vec![];
        match v {
            PVal::Empty => b.extend_from_slice(&0u32.to_le_bytes()),
            PVal::Null => b.extend_from_slice(&1u32.to_le_bytes()),
            PVal::I1(x) => {
                b.extend_from_slice(&16u32.to_le_bytes());
                b.extend_from_slice(&[*x as u8, 0, 0, 0]);
            }
            PVal::I2(x) => {
                b.extend_from_slice(&2u32.to_le_bytes());
                b.extend_from_slice(&x.to_le_bytes());
                b.extend_from_slice(&[0, 0]);
            }
            PVal::I4(x) => {
                b.extend_from_slice(&3u32.to_le_bytes());
                b.extend_from_slice(&x.to_le_bytes());
            }
            PVal::Str(s) => {
                b.extend_from_slice(&30u32.to_le_bytes());
                b.extend_from_slice(&((s.len() + 1) as u32).to_le_bytes());
                b.extend_from_slice(s);
                b.push(0);
                while b.len() % 4 != 0 {
                    b.push(0);
                }
            }
            PVal::Time(t) => {
                b.extend_from_slice(&64u32.to_le_bytes());
                b.extend_from_slice(&t.to_le_bytes());
            }
        }
        b
    };
    let n = props.len();
    let mut offsets = vec![0usize; n];
    let mut area: Vec<u8> = vec![];
    let base = 8 + 8 * n;
    for (k, &i) in l.value_order.iter().enumerate() {
        area.extend(std::iter::repeat(0u8).take(*l.gaps.get(k).unwrap_or(&0)));
        offsets[i] = base + area.len();
        area.extend(enc(&props[i].1));
    }
    let size = base + area.len();
    d.extend_from_slice(&(size as u32).to_le_bytes());
    d.extend_from_slice(&(n as u32).to_le_bytes());
    for &i in &l.table_order {
        d.extend_from_slice(&props[i].0.to_le_bytes());
        d.extend_from_slice(&(offsets[i] as u32).to_le_bytes());
    }
    d.extend(area);
    d
}

/// schema and rows as the format says (type word + optional _Validation row)
pub fn expected_tables(d: &Decoded) -> BTreeMap<String, (Vec<ColDef>, Vec<Vec<V>>)> {
    let mut out = BTreeMap::new();
    let val = d.tables.get("_Validation");
    for (name, (cols, rows)) in &d.tables {
        if name == "_Tables" || name == "_Columns" {
            continue;
        }
        let mut defs = vec![];
        for (cn, bits) in cols {
            let ct = if bits & 0x800 != 0 {
                CT::Str((bits & 0xff) as usize)
            } else if bits & 0xff == 4 {
                CT::I32
            } else {
                CT::I16
            };
            let mut c = ColDef::new(cn, ct);
            c.localizable = bits & 0x200 != 0;
            c.nullable = bits & 0x1000 != 0;
            c.key = bits & 0x2000 != 0;
            if let Some((_, vrows)) = val {
                for vr in vrows {
                    if d.value(&vr[0]) == V::Str(name.clone()) && d.value(&vr[1]) == V::Str(cn.clone()) {
                        if d.value(&vr[2]) == V::Str("Y".into()) {
                            c.nullable = true;
                        }
                        if let (V::Int(a), V::Int(b)) = (d.value(&vr[3]), d.value(&vr[4])) {
                            c.range = Some((a, b));
                        }
                        if let V::Str(cat) = d.value(&vr[7]) {
                            c.cat = CATEGORIES.iter().find(|k| cat_spelling(k.0) == cat || k.0 == cat).map(|k| k.0);
                        }
                        if let V::Str(set) = d.value(&vr[8]) {
                            c.enums = set.split(';').map(|x| x.to_string()).collect();
                        }
                    }
                }
            }
            defs.push(c);
        }
        let vals: Vec<Vec<V>> = rows.iter().map(|r| r.iter().map(|c| d.value(c)).collect()).collect();
        out.insert(name.clone(), (defs, vals));
    }
    out
}
