//! Shared helpers: PRNG, hex wire format, JSON escaping.

pub struct Rng(pub u64);

impl Rng {
    pub fn new(seed: u64) -> Rng {
        Rng(seed ^ 0x9E37_79B9_7F4A_7C15)
    }
    pub fn next(&mut self) -> u64 {
        // splitmix64
        self.0 = self.0.wrapping_add(0x9E37_79B9_7F4A_7C15);
        let mut z = self.0;
        z = (z ^ (z >> 30)).wrapping_mul(0xBF58_476D_1CE4_E5B9);
        z = (z ^ (z >> 27)).wrapping_mul(0x94D0_49BB_1331_11EB);
        z ^ (z >> 31)
    }
    pub fn below(&mut self, n: u64) -> u64 {
        if n == 0 {
            0
        } else {
            self.next() % n
        }
    }
    pub fn range(&mut self, lo: i64, hi: i64) -> i64 {
        // inclusive
        let span = (hi as i128 - lo as i128 + 1) as u128;
        (lo as i128 + (self.next() as u128 % span) as i128) as i64
    }
    pub fn chance(&mut self, num: u64, den: u64) -> bool {
        self.below(den) < num
    }
    pub fn pick<'a, T>(&mut self, xs: &'a [T]) -> &'a T {
        &xs[self.below(xs.len() as u64) as usize]
    }
}

pub fn hex_of_bytes(bs: &[u8]) -> String {
    if bs.is_empty() {
        return "_".to_string();
    }
    let mut s = String::with_capacity(bs.len() * 2);
    for b in bs {
        s.push_str(&format!("{:02x}", b));
    }
    s
}

pub fn hex_of_str(s: &str) -> String {
    hex_of_bytes(s.as_bytes())
}

pub fn bytes_of_hex(s: &str) -> Option<Vec<u8>> {
    if s == "_" {
        return Some(Vec::new());
    }
    if s.len() % 2 != 0 {
        return None;
    }
    let b = s.as_bytes();
    let mut out = Vec::with_capacity(s.len() / 2);
    for i in (0..b.len()).step_by(2) {
        let hi = (b[i] as char).to_digit(16)?;
        let lo = (b[i + 1] as char).to_digit(16)?;
        out.push((hi * 16 + lo) as u8);
    }
    Some(out)
}

pub fn str_of_hex(s: &str) -> Option<String> {
    String::from_utf8(bytes_of_hex(s)?).ok()
}

pub fn json_str(s: &str) -> String {
    let mut out = String::from("\"");
    for c in s.chars() {
        match c {
            '"' => out.push_str("\\\""),
            '\\' => out.push_str("\\\\"),
            '\n' => out.push_str("\\n"),
            '\r' => out.push_str("\\r"),
            '\t' => out.push_str("\\t"),
            c if (c as u32) < 0x20 => out.push_str(&format!("\\u{:04x}", c as u32)),
            c => out.push(c),
        }
    }
    out.push('"');
    out
}

/// Simple counter map kept in insertion order for the generator statistics.
#[derive(Default)]
pub struct Counts(pub Vec<(String, u64)>);

impl Counts {
    pub fn bump(&mut self, key: &str) {
        self.add(key, 1);
    }
    pub fn add(&mut self, key: &str, n: u64) {
        for e in self.0.iter_mut() {
            if e.0 == key {
                e.1 += n;
                return;
            }
        }
        self.0.push((key.to_string(), n));
    }
    pub fn to_json(&self) -> String {
        let parts: Vec<String> =
            self.0.iter().map(|(k, v)| format!("{}: {}", json_str(k), v)).collect();
        format!("{{{}}}", parts.join(", "))
    }
}
