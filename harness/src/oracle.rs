//! Property oracles evaluated on the REAL crate's replies (independent of the model):
//! a failure here is a concrete input on which the property fails on the real code.

use crate::colfmt::*;
use crate::expr::*;
use crate::gen::WELL_KNOWN;
use crate::util::*;
use std::collections::{HashMap, HashSet};
use std::fs;
use std::io::{BufRead, BufReader, Write};

pub struct Failure {
    pub line_no: usize,
    pub request: String,
    pub reply: String,
    pub why: String,
}

fn read_lines(p: &str) -> Vec<String> {
    BufReader::new(fs::File::open(p).expect("open")).lines().map(|l| l.unwrap()).collect()
}

pub fn run(prop: &str, req: &str, rep: &str, outfile: &str) {
    let reqs = read_lines(req);
    let reps = read_lines(rep);
    assert_eq!(reqs.len(), reps.len(), "request/reply length mismatch");
    let mut fails: Vec<Failure> = vec![];
    let mut checked: u64 = 0;
    let mut nontrivial: HashSet<String> = HashSet::new();
    match prop {
        "C17" => oracle_c17(&reqs, &reps, &mut fails, &mut checked, &mut nontrivial),
        "C18" => oracle_c18(&reqs, &reps, &mut fails, &mut checked, &mut nontrivial),
        "C13" => oracle_c13(&reqs, &reps, &mut fails, &mut checked, &mut nontrivial),
        "C19" => oracle_c19(&reqs, &reps, &mut fails, &mut checked, &mut nontrivial),
        "C14" => oracle_c14(&reqs, &reps, &mut fails, &mut checked, &mut nontrivial),
        "C07" => oracle_c07(&reqs, &reps, &mut fails, &mut checked, &mut nontrivial),
        "C11" => oracle_c11(&reqs, &reps, &mut fails, &mut checked, &mut nontrivial),
        "C09" => {
            for (i, (q, r)) in reqs.iter().zip(reps.iter()).enumerate() {
                checked += 1;
                if r.contains("panic") || r.contains("PANIC") {
                    // the string-capacity panic is a recorded finding of C20; anything else is new
                    fail(&mut fails, i, q, r, "a call on a package opened from this input panicked".into());
                }
                if q.starts_with("@ffi_check") {
                    if r.starts_with("abort") {
                        fail(&mut fails, i, q, r, "the C interface (get_information / get_table) aborted the process on this file: a panic inside an extern function".into());
                    } else if r.starts_with("mismatch") {
                        fail(&mut fails, i, q, r, "the C interface reports something else than the Rust API for this file".into());
                    }
                }
                if q.starts_with("load ") || q.starts_with("@open_bytes") {
                    nontrivial.insert(format!("{}", q.len() as u64 * 31 + i as u64 % 7));
                }
            }
        }
        "C15" => {
            for (i, (q, r)) in reqs.iter().zip(reps.iter()).enumerate() {
                if !q.starts_with("@fault_sweep") {
                    continue;
                }
                checked += 1;
                if r == "panic" {
                    fail(&mut fails, i, q, r, "the sweep itself panicked".into());
                    continue;
                }
                let field = |k: &str| -> (u64, String) {
                    let part = r.split(' ').find(|p| p.starts_with(k)).unwrap_or("");
                    let body = part.trim_start_matches(k);
                    let (n, list) = body.split_once('[').unwrap_or((body, ""));
                    (n.parse().unwrap_or(0), list.trim_end_matches(']').to_string())
                };
                let points = field("points=").0;
                nontrivial.insert(q.clone());
                checked += points;
                if !r.ends_with("clean_ok=1") {
                    fail(&mut fails, i, q, r, "the fault-free run of the script does not succeed and reopen".into());
                }
                let (n, l) = field("swallowed=");
                if n > 0 {
                    fail(&mut fails, i, q, r, format!("{n} fault points where a call returned Ok although a medium call issued during it had failed (first: {l})"));
                }
                let (n, l) = field("corrupt=");
                if n > 0 {
                    fail(&mut fails, i, q, r, format!("{n} fault points where every call including the final flush returned Ok but the bytes on the medium do not reopen to the state those calls describe (first: {l})"));
                }
                let (n, l) = field("retrylost=");
                if n > 0 {
                    fail(&mut fails, i, q, r, format!("after a flush that reported an error, the next flush returned Ok although the pending changes are not on the medium ({n} fault points; first: {l})"));
                }
                let (n, l) = field("panics=");
                if n > 0 {
                    fail(&mut fails, i, q, r, format!("{n} fault points where an injected I/O failure caused a panic (first: {l})"));
                }
            }
        }
        "C16" => {
            for (i, (q, r)) in reqs.iter().zip(reps.iter()).enumerate() {
                checked += 1;
                if r == "panic" {
                    fail(&mut fails, i, q, r, "a read-only call panicked".into());
                }
                if q.starts_with("@readonly_close") {
                    nontrivial.insert(format!("{i}"));
                    if r == "no-package" {
                        continue;
                    }
                    if !r.contains("writes=0 ") {
                        fail(&mut fails, i, q, r, "a session that only opened and read the package issued writes to the medium".into());
                    }
                    if !r.contains(" same=1") {
                        fail(&mut fails, i, q, r, "the bytes of the medium changed in a read-only session".into());
                    }
                    if r.contains("file-same=0") {
                        fail(&mut fails, i, q, r, "a read-only session through msi::open / msi::open_rw on a file changed the file".into());
                    }
                    if !r.starts_with("ok") {
                        fail(&mut fails, i, q, r, "closing a read-only session failed".into());
                    }
                }
            }
        }
        "C01" | "C02" | "C03" | "C04" | "C05" | "C06" | "C08" | "C10" | "C12" | "C20" => {
            let mut w = crate::walk::Walk::new();
            for (i, (q, r)) in reqs.iter().zip(reps.iter()).enumerate() {
                w.step(i, q, r);
            }
            checked = w.checked;
            nontrivial = w.nontrivial;
            let tag = prop.to_string();
            for t in w.out {
                if t.tags.iter().any(|x| *x == tag) {
                    fails.push(t.f);
                }
            }
        }
        _ => {
            eprintln!("no oracle for {prop}");
            std::process::exit(2);
        }
    }
    // properties whose checks also run package sessions: the history oracle's failures for them
    if ["C04", "C07", "C11", "C17", "C13", "C18", "C19"].contains(&prop) {
        let mut w = crate::walk::Walk::new();
        for (i, (q, r)) in reqs.iter().zip(reps.iter()).enumerate() {
            let first = q.split(' ').next().unwrap_or("");
            if ["new", "load", "create_table", "drop_table", "insert", "update", "delete", "select", "stream_write",
                "stream_read", "stream_remove", "has_stream", "streams", "snapshot", "reopen", "flush", "raw",
                "sum_set", "sum_clear", "set_db_cp", "remove_sig", "@file_edit", "@ctime_now", "@readonly_file_mutation"].contains(&first)
            {
                w.step(i, q, r);
            }
        }
        if prop != "C04" {
            checked += w.checked;
            nontrivial.extend(w.nontrivial);
            for t in w.out {
                if t.tags.iter().any(|x| *x == prop) {
                    fails.push(t.f);
                }
            }
        }
    }
    let mut f = fs::File::create(outfile).unwrap();
    let items: Vec<String> = fails
        .iter()
        .take(300)
        .map(|x| {
            format!(
                "{{\"line\": {}, \"request\": {}, \"reply\": {}, \"why\": {}}}",
                x.line_no,
                json_str(&x.request),
                json_str(&x.reply),
                json_str(&x.why)
            )
        })
        .collect();
    writeln!(
        f,
        "{{\"checked\": {}, \"distinct_nontrivial\": {}, \"failures\": {}, \"first\": [{}]}}",
        checked,
        nontrivial.len(),
        fails.len(),
        items.join(", ")
    )
    .unwrap();
}

fn fail(fails: &mut Vec<Failure>, i: usize, req: &str, rep: &str, why: String) {
    fails.push(Failure { line_no: i + 1, request: req.to_string(), reply: rep.to_string(), why });
}

// ------------------------------------------------------------------------------------

fn oracle_c17(
    reqs: &[String],
    reps: &[String],
    fails: &mut Vec<Failure>,
    checked: &mut u64,
    nontrivial: &mut HashSet<String>,
) {
    // The set of tags the implementation knows = the tags it produces for some code.
    let mut known_tags: HashSet<String> = HashSet::new();
    let mut tag_code: HashMap<String, u32> = HashMap::new();
    for (q, r) in reqs.iter().zip(reps.iter()) {
        let t: Vec<&str> = q.split(' ').collect();
        if t[0] == "lang_rt" && r != "panic" {
            let rt: Vec<&str> = r.split(' ').collect();
            if let Some(tag) = str_of_hex(rt[0]) {
                if tag != "und" {
                    known_tags.insert(tag.clone());
                    let code: u32 = t[1].parse().unwrap();
                    // the canonical code of a tag is the smallest code carrying it
                    tag_code.entry(tag).or_insert(code);
                }
            }
        }
    }
    let lang_tags: HashSet<String> =
        known_tags.iter().filter(|t| !t.contains('-')).cloned().collect();
    let wk: HashMap<u16, &str> = WELL_KNOWN.iter().cloned().collect();
    for (i, (q, r)) in reqs.iter().zip(reps.iter()).enumerate() {
        let t: Vec<&str> = q.split(' ').collect();
        *checked += 1;
        if r == "panic" {
            fail(fails, i, q, r, "panicked".into());
            continue;
        }
        match t[0] {
            "lang_rt" => {
                let rt: Vec<&str> = r.split(' ').collect();
                if rt[3] != t[1] {
                    fail(fails, i, q, r, "code not preserved".into());
                }
                if rt[0] != rt[2] {
                    fail(fails, i, q, r, "tag -> language -> tag is not stable".into());
                }
                if rt[0] != "756e64" {
                    nontrivial.insert(rt[0].to_string());
                }
            }
            "lang_tag" => {
                let code: u16 = t[1].parse().unwrap();
                if let Some(exp) = wk.get(&code) {
                    if *r != hex_of_str(exp) {
                        fail(fails, i, q, r, format!("well-known id {code} should be {exp}"));
                    }
                }
            }
            "lang_from_tag_rt" => {
                let tag = str_of_hex(t[1]).unwrap();
                let rt: Vec<&str> = r.split(' ').collect();
                let code: u32 = rt[0].parse().unwrap();
                let back = str_of_hex(rt[1]).unwrap();
                let lang_part = tag.splitn(2, '-').next().unwrap().to_string();
                nontrivial.insert(tag.clone());
                if known_tags.contains(&tag) {
                    if back != tag {
                        fail(fails, i, q, r, "table tag does not map back to itself".into());
                    }
                    if tag_code.get(&tag) != Some(&code) {
                        fail(fails, i, q, r, "table tag does not map to its own code".into());
                    }
                } else if !lang_tags.contains(&lang_part) {
                    if code != 0 {
                        fail(fails, i, q, r, "unknown language must map to neutral (0)".into());
                    }
                } else if back.contains('-') && back != tag {
                    fail(
                        fails,
                        i,
                        q,
                        r,
                        "unknown region mapped to a different known regional variant".into(),
                    );
                }
                if let Some(&(c, _)) = WELL_KNOWN.iter().find(|p| p.1 == tag) {
                    if c as u32 != code {
                        fail(fails, i, q, r, format!("well-known tag should have code {c}"));
                    }
                }
            }
            "langs_value" => {
                // the value built from a list of languages carries every code of the list, in order
                let want = format!("S{}", hex_of_str(t[1]));
                if r.split(' ').next() != Some(want.as_str()) {
                    fail(fails, i, q, r, format!("the value of the language list {} must be the text {:?} (every identifier preserved, in order)", t[1], t[1]));
                }
                nontrivial.insert(q.clone());
            }
            _ => {}
        }
    }
}

// ------------------------------------------------------------------------------------

fn oracle_c18(
    reqs: &[String],
    reps: &[String],
    fails: &mut Vec<Failure>,
    checked: &mut u64,
    nontrivial: &mut HashSet<String>,
) {
    use crate::gen::EPOCH_TICKS;
    let min_ns: i128 = -EPOCH_TICKS * 100;
    let max_ns: i128 = (u64::MAX as i128 - EPOCH_TICKS) * 100;
    let ns = |s: &str, n: &str| -> i128 {
        s.parse::<i128>().unwrap() * 1_000_000_000 + n.parse::<i128>().unwrap()
    };
    let mut pairs: Vec<(i128, i128, usize)> = Vec::new();
    for (i, (q, r)) in reqs.iter().zip(reps.iter()).enumerate() {
        let t: Vec<&str> = q.split(' ').collect();
        if t[0] != "ts_rt" && t[0] != "ts_save" {
            continue;
        }
        *checked += 1;
        if r == "panic" {
            fail(fails, i, q, r, "panicked".into());
            continue;
        }
        if r == "unrepresentable" {
            continue;
        }
        let rt: Vec<&str> = r.split(' ').collect();
        let tin = ns(t[1], t[2]);
        let rout = ns(rt[0], rt[1]);
        pairs.push((tin, rout, i));
        if tin >= min_ns && tin <= max_ns + 99 {
            nontrivial.insert(format!("{}", tin / 100));
            if (tin - rout).abs() >= 100 {
                fail(fails, i, q, r, format!("returned time differs by {} ns (>= 100)", tin - rout));
            }
        } else if tin < min_ns {
            if rout != min_ns {
                fail(fails, i, q, r, "time before 1601 does not saturate at tick 0".into());
            }
        } else if rout != max_ns {
            fail(fails, i, q, r, "time after the tick maximum does not saturate".into());
        }
        if t[0] == "ts_rt" {
            let r2 = ns(rt[2], rt[3]);
            if r2 != rout {
                fail(fails, i, q, r, "setting a returned time again changed it".into());
            }
        }
    }
    pairs.sort();
    for w in pairs.windows(2) {
        if w[1].1 < w[0].1 {
            let i = w[1].2;
            fail(
                fails,
                i,
                &reqs[i],
                &reps[i],
                format!("not monotonic: an earlier time ({}) returned a later result", reqs[w[0].2]),
            );
        }
    }
}

// ------------------------------------------------------------------------------------

fn oracle_c13(
    reqs: &[String],
    reps: &[String],
    fails: &mut Vec<Failure>,
    checked: &mut u64,
    nontrivial: &mut HashSet<String>,
) {
    for (i, (q, r)) in reqs.iter().zip(reps.iter()).enumerate() {
        let t: Vec<&str> = q.split(' ').collect();
        if t[0] == "eval2" {
            *checked += 1;
            let (row1, n1) = parse_row(&t[1..]).unwrap();
            let (row2, n2) = parse_row(&t[1 + n1..]).unwrap();
            let (e, _) = E::parse(&t[1 + n1 + n2..]).unwrap();
            if let (Some(a), Some(b)) = (e.ref_eval(&row1), e.ref_eval(&row2)) {
                nontrivial.insert(t[1 + n1 + n2..].join(" "));
                let want = format!("{} {} {}", a.tok(), b.tok(), a.tok());
                if r == "panic" {
                    fail(fails, i, q, r, "evaluation (or construction) panicked".into());
                } else if *r != want {
                    fail(fails, i, q, r, format!("one expression evaluated on two rows (and on the first again): documented semantics give {want}"));
                }
            }
            continue;
        }
        if t[0] != "eval" {
            continue;
        }
        *checked += 1;
        let (row, n) = parse_row(&t[1..]).unwrap();
        let (e, _) = E::parse(&t[1 + n..]).unwrap();
        match e.ref_eval(&row) {
            None => {
                // the row lacks a referenced column: outside the property (documented panic)
            }
            Some(expect) => {
                if e.depth() >= 1 {
                    nontrivial.insert(t[1 + n..].join(" "));
                }
                if r == "panic" {
                    fail(fails, i, q, r, "evaluation (or construction) panicked".into());
                } else if *r != expect.tok() {
                    fail(fails, i, q, r, format!("documented semantics give {}", expect.tok()));
                }
            }
        }
    }
}

// ------------------------------------------------------------------------------------

fn c19_rows() -> Vec<Vec<(String, V)>> {
    let names = ["a", "b", "c", "T.c"];
    let vals = [
        vec![V::Int(1), V::Int(0), V::Int(7), V::Int(-2)],
        vec![V::Int(0), V::Int(1), V::Null, V::Int(3)],
        vec![V::Str("x".into()), V::Int(5), V::Str(String::new()), V::Str("y".into())],
        vec![V::Null, V::Null, V::Int(-3), V::Int(0)],
        vec![V::Int(6), V::Int(-3), V::Int(2), V::Int(31)],
        vec![V::Int(i32::MAX), V::Int(2), V::Int(i32::MIN), V::Int(1)],
    ];
    vals.iter()
        .map(|vs| names.iter().map(|n| n.to_string()).zip(vs.iter().cloned()).collect())
        .collect()
}

fn oracle_c19(
    reqs: &[String],
    reps: &[String],
    fails: &mut Vec<Failure>,
    checked: &mut u64,
    nontrivial: &mut HashSet<String>,
) {
    let rows = c19_rows();
    for (i, (q, r)) in reqs.iter().zip(reps.iter()).enumerate() {
        let t: Vec<&str> = q.split(' ').collect();
        if t[0] == "fmtq" {
            *checked += 1;
            if r == "panic" {
                fail(fails, i, q, r, "printing panicked".into());
                continue;
            }
            let text = str_of_hex(r).unwrap_or_default();
            nontrivial.insert(text.clone());
            use crate::reader::*;
            let parse_cond = |toks: &[&str]| -> Option<E> {
                if toks.first() == Some(&"-") { None } else { E::parse(toks).map(|x| x.0) }
            };
            let ok = match t[1] {
                "select" => {
                    let (want, _) = crate::refdb::Sel::parse(&t[2..]).unwrap();
                    match read_select(&text) {
                        Some(got) => same_select(&want, &got),
                        None => false,
                    }
                }
                "insert" => {
                    let tn = str_of_hex(t[2]).unwrap();
                    let k: usize = t[3].parse().unwrap();
                    let mut pos = 4;
                    let mut rows = vec![];
                    for _ in 0..k {
                        let n: usize = t[pos].parse().unwrap();
                        rows.push(t[pos + 1..pos + 1 + n].iter().map(|v| V::parse(v).unwrap()).collect::<Vec<_>>());
                        pos += 1 + n;
                    }
                    read_insert(&text) == Some((tn, rows))
                }
                "update" => {
                    let tn = str_of_hex(t[2]).unwrap();
                    let k: usize = t[3].parse().unwrap();
                    let ups: Vec<(String, V)> = (0..k).map(|j| (str_of_hex(t[4 + 2 * j]).unwrap(), V::parse(t[5 + 2 * j]).unwrap())).collect();
                    let cond = parse_cond(&t[4 + 2 * k..]);
                    match read_update(&text) {
                        Some((a, b, c)) => a == tn && b == ups && same_cond(&c, &cond),
                        None => false,
                    }
                }
                "deletew" | "updatew" => {
                    // the restrictions of successive `with()` calls, AND-ed left to right
                    let tn = str_of_hex(t[2]).unwrap();
                    let (ups, mut pos): (Vec<(String, V)>, usize) = if t[1] == "updatew" {
                        let k: usize = t[3].parse().unwrap();
                        ((0..k).map(|j| (str_of_hex(t[4 + 2 * j]).unwrap(), V::parse(t[5 + 2 * j]).unwrap())).collect(), 4 + 2 * k)
                    } else {
                        (vec![], 3)
                    };
                    let n: usize = t[pos].parse().unwrap();
                    pos += 1;
                    let mut cond: Option<E> = None;
                    for _ in 0..n {
                        let (e, used) = E::parse(&t[pos..]).unwrap();
                        pos += used;
                        cond = Some(match cond { Some(c) => E::Bin("and", Box::new(c), Box::new(e)), None => e });
                    }
                    if t[1] == "updatew" {
                        match read_update(&text) {
                            Some((a, b, c)) => a == tn && b == ups && same_cond(&c, &cond),
                            None => false,
                        }
                    } else {
                        match read_delete(&text) {
                            Some((a, c)) => a == tn && same_cond(&c, &cond),
                            None => false,
                        }
                    }
                }
                _ => {
                    let tn = str_of_hex(t[2]).unwrap();
                    let cond = parse_cond(&t[3..]);
                    match read_delete(&text) {
                        Some((a, c)) => a == tn && same_cond(&c, &cond),
                        None => false,
                    }
                }
            };
            if !ok {
                fail(fails, i, q, r, format!("printed query {text:?} does not read back (with the grammar's rules) as the same tables, columns, literals, assignments, conditions and join structure"));
            }
            continue;
        }
        if t[0] != "fmt" {
            continue;
        }
        *checked += 1;
        if r == "panic" {
            fail(fails, i, q, r, "printing panicked".into());
            continue;
        }
        let (e, _) = E::parse(&t[1..]).unwrap();
        let text = match str_of_hex(r) {
            Some(x) => x,
            None => {
                fail(fails, i, q, r, "reply is not text".into());
                continue;
            }
        };
        if e.depth() >= 2 {
            nontrivial.insert(text.clone());
        }
        let back = match crate::reader::read_expr(&text) {
            Some(b) => b,
            None => {
                fail(fails, i, q, r, format!("printed text {text:?} does not read with the grammar's precedence"));
                continue;
            }
        };
        let mut c1 = vec![];
        e.columns(&mut c1);
        c1.sort();
        c1.dedup();
        let mut c2 = vec![];
        back.columns(&mut c2);
        c2.sort();
        c2.dedup();
        if c1 != c2 {
            fail(fails, i, q, r, format!("printed text {text:?} names columns {c2:?}, the expression {c1:?}"));
            continue;
        }
        for row in &rows {
            let v1 = e.ref_eval(row);
            let v2 = back.ref_eval(row);
            if v1 != v2 {
                fail(
                    fails,
                    i,
                    q,
                    r,
                    format!("printed text {text:?} reads as an expression that evaluates to {v2:?} where the original gives {v1:?} (row {row:?})"),
                );
                break;
            }
        }
    }
}

// ------------------------------------------------------------------------------------

fn oracle_c14(
    reqs: &[String],
    reps: &[String],
    fails: &mut Vec<Failure>,
    checked: &mut u64,
    nontrivial: &mut HashSet<String>,
) {
    use crate::exec::ALL_CP;
    // documented identifiers (Windows code page numbers)
    let ids: HashMap<&str, i64> = [
        ("Windows932", 932), ("Windows936", 936), ("Windows949", 949), ("Windows950", 950),
        ("Windows951", 951), ("Windows1250", 1250), ("Windows1251", 1251), ("Windows1252", 1252),
        ("Windows1253", 1253), ("Windows1254", 1254), ("Windows1255", 1255), ("Windows1256", 1256),
        ("Windows1257", 1257), ("Windows1258", 1258), ("MacintoshRoman", 10000),
        ("MacintoshCyrillic", 10007), ("UsAscii", 20127), ("Iso88591", 28591), ("Iso88592", 28592),
        ("Iso88593", 28593), ("Iso88594", 28594), ("Iso88595", 28595), ("Iso88596", 28596),
        ("Iso88597", 28597), ("Iso88598", 28598), ("Utf8", 65001),
    ]
    .into_iter()
    .collect();
    let by_id: HashMap<i64, &str> = ids.iter().map(|(k, v)| (*v, *k)).collect();
    let _ = ALL_CP;
    for (i, (q, r)) in reqs.iter().zip(reps.iter()).enumerate() {
        let t: Vec<&str> = q.split(' ').collect();
        *checked += 1;
        if r == "panic" {
            fail(fails, i, q, r, "panicked".into());
            continue;
        }
        match t[0] {
            "cp_id" => {
                if Some(&r.parse::<i64>().unwrap_or(-1)) != ids.get(t[1]) {
                    fail(fails, i, q, r, "id() is not the documented Windows identifier".into());
                }
            }
            "cp_from_id" => {
                let n: i64 = t[1].parse().unwrap();
                let want = if n == 0 { Some("Utf8") } else { by_id.get(&n).cloned() };
                let got = if r == "none" { None } else { Some(r.as_str()) };
                if want != got {
                    fail(fails, i, q, r, format!("from_id({n}) should be {want:?} (lookup and reverse lookup must be mutually inverse)"));
                }
                if want.is_some() {
                    nontrivial.insert(q.clone());
                }
            }
            "@cp_sweep" => {
                let cp = t[1];
                let lossy = r.split("lossy=[").nth(1).and_then(|x| x.split(']').next()).unwrap_or("");
                for u in lossy.split(',').filter(|x| !x.is_empty()) {
                    fail(fails, i, q, r, format!("cp={cp} U+{u} encodes to bytes that decode to a different string (neither lossless nor '?')"));
                }
                let wiring = r.split("wiring=[").nth(1).and_then(|x| x.split(']').next()).unwrap_or("");
                for u in wiring.split(',').filter(|x| !x.is_empty()) {
                    fail(fails, i, q, r, format!("cp={cp} U+{u} is not encoded as by the encoding its name promises (wiring)"));
                }
                nontrivial.insert(q.clone());
            }
            "@cp_decode_sweep" => {}
            "enc_loop" => {
                // concatenation law on the real implementation
                let codes = t[3];
                let mut want: Vec<u8> = vec![];
                if codes != "_" {
                    for c in codes.split(',') {
                        if c == "?" {
                            want.push(b'?');
                        } else {
                            want.extend(bytes_of_hex(c).unwrap());
                        }
                    }
                }
                if *r != hex_of_bytes(&want) {
                    fail(fails, i, q, r, "encoding of the string is not the concatenation of the encodings of its characters".into());
                }
                nontrivial.insert(format!("{} {}", t[1], t[2].len()));
            }
            _ => {}
        }
    }
}

// ------------------------------------------------------------------------------------

fn oracle_c07(
    reqs: &[String],
    reps: &[String],
    fails: &mut Vec<Failure>,
    checked: &mut u64,
    nontrivial: &mut HashSet<String>,
) {
    for (i, (q, r)) in reqs.iter().zip(reps.iter()).enumerate() {
        let t: Vec<&str> = q.split(' ').collect();
        *checked += 1;
        if r == "panic" {
            fail(fails, i, q, r, "validator panicked".into());
            continue;
        }
        match t[0] {
            "validate" => {
                let st = str_of_hex(t[2]).unwrap();
                if let Some(want) = ref_category(t[1], &st) {
                    if *r != (want as i32).to_string() {
                        fail(fails, i, q, r, format!("documented grammar of {} says {} for {:?}", t[1], want, st));
                    }
                    if want {
                        nontrivial.insert(q.clone());
                    }
                }
            }
            "is_valid" => {
                let c = ColDef::parse(t[1]).unwrap();
                let v = V::parse(t[2]).unwrap();
                if let Some(want) = c.ref_valid(&v) {
                    if *r != (want as i32).to_string() {
                        fail(fails, i, q, r, format!("documented validity is {want}"));
                    }
                    nontrivial.insert(q.clone());
                }
            }
            "guid_value" | "langs_value" => {
                if !r.ends_with(" 1") {
                    fail(fails, i, q, r, "a value the library builds itself is not valid for its category".into());
                }
                nontrivial.insert(q.clone());
            }
            _ => {}
        }
    }
}

// ------------------------------------------------------------------------------------

fn oracle_c11(
    reqs: &[String],
    reps: &[String],
    fails: &mut Vec<Failure>,
    checked: &mut u64,
    nontrivial: &mut HashSet<String>,
) {
    // names the library accepts, with their encodings: injectivity and separation
    let mut valid: HashSet<String> = HashSet::new();
    for (q, r) in reqs.iter().zip(reps.iter()) {
        let t: Vec<&str> = q.split(' ').collect();
        if t[0] == "sn_valid" && t[2] == "0" && r == "1" {
            valid.insert(t[1].to_string());
        }
    }
    let mut by_enc: HashMap<String, String> = HashMap::new();
    let special = ["\u{5}DigitalSignature", "\u{5}MsiDigitalSignatureEx", "\u{5}SummaryInformation", "\u{5}DocumentSummaryInformation"];
    for (i, (q, r)) in reqs.iter().zip(reps.iter()).enumerate() {
        let t: Vec<&str> = q.split(' ').collect();
        *checked += 1;
        if r == "panic" {
            fail(fails, i, q, r, "name function panicked".into());
            continue;
        }
        if t[0] == "sn_encode" && t[2] == "0" && valid.contains(t[1]) {
            nontrivial.insert(t[1].to_string());
            let enc = str_of_hex(r).unwrap();
            // the container compares names by (UTF-16 length, upper-cased text)
            let key = format!("{}:{}", enc.encode_utf16().count(), enc.to_uppercase());
            let name = str_of_hex(t[1]).unwrap();
            if let Some(other) = by_enc.get(&key) {
                let a = other.to_uppercase();
                if *other != name && !(a == name.to_uppercase() && other.encode_utf16().count() == name.encode_utf16().count()) {
                    fail(fails, i, q, r, format!("accepted names {other:?} and {name:?} collide in the container"));
                }
            } else {
                by_enc.insert(key, name.clone());
            }
            if special.contains(&enc.as_str()) {
                fail(fails, i, q, r, "an accepted user name encodes to a special stream name".into());
            }
            if enc.starts_with('\u{4840}') {
                fail(fails, i, q, r, "an accepted user name encodes to a table stream name".into());
            }
            if enc.contains(|c| "/\\:!".contains(c)) || enc.encode_utf16().count() > 31 {
                fail(fails, i, q, r, "an accepted user name is not a legal container name".into());
            }
            // decoding the encoding must give the name back
            let (d, tb) = msi::verif::streamname::decode(&enc);
            if d != name || tb {
                fail(fails, i, q, r, format!("accepted name {name:?} is listed back as {d:?}"));
            }
        }
    }
}
