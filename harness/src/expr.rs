//! Expression / value wire format shared by generator, executor and oracle, plus a
//! reference evaluator that states the documented operator semantics (the C13 oracle).

use crate::util::*;

#[derive(Clone, Debug, PartialEq, Eq, PartialOrd, Ord, Hash)]
pub enum V {
    Null,
    Int(i32),
    Str(String),
}

impl V {
    pub fn tok(&self) -> String {
        match self {
            V::Null => "N".to_string(),
            V::Int(n) => format!("I{n}"),
            V::Str(s) => format!("S{}", hex_of_str(s)),
        }
    }
    pub fn parse(t: &str) -> Option<V> {
        let (h, rest) = t.split_at(1);
        match h {
            "N" if rest.is_empty() => Some(V::Null),
            "I" => rest.parse().ok().map(V::Int),
            "S" => str_of_hex(rest).map(V::Str),
            _ => None,
        }
    }
    /// the value through one of the documented conversions (which one depends on the value, so that
    /// every conversion is travelled by the ordinary requests); they all give the same `Value`
    pub fn to_msi(&self) -> msi::Value {
        match self {
            V::Null => msi::Value::Null,
            V::Int(n) => match n.rem_euclid(5) {
                0 if *n >= i16::MIN as i32 && *n <= i16::MAX as i32 => msi::Value::from(*n as i16),
                1 if *n >= 0 && *n <= u16::MAX as i32 => msi::Value::from(*n as u16),
                2 => msi::Value::from(*n),
                3 if *n == 0 || *n == 1 => msi::Value::from(*n == 1),
                _ => msi::Value::Int(*n),
            },
            V::Str(s) => match s.len() % 3 {
                0 => msi::Value::from(s.as_str()),
                1 => msi::Value::from(s.clone()),
                _ => msi::Value::Str(s.clone()),
            },
        }
    }
    /// read through the accessors, which must agree with the variant
    pub fn of_msi(v: &msi::Value) -> V {
        let by_accessors = match (v.is_null(), v.is_int(), v.is_str(), v.as_int(), v.as_str()) {
            (true, false, false, None, None) => V::Null,
            (false, true, false, Some(n), None) => V::Int(n),
            (false, false, true, None, Some(s)) => V::Str(s.to_string()),
            _ => V::Str("\u{1}ACCESSORS-DISAGREE".into()),
        };
        let by_variant = match v {
            msi::Value::Null => V::Null,
            msi::Value::Int(n) => V::Int(*n),
            msi::Value::Str(s) => V::Str(s.clone()),
        };
        if by_accessors == by_variant { by_variant } else { V::Str("\u{1}ACCESSORS-DISAGREE".into()) }
    }
    pub fn truthy(&self) -> bool {
        match self {
            V::Null => false,
            V::Int(n) => *n != 0,
            V::Str(s) => !s.is_empty(),
        }
    }
}

pub const UNOPS: &[&str] = &["neg", "bitnot", "not"];
pub const BINOPS: &[&str] = &[
    "eq", "ne", "lt", "le", "gt", "ge", "add", "sub", "mul", "div", "band", "bor", "bxor", "shl",
    "shr", "and", "or",
];

#[derive(Clone, Debug, PartialEq, Eq, Hash)]
pub enum E {
    Lit(V),
    Col(String),
    Un(&'static str, Box<E>),
    Bin(&'static str, Box<E>, Box<E>),
}

impl E {
    pub fn toks(&self, out: &mut Vec<String>) {
        match self {
            E::Lit(v) => out.push(v.tok()),
            E::Col(n) => out.push(format!("C{}", hex_of_str(n))),
            E::Un(op, a) => {
                out.push(op.to_string());
                a.toks(out);
            }
            E::Bin(op, a, b) => {
                out.push(op.to_string());
                a.toks(out);
                b.toks(out);
            }
        }
    }
    pub fn to_line(&self) -> String {
        let mut v = vec![];
        self.toks(&mut v);
        v.join(" ")
    }
    /// parse from a token slice; returns the expression and the number of tokens used
    pub fn parse(toks: &[&str]) -> Option<(E, usize)> {
        let t = *toks.first()?;
        if let Some(op) = UNOPS.iter().find(|o| **o == t) {
            let (a, n) = E::parse(&toks[1..])?;
            return Some((E::Un(op, Box::new(a)), n + 1));
        }
        if let Some(op) = BINOPS.iter().find(|o| **o == t) {
            let (a, n) = E::parse(&toks[1..])?;
            let (b, m) = E::parse(&toks[1 + n..])?;
            return Some((E::Bin(op, Box::new(a), Box::new(b)), n + m + 1));
        }
        if let Some(rest) = t.strip_prefix('C') {
            return Some((E::Col(str_of_hex(rest)?), 1));
        }
        Some((E::Lit(V::parse(t)?), 1))
    }
    /// build the real `msi::Expr` through the public constructors (which fold literals)
    pub fn to_msi(&self) -> msi::Expr {
        use msi::Expr as X;
        match self {
            E::Lit(V::Null) => X::null(),
            E::Lit(V::Int(n)) if *n == 1 || *n == 0 => X::boolean(*n == 1),
            E::Lit(V::Int(n)) => X::integer(*n),
            E::Lit(V::Str(s)) => X::string(s.clone()),
            E::Col(n) => X::col(n.clone()),
            E::Un(op, a) => {
                let a = a.to_msi();
                match *op {
                    "neg" => -a,
                    "bitnot" => a.bitinv(),
                    _ => a.not(),
                }
            }
            E::Bin(op, a, b) => {
                let a = a.to_msi();
                let b = b.to_msi();
                match *op {
                    "eq" => a.eq(b),
                    "ne" => a.ne(b),
                    "lt" => a.lt(b),
                    "le" => a.le(b),
                    "gt" => a.gt(b),
                    "ge" => a.ge(b),
                    "add" => a + b,
                    "sub" => a - b,
                    "mul" => a * b,
                    "div" => a / b,
                    "band" => a & b,
                    "bor" => a | b,
                    "bxor" => a ^ b,
                    "shl" => a << b,
                    "shr" => a >> b,
                    "and" => a.and(b),
                    _ => a.or(b),
                }
            }
        }
    }
    pub fn depth(&self) -> usize {
        match self {
            E::Lit(_) | E::Col(_) => 0,
            E::Un(_, a) => 1 + a.depth(),
            E::Bin(_, a, b) => 1 + a.depth().max(b.depth()),
        }
    }
    pub fn columns(&self, out: &mut Vec<String>) {
        match self {
            E::Lit(_) => {}
            E::Col(n) => out.push(n.clone()),
            E::Un(_, a) => a.columns(out),
            E::Bin(_, a, b) => {
                a.columns(out);
                b.columns(out);
            }
        }
    }
    /// Reference semantics (the documented operators): None = the row lacks a column.
    pub fn ref_eval(&self, row: &[(String, V)]) -> Option<V> {
        let b = |x: bool| V::Int(x as i32);
        Some(match self {
            E::Lit(v) => v.clone(),
            E::Col(n) => row.iter().find(|(k, _)| k == n)?.1.clone(),
            E::Un(op, a) => {
                let v = a.ref_eval(row)?;
                match (*op, &v) {
                    ("neg", V::Int(n)) => V::Int((-(*n as i64)) as i32),
                    ("bitnot", V::Int(n)) => V::Int(!*n),
                    ("not", v) => b(!v.truthy()),
                    _ => V::Null,
                }
            }
            E::Bin("and", x, y) => {
                if x.ref_eval(row)?.truthy() {
                    b(y.ref_eval(row)?.truthy())
                } else {
                    b(false)
                }
            }
            E::Bin("or", x, y) => {
                if x.ref_eval(row)?.truthy() {
                    b(true)
                } else {
                    b(y.ref_eval(row)?.truthy())
                }
            }
            E::Bin(op, x, y) => {
                let x = x.ref_eval(row)?;
                let y = y.ref_eval(row)?;
                match *op {
                    "eq" => b(x == y),
                    "ne" => b(x != y),
                    "lt" => b(x < y),
                    "le" => b(x <= y),
                    "gt" => b(x > y),
                    "ge" => b(x >= y),
                    _ => match (&x, &y) {
                        (V::Int(p), V::Int(q)) => {
                            let (p, q) = (*p as i64, *q as i64);
                            match *op {
                                "add" => V::Int((p + q) as i32),
                                "sub" => V::Int((p - q) as i32),
                                "mul" => V::Int((p * q) as i32),
                                "div" => {
                                    if q == 0 {
                                        V::Null
                                    } else {
                                        V::Int((p / q) as i32)
                                    }
                                }
                                "band" => V::Int((p & q) as i32),
                                "bor" => V::Int((p | q) as i32),
                                "bxor" => V::Int((p ^ q) as i32),
                                "shl" => {
                                    if (0..32).contains(&q) {
                                        V::Int((p << q) as i32)
                                    } else {
                                        V::Null
                                    }
                                }
                                "shr" => {
                                    if (0..32).contains(&q) {
                                        V::Int((p >> q) as i32)
                                    } else {
                                        V::Null
                                    }
                                }
                                _ => V::Null,
                            }
                        }
                        (V::Str(p), V::Str(q)) if *op == "add" => V::Str(format!("{p}{q}")),
                        _ => V::Null,
                    },
                }
            }
        })
    }
}

/// parse `<k> (name value)*k` from tokens; returns row and tokens consumed
pub fn parse_row(toks: &[&str]) -> Option<(Vec<(String, V)>, usize)> {
    let k: usize = toks.first()?.parse().ok()?;
    let mut row = vec![];
    for i in 0..k {
        let name = str_of_hex(toks.get(1 + 2 * i)?)?;
        let v = V::parse(toks.get(2 + 2 * i)?)?;
        row.push((name, v));
    }
    Some((row, 1 + 2 * k))
}

pub fn row_toks(row: &[(String, V)]) -> String {
    let mut parts = vec![row.len().to_string()];
    for (n, v) in row {
        parts.push(hex_of_str(n));
        parts.push(v.tok());
    }
    parts.join(" ")
}
