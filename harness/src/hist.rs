//! Generator of package histories (operation sequences) for the state-machine properties.

use crate::colfmt::*;
use crate::expr::*;
use crate::gen::Out;
use crate::refdb::*;
use crate::util::*;

pub const CLOSE_MODES: [&str; 3] = ["flush", "into_inner", "drop"];

thread_local! {
    /// text repertoire of the current session: 0 = ASCII only, 1 = any Unicode (UTF-8 sessions),
    /// 2 = Latin-1 letters (sessions that move between Windows-1252, ISO 8859-1 and UTF-8)
    pub static REPERTOIRE: std::cell::Cell<u8> = std::cell::Cell::new(1);
    /// sample text of the session's own code page (repertoire 3)
    pub static PAGE_TEXT: std::cell::Cell<&'static [&'static str]> = std::cell::Cell::new(&[]);
}

/// for each table-backed code page: text its repertoire contains (every string round-trips
/// through that page); short strings, mixed ASCII / non-ASCII, multi-byte at either end
pub const PAGE_SAMPLES: &[(&str, &[&str])] = &[
    ("Windows932", &["\u{65e5}\u{672c}", "\u{30c6}\u{30b9}\u{30c8}a", "a\u{3042}", "\u{ff76}", "\u{65e5}"]),
    ("Windows936", &["\u{4e2d}\u{6587}", "\u{4e2d}\u{6587}a", "a\u{4e2d}", "\u{e9}", "caf\u{e9}", "\u{20ac}"]),
    ("Windows949", &["\u{d55c}\u{ae00}", "\u{d55c}a", "a\u{ae00}", "\u{d55c}"]),
    ("Windows950", &["\u{4e2d}\u{6587}", "\u{4e2d}\u{6587}a", "a\u{4e2d}", "\u{4e2d}"]),
    ("Windows951", &["\u{4e2d}\u{6587}", "\u{540d}\u{7a31}f", "a\u{4e2d}", "\u{6587}"]),
    ("Windows1250", &["\u{151}", "\u{17e}lu\u{165}", "a\u{159}"]),
    ("Windows1251", &["\u{416}", "\u{43f}\u{440}\u{438}\u{432}\u{435}\u{442}", "a\u{44f}"]),
    ("Windows1252", &["caf\u{e9}", "\u{20ac}", "\u{fc}ber"]),
    ("Windows1253", &["\u{3a9}", "\u{3b1}\u{3b2}\u{3b3}", "a\u{3c9}"]),
    ("Windows1254", &["\u{11f}", "\u{130}stanbul", "a\u{15f}"]),
    ("Windows1255", &["\u{5d0}", "\u{5e9}\u{5dc}\u{5d5}\u{5dd}", "a\u{5ea}"]),
    ("Windows1256", &["\u{639}", "\u{633}\u{644}\u{627}\u{645}", "a\u{64a}"]),
    ("Windows1257", &["\u{101}", "\u{161}\u{16b}", "a\u{17e}"]),
    ("Windows1258", &["\u{1a1}", "\u{1b0}a", "a\u{111}"]),
    ("Iso88591", &["caf\u{e9}", "\u{ff}", "\u{fc}ber"]),
    ("Iso88592", &["\u{151}", "\u{17e}lu\u{165}", "a\u{159}"]),
    ("Iso88593", &["\u{127}", "\u{11d}a", "a\u{109}"]),
    ("Iso88594", &["\u{101}", "\u{137}a", "a\u{16b}"]),
    ("Iso88595", &["\u{416}", "\u{43f}\u{440}\u{438}", "a\u{44f}"]),
    ("Iso88596", &["\u{639}", "\u{633}\u{644}", "a\u{64a}"]),
    ("Iso88597", &["\u{3a9}", "\u{3b1}\u{3b2}", "a\u{3c9}"]),
    ("Iso88598", &["\u{5d0}", "\u{5e9}\u{5dc}", "a\u{5ea}"]),
    ("MacintoshRoman", &["caf\u{e9}", "\u{2020}", "\u{fc}ber"]),
    ("MacintoshCyrillic", &["\u{416}", "\u{43f}\u{440}", "a\u{44f}"]),
];

pub fn gen_strings(rng: &mut Rng, non_ascii: bool) -> String {
    // (the numerals: texts that spell one number in different ways are different texts)
    let base = ["a", "b", "ab", "Zed", "x", "y", "hello world", "A.b_9", "", "b", "a", "zz", "7", "07", "+7", "0", "-0", "10", "9"];
    let rep = REPERTOIRE.with(|r| r.get());
    let uni: &[&str] = if rep == 3 {
        PAGE_TEXT.with(|t| t.get())
    } else if rep == 2 {
        &["caf\u{e9}", "\u{fc}ber", "\u{f1}", "na\u{ef}ve", "\u{e9}\u{e9}\u{e9}", "\u{ff}\u{fe}AB"]
    } else {
        &["\u{e9}", "\u{65e5}\u{672c}", "na\u{ef}ve", "\u{1f600}", "\u{feff}abc", "\u{ff}\u{fe}AB"]
    };
    match rng.below(20) {
        0 if non_ascii => rng.pick(uni).to_string(),
        1 if non_ascii => rng.pick(uni).to_string(),
        3 | 4 if non_ascii && rep == 3 => rng.pick(uni).to_string(),
        2 => "q".repeat(rng.below(300) as usize),
        5 if non_ascii && rep == 1 && rng.chance(1, 3) => {
            // beyond the encoder's 1 KiB chunk, with a multi-byte character across a chunk boundary
            format!("{}\u{e9}{}\u{65e5}", "p".repeat(1022 + rng.below(3) as usize), "q".repeat(1020 + rng.below(5) as usize))
        }
        _ => rng.pick(&base).to_string(),
    }
}

pub fn gen_schema(rng: &mut Rng, name: &str, wide: bool) -> (String, Vec<ColDef>) {
    let n = if wide { 1 + rng.below(8) as usize } else { 1 + rng.below(4) as usize };
    let mut cols = vec![];
    for i in 0..n {
        let ct = match rng.below(6) {
            0 => CT::I16,
            1 => CT::I32,
            2 => CT::Str(0),
            3 => CT::Str(8),
            4 => CT::Str(255),
            _ => CT::Str(3),
        };
        // mostly K, C1, C2, ...; now and then a name that differs from an earlier column's only in
        // the case of its letters (names are case-sensitive: K and k are two columns)
        let nm = if i == 0 {
            "K".to_string()
        } else if rng.chance(1, 7) {
            if rng.chance(1, 2) { "k".to_string() } else { format!("c{}", 1 + rng.below(i as u64)) }
        } else {
            format!("C{i}")
        };
        let nm = if cols.iter().any(|c: &ColDef| c.name == nm) { format!("C{i}") } else { nm };
        let mut c = ColDef::new(&nm, ct.clone());
        c.key = i == 0 || (i == 1 && rng.chance(1, 4));
        c.nullable = if c.key { rng.chance(1, 5) } else { rng.chance(2, 3) };
        c.localizable = rng.chance(1, 8);
        match ct {
            CT::I16 | CT::I32 => {
                if rng.chance(1, 3) {
                    // declared ranges: narrow, wider than a 16-bit cell can hold, touching the reserved minimum
                    c.range = Some(*rng.pick(&[(-5, 100), (-5, 100), (1, 100000), (-40000, 10), (-32768, 10), (0, 32768)]));
                }
                if rng.chance(1, 6) {
                    // the installer schema lists permitted integers as an enumeration of numerals
                    c.enums = vec!["0".into(), "1".into(), "7".into()];
                }
            }
            CT::Str(_) => {
                if rng.chance(1, 5) {
                    c.cat = Some(*rng.pick(&["Identifier", "Text", "Formatted", "UpperCase", "Integer"]));
                }
                if rng.chance(1, 8) && c.cat.is_none() {
                    c.enums = vec!["a".into(), "b".into(), "Zed".into()];
                }
                if rng.chance(1, 6) {
                    // a foreign-key annotation naming another table of the session (or none)
                    c.fk = Some((rng.pick(&["A", "B", "Tbl3", "Elsewhere"]).to_string(), 1 + rng.below(3) as i32));
                }
            }
        }
        cols.push(c);
    }
    if cols.len() > 1 && rng.chance(1, 4) {
        // primary key columns need not lead the table
        let k = 1 + rng.below(cols.len() as u64 - 1) as usize;
        cols.swap(0, k);
    }
    (name.to_string(), cols)
}

pub fn gen_value(rng: &mut Rng, c: &ColDef, non_ascii: bool, allow_invalid: bool) -> V {
    if allow_invalid && rng.chance(1, 25) {
        // a value of the wrong kind or out of range
        return match rng.below(6) {
            0 => V::Null,
            1 => V::Int(*rng.pick(&[-32768, 32768, i32::MIN, 70000, -6, 101])),
            2 => V::Str("way too long for a narrow column".into()),
            3 => V::Str(rng.pick(&["1", "0", "7", "12"]).to_string()),
            4 if !c.enums.is_empty() => V::Str(rng.pick(&c.enums).clone()),
            _ => V::Str("9bad id".into()),
        };
    }
    if c.nullable && rng.chance(1, 6) {
        return V::Null;
    }
    match c.ct {
        CT::I16 => {
            let (lo, hi) = c.range.unwrap_or((-32767, 32767));
            if allow_invalid && rng.chance(1, 12) {
                // inside the declared range but outside what a 16-bit cell can hold (or the reserved minimum)
                return V::Int(*rng.pick(&[hi, lo, 65541, 32768, -32768, 65536 + 7]));
            }
            let (lo, hi) = (lo.max(-32767), hi.min(32767));
            V::Int(*rng.pick(&[lo, hi, 0, 1, 2, 3, 4, 5, 7, -1]).clamp(&lo, &hi))
        }
        CT::I32 => {
            let (lo, hi) = c.range.unwrap_or((-2147483647, 2147483647));
            V::Int(*rng.pick(&[lo, hi, 0, 1, 2, 3, 65536, -65537, 7]).clamp(&lo, &hi))
        }
        CT::Str(max) => {
            if !c.enums.is_empty() {
                return V::Str(rng.pick(&c.enums).clone());
            }
            let s = match c.cat {
                Some("Identifier") => rng.pick(&["Id1", "_x", "A.b", "Zed", "k"]).to_string(),
                Some("UpperCase") => rng.pick(&["ABC", "X9", "Z", "A B"]).to_string(),
                Some("Integer") => rng.pick(&["1", "-7", "32767", "0"]).to_string(),
                _ => gen_strings(rng, non_ascii),
            };
            if max != 0 && s.chars().count() > max {
                V::Str(s.chars().take(max).collect())
            } else {
                V::Str(s)
            }
        }
    }
}

pub fn gen_cond(rng: &mut Rng, cols: &[ColDef], rows: &[Vec<V>]) -> Option<E> {
    if rng.chance(1, 5) {
        return None;
    }
    if rng.chance(1, 5) {
        // the condition as an arbitrary program over the table's columns: any operator at any
        // depth, literal operands of AND / OR, results of logical operators used as values
        let mut leaves: Vec<E> = cols.iter().map(|c| E::Col(c.name.clone())).collect();
        let ncol = leaves.len();
        for _ in 0..ncol {
            let i = rng.below(ncol as u64) as usize;
            leaves.push(leaves[i].clone());
        }
        for v in [V::Null, V::Int(0), V::Int(1), V::Int(2), V::Int(-1), V::Str("".into()), V::Str("a".into())] {
            leaves.push(E::Lit(v));
        }
        if rng.chance(1, 6) {
            // a name the table does not have, possibly behind an operand that decides the result
            leaves.push(E::Col("Nope".into()));
        }
        if !rows.is_empty() {
            let r = &rows[rng.below(rows.len() as u64) as usize];
            leaves.push(E::Lit(r[rng.below(r.len() as u64) as usize].clone()));
        }
        let depth = 1 + rng.below(3) as usize;
        let e = crate::gen::random_expr(rng, depth, &leaves);
        return Some(match rng.below(3) {
            0 => e,
            1 => E::Bin(*rng.pick(&["eq", "ne", "lt", "gt"]), Box::new(e), Box::new(E::Lit(V::Int(1)))),
            _ => E::Bin("eq", Box::new(E::Bin(*rng.pick(&["and", "or"]), Box::new(E::Lit(rng.pick(&[V::Int(1), V::Int(0), V::Null, V::Str("t".into())]).clone())), Box::new(e))), Box::new(E::Lit(V::Int(1)))),
        });
    }
    let i = rng.below(cols.len() as u64) as usize;
    let col = E::Col(cols[i].name.clone());
    let lit = if !rows.is_empty() && rng.chance(3, 4) {
        E::Lit(rows[rng.below(rows.len() as u64) as usize][i].clone())
    } else {
        E::Lit(match cols[i].ct {
            CT::Str(_) => V::Str("a".into()),
            _ => V::Int(3),
        })
    };
    let op = *rng.pick(&["eq", "ne", "lt", "ge", "le", "gt"]);
    let base = E::Bin(op, Box::new(col.clone()), Box::new(lit));
    Some(match rng.below(6) {
        0 => E::Un("not", Box::new(base)),
        1 => E::Bin("or", Box::new(base), Box::new(E::Bin("eq", Box::new(col), Box::new(E::Lit(V::Null))))),
        2 if cols.len() > 1 => {
            let j = rng.below(cols.len() as u64) as usize;
            E::Bin("and", Box::new(base), Box::new(E::Bin("ne", Box::new(E::Col(cols[j].name.clone())), Box::new(E::Lit(V::Int(0))))))
        }
        _ => base,
    })
}

fn rows_tok(rows: &[Vec<V>]) -> String {
    let mut parts = vec![rows.len().to_string()];
    for r in rows {
        parts.push(r.len().to_string());
        for v in r {
            parts.push(v.tok());
        }
    }
    parts.join(" ")
}

pub fn cond_tok(c: &Option<E>) -> String {
    match c {
        Some(e) => e.to_line(),
        None => "-".into(),
    }
}

pub struct HistCfg {
    pub sessions: usize,
    pub max_steps: usize,
    pub non_ascii: bool,
    pub streams: bool,
    pub summary: bool,
    pub invalid: bool,
    pub key_updates: bool,
    pub reopen: bool,
    pub raw: bool,
    pub selects: bool,
}

/// one random session; the generator keeps a shadow of the expected state (RefDb) so that
/// later operations refer to rows and tables that exist
pub fn gen_session(out: &mut Out, rng: &mut Rng, cfg: &HistCfg) {
    let pt = rng.below(3);
    out.req("new", format!("new {pt}"));
    // the session's text repertoire decides which code pages it may move between
    let kind: u8 = if !cfg.non_ascii { 0 } else { *rng.pick(&[1u8, 1, 1, 0, 2, 3]) };
    REPERTOIRE.with(|r| r.set(kind));
    let non_ascii = kind != 0;
    // repertoire 3: one of the 24 table-backed pages with text from its own repertoire; the
    // session may move between that page and UTF-8 (which holds everything)
    let own = rng.pick(PAGE_SAMPLES);
    let own_pages = [own.0, "Utf8", own.0];
    if kind == 3 {
        PAGE_TEXT.with(|t| t.set(own.1));
    }
    let pages: &[&str] = match kind {
        0 => &["UsAscii", "Windows1252", "Windows932", "Utf8", "MacintoshRoman", "Iso88597", "Windows1251", "Windows936", "Windows951", "Windows949"],
        1 => &["Utf8"],
        2 => &["Windows1252", "Utf8", "Iso88591", "Windows1252"],
        _ => &own_pages,
    };
    if kind == 3 {
        out.req("set_db_cp", format!("set_db_cp {}", own.0));
    } else if rng.chance(1, 4) || kind == 2 {
        let cp = *rng.pick(pages);
        out.req("set_db_cp", format!("set_db_cp {cp}"));
    }
    let mut db = RefDb::default();
    // now and then table and column names containing dots that read alike when joined by a dot:
    // table A with column B.Dc, and table A.B with column Dc
    let dotted = rng.chance(1, 6);
    let names = if dotted { ["A", "A.B", "A.B.Dc", "Long_Table.Name9"] } else { ["A", "B", "Tbl3", "Long_Table.Name9"] };
    let nt = if dotted { 2 + rng.below(2) as usize } else { 1 + rng.below(3) as usize };
    for (ti, name) in names.iter().take(nt).enumerate() {
        let wide = rng.chance(1, 5);
        let (n, mut cols) = gen_schema(rng, name, wide);
        if dotted && ti < 2 {
            let mut c = ColDef::new(if ti == 0 { "B.Dc" } else { "Dc" }, CT::Str(8));
            c.nullable = true;
            if rng.chance(1, 2) {
                c.cat = Some(if ti == 0 { "Identifier" } else { "Text" });
            }
            cols.push(c);
        }
        let toks: Vec<String> = cols.iter().map(|c| c.tok()).collect();
        out.req("create_table", format!("create_table {} {}", hex_of_str(&n), toks.join(" ")));
        db.tables.insert(n, RefTable { cols, rows: vec![] });
    }
    out.req("snapshot", "snapshot".into());
    let steps = 3 + rng.below(cfg.max_steps as u64) as usize;
    let mut streams: Vec<String> = vec![];
    for _ in 0..steps {
        let tnames: Vec<String> = db.tables.keys().cloned().collect();
        if tnames.is_empty() {
            break;
        }
        let t = rng.pick(&tnames).clone();
        let tab = db.tables.get(&t).unwrap().clone();
        let choice = rng.below(100);
        let mut mutating = true;
        if choice < 35 {
            // insert 1..4 rows, mostly fresh keys
            let k = 1 + rng.below(4) as usize;
            let mut rows = vec![];
            for _ in 0..k {
                let mut r: Vec<V> = tab.cols.iter().map(|c| gen_value(rng, c, non_ascii, cfg.invalid)).collect();
                if rng.chance(2, 3) {
                    // freshen the first key column
                    let ki = tab.cols.iter().position(|c| c.key).unwrap_or(0);
                    if let V::Int(_) = r[ki] {
                        let (lo, hi) = tab.cols[ki].range.unwrap_or((-30000, 30000));
                        r[ki] = V::Int(rng.range(lo.max(-30000) as i64, hi.min(30000) as i64) as i32);
                    }
                }
                if cfg.invalid && rng.chance(1, 30) {
                    r.pop();
                }
                rows.push(r);
            }
            out.req("insert", format!("insert {} {}", hex_of_str(&t), rows_tok(&rows)));
            if let (Expect::Ok | Expect::Either, Some(new)) = db.insert(&t, &rows) {
                db.tables.insert(t.clone(), new);
            }
        } else if choice < 50 {
            let cond = gen_cond(rng, &tab.cols, &tab.rows);
            // assign 1..2 columns; key columns when asked for
            let mut ups: Vec<(String, V)> = vec![];
            let k = 1 + rng.below(2) as usize;
            for _ in 0..k {
                let ki = tab.cols.iter().position(|c| c.key).unwrap_or(0);
                let i = if cfg.key_updates && rng.chance(1, 2) { ki } else { rng.below(tab.cols.len() as u64) as usize };
                ups.push((tab.cols[i].name.clone(), gen_value(rng, &tab.cols[i], non_ascii, cfg.invalid)));
            }
            if cfg.invalid && rng.chance(1, 25) {
                ups.push(("Nope".into(), V::Int(1)));
            }
            let mut parts = vec![ups.len().to_string()];
            for (c, v) in &ups {
                parts.push(hex_of_str(c));
                parts.push(v.tok());
            }
            out.req("update", format!("update {} {} {}", hex_of_str(&t), parts.join(" "), cond_tok(&cond)));
            if let (Expect::Ok | Expect::Either, Some(new)) = db.update(&t, &ups, &cond) {
                db.tables.insert(t.clone(), new);
            }
        } else if choice < 60 {
            let cond = gen_cond(rng, &tab.cols, &tab.rows);
            out.req("delete", format!("delete {} {}", hex_of_str(&t), cond_tok(&cond)));
            if let (Expect::Ok, Some(new)) = db.delete(&t, &cond) {
                db.tables.insert(t.clone(), new);
            }
        } else if choice < 68 && cfg.selects {
            mutating = false;
            let cond = gen_cond(rng, &tab.cols, &tab.rows);
            let cols: Vec<String> = if rng.chance(1, 2) {
                vec![]
            } else {
                (0..1 + rng.below(2)).map(|_| rng.pick(&tab.cols).name.clone()).collect()
            };
            let sel = Sel { from: Q::Table(t.clone()), cols, cond };
            out.req("select", format!("select {}", sel.toks()));
        } else if choice < 76 && cfg.streams {
            let n = if !streams.is_empty() && rng.chance(1, 2) {
                rng.pick(&streams).clone()
            } else {
                rng.pick(&["logo", "Icon.1", "bin data", "x", "\u{e9}t\u{e9}", "A_very_long_stream_name_012345"]).to_string()
            };
            match rng.below(4) {
                0 => {
                    out.req("stream_remove", format!("stream_remove {}", hex_of_str(&n)));
                    streams.retain(|x| *x != n);
                }
                _ => {
                    let len = *rng.pick(&[0usize, 1, 5, 64, 4095, 4096, 4097, 9000]);
                    let data: Vec<u8> = (0..len).map(|i| (i * 7 + len) as u8).collect();
                    out.req("stream_write", format!("stream_write {} {}", hex_of_str(&n), hex_of_bytes(&data)));
                    if !streams.contains(&n) {
                        streams.push(n);
                    }
                }
            }
        } else if choice < 84 && cfg.summary {
            let s = gen_strings(rng, non_ascii);
            // now and then a text with a NUL character inside or at its end (summary strings are
            // stored with an explicit length AND a terminator)
            let s = if rng.chance(1, 12) { format!("{s}\u{0}{}", rng.pick(&["", "tail"])) } else { s };
            match rng.below(8) {
                0 => out.req("sum_set", format!("sum_set author {}", hex_of_str(&s))),
                1 => out.req("sum_set", format!("sum_set subject {}", hex_of_str(&s))),
                2 => out.req("sum_set", format!("sum_set comments {}", hex_of_str(&s))),
                3 => out.req("sum_set", format!("sum_set wc {}", rng.range(-5, 5000))),
                4 => out.req("sum_set", format!("sum_set arch {}", hex_of_str(*rng.pick(&["x64", "Intel", ""])))),
                5 => out.req("sum_set", format!("sum_set langs {}", rng.pick(&["1033", "1033,1041", "-"]))),
                6 => out.req("sum_clear", format!("sum_clear {}", rng.pick(&["author", "title", "wc", "arch"]))),
                _ => out.req("sum_set", format!("sum_set ctime {}.{}", rng.range(-1000, 2_000_000_000), rng.below(1_000_000_000))),
            }
        } else if choice < 86 && cfg.summary && rng.chance(1, 3) {
            // change the database code page in the middle of a session (sometimes as the only
            // change before the next save)
            let cp = *rng.pick(pages);
            if rng.chance(1, 2) {
                out.req("snapshot", "snapshot".into());
                out.req("reopen", format!("reopen {}", rng.pick(&CLOSE_MODES)));
                out.req("snapshot", "snapshot".into());
            }
            out.req("set_db_cp", format!("set_db_cp {cp}"));
            if rng.chance(1, 2) {
                out.req("snapshot", "snapshot".into());
                out.req("reopen", format!("reopen {}", rng.pick(&CLOSE_MODES)));
            }
        } else if choice < 88 {
            // create another table or drop one (possibly still holding rows)
            if db.tables.len() < 4 && rng.chance(1, 2) {
                let name = names.iter().find(|n| !db.tables.contains_key(**n));
                if let Some(name) = name {
                    let (n, cols) = gen_schema(rng, name, false);
                    let toks: Vec<String> = cols.iter().map(|c| c.tok()).collect();
                    out.req("create_table", format!("create_table {} {}", hex_of_str(&n), toks.join(" ")));
                    db.tables.insert(n, RefTable { cols, rows: vec![] });
                }
            } else {
                out.req("drop_table", format!("drop_table {}", hex_of_str(&t)));
                db.tables.remove(&t);
            }
        } else if choice < 94 && cfg.invalid {
            // calls that must be rejected
            match rng.below(8) {
                0 => out.req("invalid", format!("insert {} 1 1 I1", hex_of_str("NoSuchTable"))),
                1 => out.req("invalid", format!("drop_table {}", hex_of_str("_Tables"))),
                2 => out.req("invalid", format!("drop_table {}", hex_of_str("Missing"))),
                3 => out.req("invalid", format!("create_table {} {}", hex_of_str(&t), ColDef::new("K", CT::I16).tok().replace(":-:-:-:-:-", ":K:-:-:-:-"))),
                4 => out.req("invalid", format!("create_table {} {}", hex_of_str(*rng.pick(&["9bad", "_StringPool", "_StringData", "_Tables"])), "4b:i16:K:-:-:-:-")),
                5 => out.req("invalid", format!("delete {} eq C{} I1", hex_of_str(&t), hex_of_str("Nope"))),
                6 => out.req("invalid", format!("stream_remove {}", hex_of_str("no such stream"))),
                _ => out.req("invalid", format!("create_table {} {}", hex_of_str(&"T".repeat(40)), "4b:i16:K:-:-:-:-")),
            }
        } else if cfg.reopen {
            mutating = false;
            out.req("snapshot", "snapshot".into());
            out.req("reopen", format!("reopen {}", rng.pick(&CLOSE_MODES)));
            out.req("snapshot", "snapshot".into());
            if rng.chance(1, 4) {
                // save and reopen again with no intervening change
                out.req("reopen", format!("reopen {}", rng.pick(&CLOSE_MODES)));
                out.req("snapshot", "snapshot".into());
            }
        }
        if mutating {
            out.req("snapshot", "snapshot".into());
        }
    }
    out.req("flush", "flush".into());
    if cfg.raw {
        out.req("raw", "raw".into());
    }
    out.req("snapshot", "snapshot".into());
    if cfg.reopen {
        out.req("reopen", format!("reopen {}", rng.pick(&CLOSE_MODES)));
        out.req("snapshot", "snapshot".into());
        if cfg.raw {
            out.req("raw", "raw".into());
        }
    }
}

/// all operation sequences up to `depth` over a small alphabet on one table (C03/C05)
pub fn gen_exhaustive(out: &mut Out, depth: usize, big: bool) {
    out.req("new", "new 0".into());
    let mut k = ColDef::new("K", CT::I16);
    k.key = true;
    let mut v = ColDef::new("V", CT::Str(0));
    v.nullable = true;
    let t = hex_of_str("A");
    out.req("create_table", format!("create_table {t} {} {}", k.tok(), v.tok()));
    let keys: Vec<i32> = if big { vec![1, 2, 3] } else { vec![1, 2] };
    let vals: Vec<V> = if big { vec![V::Null, V::Str("x".into()), V::Str("y".into())] } else { vec![V::Null, V::Str("x".into())] };
    let mut ops: Vec<String> = vec![];
    for &kk in &keys {
        for vv in &vals {
            ops.push(format!("insert {t} 1 2 I{kk} {}", vv.tok()));
            ops.push(format!("update {t} 1 {} {} eq C{} I{kk}", hex_of_str("V"), vv.tok(), hex_of_str("K")));
        }
        ops.push(format!("delete {t} eq C{} I{kk}", hex_of_str("K")));
        ops.push(format!("update {t} 1 {} I{kk} -", hex_of_str("K")));
        ops.push(format!("update {t} 1 {} I{} eq C{} I{kk}", hex_of_str("K"), kk + 1, hex_of_str("K")));
    }
    for vv in &vals {
        ops.push(format!("update {t} 1 {} {} -", hex_of_str("V"), vv.tok()));
    }
    ops.push(format!("delete {t} -"));
    ops.push(format!("delete {t} eq C{} N", hex_of_str("V")));
    let n = ops.len();
    let mut idx = vec![0usize; depth];
    loop {
        out.req("reset", format!("delete {t} -"));
        for &i in &idx {
            out.req("op", ops[i].clone());
        }
        out.req("snapshot", "snapshot".into());
        let mut p = depth;
        loop {
            if p == 0 {
                out.exhaustive.push(format!("all sequences of {depth} operations over an alphabet of {n} operations on one table"));
                return;
            }
            p -= 1;
            if idx[p] + 1 < n {
                idx[p] += 1;
                for q in p + 1..depth {
                    idx[q] = 0;
                }
                break;
            }
        }
    }
}
