//! A plain in-memory relational model (the reference for C03/C04/C05/C07/C12), written
//! from the documentation of the API, independent of the library and of the Lean model.

use crate::colfmt::*;
use crate::expr::*;
use std::collections::BTreeMap;

#[derive(Clone, Debug, PartialEq)]
pub struct RefTable {
    pub cols: Vec<ColDef>,
    pub rows: Vec<Vec<V>>, // ascending primary-key order (for library-created tables)
}

#[derive(Clone, Debug, Default, PartialEq)]
pub struct RefDb {
    pub tables: BTreeMap<String, RefTable>,
}

pub fn norm(v: &V) -> V {
    match v {
        V::Str(s) if s.is_empty() => V::Null,
        v => v.clone(),
    }
}

impl RefTable {
    pub fn key_idx(&self) -> Vec<usize> {
        self.cols.iter().enumerate().filter(|(_, c)| c.key).map(|(i, _)| i).collect()
    }
    pub fn key_of(&self, row: &[V]) -> Vec<V> {
        self.key_idx().iter().map(|&i| row[i].clone()).collect()
    }
    pub fn named_row(&self, row: &[V]) -> Vec<(String, V)> {
        self.cols.iter().map(|c| c.name.clone()).zip(row.iter().cloned()).collect()
    }
    pub fn has_cols(&self, e: &E) -> bool {
        let mut cs = vec![];
        e.columns(&mut cs);
        cs.iter().all(|c| self.cols.iter().any(|d| d.name == *c))
    }
}

/// what the documentation lets an operation do
#[derive(Debug, PartialEq)]
pub enum Expect {
    /// must succeed with this resulting table contents
    Ok,
    /// must be refused (argument error), state unchanged
    Refused(&'static str),
    /// the documentation does not decide (e.g. silent about this input)
    Either,
}

impl RefDb {
    /// INSERT: returns the expectation and, if it can succeed, the new table
    pub fn insert(&self, t: &str, rows: &[Vec<V>]) -> (Expect, Option<RefTable>) {
        let tab = match self.tables.get(t) {
            Some(x) => x,
            None => return (Expect::Refused("unknown table"), None),
        };
        let mut undecided = false;
        for r in rows {
            if r.len() != tab.cols.len() {
                return (Expect::Refused("wrong number of values"), None);
            }
            for (c, v) in tab.cols.iter().zip(r.iter()) {
                match c.ref_valid(v) {
                    Some(false) => return (Expect::Refused("invalid value"), None),
                    None => undecided = true,
                    Some(true) => {}
                }
            }
        }
        let mut new = tab.clone();
        let mut keys: std::collections::HashSet<Vec<V>> = new.rows.iter().map(|x| tab.key_of(x)).collect();
        for r in rows {
            let r: Vec<V> = r.iter().map(norm).collect();
            let k = tab.key_of(&r);
            if !keys.insert(k) {
                return (Expect::Refused("duplicate key"), None);
            }
            new.rows.push(r);
        }
        if new.rows.len() > 65536 {
            return (Expect::Either, Some(new));
        }
        let idx = tab.key_idx();
        new.rows.sort_by(|a, b| {
            let ka: Vec<&V> = idx.iter().map(|&i| &a[i]).collect();
            let kb: Vec<&V> = idx.iter().map(|&i| &b[i]).collect();
            ka.cmp(&kb)
        });
        (if undecided { Expect::Either } else { Expect::Ok }, Some(new))
    }

    pub fn delete(&self, t: &str, cond: &Option<E>) -> (Expect, Option<RefTable>) {
        let tab = match self.tables.get(t) {
            Some(x) => x,
            None => return (Expect::Refused("unknown table"), None),
        };
        if let Some(e) = cond {
            if !tab.has_cols(e) {
                return (Expect::Refused("unknown column"), None);
            }
        }
        let mut new = tab.clone();
        new.rows.retain(|r| match cond {
            Some(e) => !e.ref_eval(&tab.named_row(r)).map(|v| v.truthy()).unwrap_or(false),
            None => false,
        });
        (Expect::Ok, Some(new))
    }

    pub fn update(&self, t: &str, ups: &[(String, V)], cond: &Option<E>) -> (Expect, Option<RefTable>) {
        let tab = match self.tables.get(t) {
            Some(x) => x,
            None => return (Expect::Refused("unknown table"), None),
        };
        let mut undecided = false;
        let mut idxs = vec![];
        for (c, v) in ups {
            match tab.cols.iter().position(|d| d.name == *c) {
                None => return (Expect::Refused("unknown column"), None),
                Some(i) => {
                    match tab.cols[i].ref_valid(v) {
                        Some(false) => return (Expect::Refused("invalid value"), None),
                        None => undecided = true,
                        Some(true) => {}
                    }
                    idxs.push((i, norm(v)));
                }
            }
        }
        if let Some(e) = cond {
            if !tab.has_cols(e) {
                return (Expect::Refused("unknown column"), None);
            }
        }
        let mut new = tab.clone();
        for r in new.rows.iter_mut() {
            let hit = match cond {
                Some(e) => e.ref_eval(&tab.named_row(r)).map(|v| v.truthy()).unwrap_or(false),
                None => true,
            };
            if hit {
                for (i, v) in &idxs {
                    r[*i] = v.clone();
                }
            }
        }
        let kidx = tab.key_idx();
        let touches_key = idxs.iter().any(|(i, _)| kidx.contains(i));
        if touches_key {
            let mut keys: Vec<Vec<V>> = new.rows.iter().map(|r| tab.key_of(r)).collect();
            keys.sort();
            if keys.windows(2).any(|w| w[0] == w[1]) {
                return (Expect::Refused("duplicate key"), None);
            }
            new.rows.sort_by(|a, b| tab.key_of(a).cmp(&tab.key_of(b)));
        }
        (if undecided { Expect::Either } else { Expect::Ok }, Some(new))
    }
}

/// reference result of a SELECT tree: (column names, nullable flags, rows) or the refusal
#[derive(Clone, Debug)]
pub enum Q {
    Table(String),
    Inner(Box<Sel>, Box<Sel>, E),
    Left(Box<Sel>, Box<Sel>, E),
}
#[derive(Clone, Debug)]
pub struct Sel {
    pub from: Q,
    pub cols: Vec<String>,
    pub cond: Option<E>,
}

pub struct QRes {
    pub name: String, // table name ("" for anonymous results)
    pub cols: Vec<ColDef>,
    pub rows: Vec<Vec<V>>,
}

impl Sel {
    pub fn parse(toks: &[&str]) -> Option<(Sel, usize)> {
        if toks.first() != Some(&"SEL") {
            return None;
        }
        let k: usize = toks.get(1)?.parse().ok()?;
        let mut cols = vec![];
        for i in 0..k {
            cols.push(crate::util::str_of_hex(toks.get(2 + i)?)?);
        }
        let mut pos = 2 + k;
        let cond = if *toks.get(pos)? == "-" {
            pos += 1;
            None
        } else {
            let (e, n) = E::parse(&toks[pos..])?;
            pos += n;
            Some(e)
        };
        let (from, n) = match *toks.get(pos)? {
            "T" => (Q::Table(crate::util::str_of_hex(toks.get(pos + 1)?)?), 2),
            j @ ("IJ" | "LJ") => {
                let (l, n1) = Sel::parse(&toks[pos + 1..])?;
                let (r, n2) = Sel::parse(&toks[pos + 1 + n1..])?;
                let (e, n3) = E::parse(&toks[pos + 1 + n1 + n2..])?;
                let q = if j == "IJ" { Q::Inner(Box::new(l), Box::new(r), e) } else { Q::Left(Box::new(l), Box::new(r), e) };
                (q, 1 + n1 + n2 + n3)
            }
            _ => return None,
        };
        Some((Sel { from, cols, cond }, pos + n))
    }
    pub fn toks(&self) -> String {
        let mut parts = vec!["SEL".to_string(), self.cols.len().to_string()];
        for c in &self.cols {
            parts.push(crate::util::hex_of_str(c));
        }
        match &self.cond {
            Some(e) => parts.push(e.to_line()),
            None => parts.push("-".into()),
        }
        match &self.from {
            Q::Table(t) => parts.push(format!("T {}", crate::util::hex_of_str(t))),
            Q::Inner(l, r, e) => parts.push(format!("IJ {} {} {}", l.toks(), r.toks(), e.to_line())),
            Q::Left(l, r, e) => parts.push(format!("LJ {} {} {}", l.toks(), r.toks(), e.to_line())),
        }
        parts.join(" ")
    }
    /// documented semantics; Err(kind) = must be refused with that error kind
    pub fn eval(&self, db: &RefDb) -> Result<QRes, &'static str> {
        let base = match &self.from {
            Q::Table(t) => match db.tables.get(t) {
                Some(tab) => QRes { name: t.clone(), cols: tab.cols.clone(), rows: tab.rows.clone() },
                None => return Err("NotFound"),
            },
            Q::Inner(l, r, on) | Q::Left(l, r, on) => {
                let is_left = matches!(self.from, Q::Left(..));
                let a = l.eval(db)?;
                let b = r.eval(db)?;
                let pre = |q: &QRes| -> Vec<ColDef> {
                    q.cols
                        .iter()
                        .map(|c| {
                            let mut c = c.clone();
                            if !q.name.is_empty() {
                                c.name = format!("{}.{}", q.name, c.name);
                            }
                            c
                        })
                        .collect()
                };
                let mut cols = pre(&a);
                let mut right = pre(&b);
                if is_left {
                    for c in right.iter_mut() {
                        c.nullable = true;
                    }
                }
                cols.append(&mut right);
                let mut names = vec![];
                on.columns(&mut names);
                if !names.iter().all(|n| cols.iter().any(|c| c.name == *n)) {
                    return Err("InvalidInput");
                }
                let mut rows = vec![];
                for x in &a.rows {
                    let mut any = false;
                    for y in &b.rows {
                        let row: Vec<V> = x.iter().chain(y.iter()).cloned().collect();
                        let named: Vec<(String, V)> = cols.iter().map(|c| c.name.clone()).zip(row.iter().cloned()).collect();
                        if on.ref_eval(&named).map(|v| v.truthy()).unwrap_or(false) {
                            rows.push(row);
                            any = true;
                        }
                    }
                    if is_left && !any {
                        rows.push(x.iter().cloned().chain(b.cols.iter().map(|_| V::Null)).collect());
                    }
                }
                QRes { name: String::new(), cols, rows }
            }
        };
        let mut idx = vec![];
        for c in &self.cols {
            match base.cols.iter().position(|d| d.name == *c) {
                Some(i) => idx.push(i),
                None => return Err("InvalidInput"),
            }
        }
        if let Some(e) = &self.cond {
            let mut names = vec![];
            e.columns(&mut names);
            if !names.iter().all(|n| base.cols.iter().any(|c| c.name == *n)) {
                return Err("InvalidInput");
            }
        }
        let rows: Vec<Vec<V>> = base
            .rows
            .iter()
            .filter(|r| match &self.cond {
                Some(e) => {
                    let named: Vec<(String, V)> = base.cols.iter().map(|c| c.name.clone()).zip(r.iter().cloned()).collect();
                    e.ref_eval(&named).map(|v| v.truthy()).unwrap_or(false)
                }
                None => true,
            })
            .cloned()
            .collect();
        if idx.is_empty() {
            Ok(QRes { name: base.name, cols: base.cols, rows })
        } else {
            Ok(QRes {
                name: String::new(),
                cols: idx.iter().map(|&i| base.cols[i].clone()).collect(),
                rows: rows.iter().map(|r| idx.iter().map(|&i| r[i].clone()).collect()).collect(),
            })
        }
    }
}
