//! Correspondence harness for the Lean model of rust-msi.
//!
//!   harness gen <prop> <tier> <seed> <outdir>   write <outdir>/requests.txt (+ gen_stats.json)
//!   harness exec <requests> <replies>           run the requests on the REAL crate
//!   harness oracle <prop> <requests> <replies> <outfile>   property oracle on real replies
//!
//! The same request file is fed to the Lean driver (`msidriver`); check.py diffs the
//! reply streams.  All random choices derive from the single seed.

mod colfmt;
mod decode;
mod exec;
mod expr;
mod faults;
mod ffi;
mod gen;
mod hist;
mod oracle;
mod reader;
mod refdb;
mod session;
mod snap;
mod util;
mod walk;

use std::env;
use std::process::exit;

fn main() {
    let args: Vec<String> = env::args().collect();
    if args.len() < 2 {
        eprintln!("usage: harness gen|exec|oracle ...");
        exit(2);
    }
    // Panics are expected outcomes (caught per request); keep stderr quiet.
    std::panic::set_hook(Box::new(|_| {}));
    match args[1].as_str() {
        "gen" => {
            if args.len() != 6 {
                eprintln!("usage: harness gen <prop> <tier> <seed> <outdir>");
                exit(2);
            }
            let seed: u64 = args[4].parse().expect("seed");
            gen::generate(&args[2], &args[3], seed, &args[5]);
        }
        "exec" => {
            if args.len() != 4 {
                eprintln!("usage: harness exec <requests> <replies>");
                exit(2);
            }
            exec::exec_file(&args[2], &args[3]);
        }
        "oracle" => {
            if args.len() != 6 {
                eprintln!("usage: harness oracle <prop> <requests> <replies> <outfile>");
                exit(2);
            }
            oracle::run(&args[2], &args[3], &args[4], &args[5]);
        }
        "ffi" => {
            // child process of `@ffi_check`
            for l in ffi::report(&args[2]) {
                println!("{l}");
            }
        }
        other => {
            eprintln!("unknown subcommand {other}");
            exit(2);
        }
    }
}
