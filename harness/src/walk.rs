//! The history oracle: walks a request/reply stream of the REAL crate, keeps the plain
//! relational reference model, and records every place where a property fails.  Each
//! failure is tagged with the properties it violates.

use crate::colfmt::*;
use crate::decode;
use crate::expr::*;
use crate::oracle::Failure;
use crate::refdb::*;
use crate::snap::*;
use crate::util::*;
use std::collections::{BTreeMap, HashSet};

pub struct Tagged {
    pub tags: Vec<&'static str>,
    pub f: Failure,
}

fn is_ident(s: &str) -> bool {
    let mut cs = s.chars();
    match cs.next() {
        Some(c) if c.is_ascii_alphabetic() || c == '_' => {}
        _ => return false,
    }
    cs.all(|c| c.is_ascii_alphanumeric() || c == '_' || c == '.')
}

/// can the file format represent this column definition exactly?
pub fn ref_storable(c: &ColDef) -> bool {
    if let CT::Str(n) = c.ct {
        if n > 255 {
            return false;
        }
    }
    if c.enums.iter().any(|e| e.is_empty() || e.contains(';')) {
        return false;
    }
    if !c.enums.is_empty() && c.enums.join(";").chars().count() > 255 {
        return false;
    }
    if let Some((a, b)) = c.range {
        if a == i32::MIN || b == i32::MIN {
            return false;
        }
    }
    if let Some((t, i)) = &c.fk {
        if !is_ident(t) || t.chars().count() > 255 || *i < 1 || *i > 32 {
            return false;
        }
    }
    true
}

/// Some(true): the documentation says create_table must succeed; Some(false): must be refused
pub fn ref_create(name: &str, cols: &[ColDef], exists: bool) -> Option<bool> {
    // the three catalog tables exist already; the two pool names would share the pool's streams
    let reserved = ["_Tables", "_Columns", "_Validation", "_StringPool", "_StringData"].contains(&name);
    if !is_ident(name) || cols.is_empty() || cols.len() > 32 || !cols.iter().any(|c| c.key) || exists || reserved {
        return Some(false);
    }
    let mut seen = HashSet::new();
    for c in cols {
        if !is_ident(&c.name) || !seen.insert(c.name.clone()) {
            return Some(false);
        }
        if !ref_storable(c) {
            return Some(false);
        }
    }
    let nlen = name.chars().count();
    if nlen > 60 || cols.iter().any(|c| c.name.chars().count() > 64) {
        return Some(false); // longer than the container / the catalog columns can hold
    }
    if nlen <= 32 && cols.iter().all(|c| c.name.chars().count() <= 32) {
        Some(true)
    } else {
        None
    }
}

/// Some(true): an accepted stream name; Some(false): must be refused
pub fn ref_stream_name(n: &str) -> Option<bool> {
    if n.is_empty() || n.starts_with('\u{4840}') {
        return Some(false);
    }
    if n.chars().any(|c| "/\\:!".contains(c) || (0x3800..0x4840).contains(&(c as u32))) {
        return Some(false);
    }
    let enc = decode::pack_name(n, false);
    Some(enc.encode_utf16().count() <= 31)
}

fn parse_rows_tok(toks: &[&str]) -> Option<Vec<Vec<V>>> {
    let k: usize = toks.first()?.parse().ok()?;
    let mut pos = 1;
    let mut rows = vec![];
    for _ in 0..k {
        let n: usize = toks.get(pos)?.parse().ok()?;
        let mut r = vec![];
        for i in 0..n {
            r.push(V::parse(toks.get(pos + 1 + i)?)?);
        }
        pos += 1 + n;
        rows.push(r);
    }
    Some(rows)
}

fn parse_cond_tok(toks: &[&str]) -> Option<Option<E>> {
    if *toks.first()? == "-" {
        Some(None)
    } else {
        Some(Some(E::parse(toks)?.0))
    }
}

pub struct Walk {
    pub out: Vec<Tagged>,
    pub checked: u64,
    pub nontrivial: HashSet<String>,
    db: RefDb,
    db_known: bool,
    last_snap: Option<(usize, Snap)>,
    ok_mutation_since_snap: bool,
    before_reopen: Option<Snap>,
    after_reopen: bool,
    streams: BTreeMap<String, Vec<u8>>,
    streams_known: bool,
    summary: BTreeMap<&'static str, String>,
    summary_known: bool,
    session_ok: bool,
    /// what the independent decoder reads from the entries of the last `load` (C02)
    loaded: Option<BTreeMap<String, (Vec<ColDef>, Vec<Vec<V>>)>>,
    loaded_pt: Option<usize>,
    pending_sig: Option<Snap>,
    catalog_edited: bool,
    has_validation: bool,
    refused_create_since_snap: bool,
    rejected_since_snap: Vec<String>,
    loaded_summary: Option<BTreeMap<u32, decode::PVal>>,
    loaded_streams: BTreeMap<String, String>,
    is_foreign: bool,
}

impl Walk {
    pub fn new() -> Walk {
        Walk {
            out: vec![], checked: 0, nontrivial: HashSet::new(), db: RefDb::default(), db_known: false,
            last_snap: None, ok_mutation_since_snap: false, before_reopen: None, after_reopen: false,
            streams: BTreeMap::new(), streams_known: false, summary: BTreeMap::new(), summary_known: false,
            session_ok: false, loaded: None, loaded_pt: None, pending_sig: None, catalog_edited: false, has_validation: true, refused_create_since_snap: false, rejected_since_snap: vec![], loaded_summary: None, loaded_streams: BTreeMap::new(), is_foreign: false,
        }
    }
    fn fail(&mut self, tags: &[&'static str], i: usize, q: &str, r: &str, why: String) {
        let reply = if r.len() > 400 { format!("{}...", &r[..400]) } else { r.to_string() };
        let mut tags = tags.to_vec();
        if self.is_foreign && !tags.contains(&"C02") {
            // a database from the independent encoder must also be *usable* as what it encodes
            tags.push("C02");
        }
        self.out.push(Tagged { tags, f: Failure { line_no: i + 1, request: q.to_string(), reply, why } });
    }

    pub fn step(&mut self, i: usize, q: &str, r: &str) {
        let t: Vec<&str> = q.split(' ').collect();
        self.checked += 1;
        if r == "panic" {
            self.fail(&["C01", "C03", "C04", "C09", "C11", "C12", "C20", "C10", "C06"], i, q, r, "the call panicked".into());
            return;
        }
        if r.contains("READAPI:") {
            self.fail(&["C03", "C12", "C01", "C02", "C05", "C06", "C07", "C04"], i, q, r, "the read side of the API is inconsistent with itself (size hints, row columns, value by column name, has_column / get_column / primary_key_indices against the listed columns)".into());
            return;
        }
        if r.contains("STREAMAPI:") {
            self.fail(&["C11", "C01", "C02", "C16"], i, q, r, "reading a stream in pieces, after a partial read or from a position sought to does not give the bytes that one read_to_end gives".into());
            return;
        }
        if !["remove_sig", "snapshot", "has_sig", "streams", "has_stream", "stream_read", "select", "@ffi_check"].contains(&t[0]) {
            self.pending_sig = None;
        }
        match t[0] {
            "new" => {
                self.catalog_edited = false;
                self.has_validation = true;
                self.is_foreign = false;
                self.loaded = None;
                self.db = RefDb::default();
                self.db_known = r == "ok";
                self.session_ok = r == "ok";
                self.last_snap = None;
                self.before_reopen = None;
                self.after_reopen = false;
                self.streams.clear();
                self.streams_known = true;
                self.summary.clear();
                self.summary_known = true;
                self.summary.insert("cp", "65001".into());
                let title = ["Installation Database", "Patch", "Transform"][t[1].parse::<usize>().unwrap().min(2)];
                self.summary.insert("title", hex_of_str(title));
                if r != "ok" {
                    self.fail(&["C01"], i, q, r, "creating a package failed".into());
                }
            }
            "load" => {
                self.catalog_edited = false;
                self.db = RefDb::default();
                self.db_known = false;
                self.session_ok = r == "ok";
                self.last_snap = None;
                self.before_reopen = None;
                self.streams_known = false;
                self.summary_known = false;
                self.is_foreign = true;
                self.loaded = None;
                self.loaded_summary = None;
                self.loaded_streams.clear();
                // what an independent decoder of the format reads from these streams
                if let Some(entries) = crate::session::parse_entries(t[2]) {
                    if let Ok(d) = decode::decode(&entries) {
                        if d.problems.is_empty() && t[1] != "none" {
                            self.loaded = Some(decode::expected_tables(&d));
                            self.loaded_pt = t[1].parse().ok();
                            self.loaded_summary = entries.iter().find(|e| e.0 == "\u{5}SummaryInformation").and_then(|e| decode::parse_propset(&e.1));
                            for (n, data) in &entries {
                                let (dn, is_table) = decode::unpack_name(n);
                                if !is_table && !n.starts_with('\u{5}') {
                                    self.loaded_streams.insert(hex_of_str(&dn), hex_of_bytes(data));
                                }
                            }
                            if r != "ok" {
                                self.fail(&["C02"], i, q, r, "a well-formed database written by the independent encoder is refused".into());
                            }
                        }
                    }
                }
            }
            // (self-contained macro requests do not depend on the session)
            _ if !self.session_ok && !t[0].starts_with('@') => {}
            "create_table" => {
                let name = str_of_hex(t[1]).unwrap();
                let cols: Vec<ColDef> = t[2..].iter().map(|c| ColDef::parse(c).unwrap()).collect();
                let exists = self.db.tables.contains_key(&name);
                let want = ref_create(&name, &cols, exists);
                if r == "ok" {
                    if want == Some(false) {
                        let why = if cols.iter().any(|c| !ref_storable(c)) {
                            "a column definition the file format cannot represent was accepted"
                        } else if cols.len() > 32 {
                            "a table with more than 32 columns was accepted"
                        } else {
                            "an invalid table definition was accepted"
                        };
                        self.fail(&["C06", "C04", "C20"], i, q, r, why.into());
                    }
                    self.db.tables.insert(name.clone(), RefTable { cols, rows: vec![] });
                    self.ok_mutation_since_snap = true;
                    self.nontrivial.insert(format!("create {}", q.len()));
                } else {
                    self.refused_create_since_snap = true;
                    if self.rejected_since_snap.len() < 3 {
                        self.rejected_since_snap.push(q.chars().take(60).collect());
                    }
                }
                if r != "ok" && want == Some(true) && !self.catalog_edited && self.has_validation {
                    // (after direct edits of the catalog tables a definition may collide with rows
                    // already there: refusing it is right, and must leave nothing behind - C04)
                    self.fail(&["C06", "C20"], i, q, r, "a valid table definition within all limits was refused".into());
                }
            }
            "drop_table" => {
                let name = str_of_hex(t[1]).unwrap();
                if r == "ok" {
                    if !self.db.tables.contains_key(&name) && self.db_known {
                        self.fail(&["C04"], i, q, r, "dropping a table that does not exist succeeded".into());
                    }
                    self.db.tables.remove(&name);
                    self.ok_mutation_since_snap = true;
                } else if self.catalog_edited {
                    if self.rejected_since_snap.len() < 3 {
                        self.rejected_since_snap.push(q.chars().take(60).collect());
                    }
                } else if self.db.tables.contains_key(&name) && !r.starts_with("err Other") {
                    self.fail(&["C03"], i, q, r, "dropping an existing user table failed".into());
                }
            }
            "insert" | "update" | "delete" => {
                let name = str_of_hex(t[1]).unwrap();
                if ["_Tables", "_Columns", "_Validation"].contains(&name.as_str()) {
                    // a direct edit of a catalog table: the relational reference does not follow
                    // these; the snapshot comparisons (C01, C04) go on
                    if r == "ok" {
                        self.ok_mutation_since_snap = true;
                        self.catalog_edited = true;
                        self.db_known = false;
                    }
                    return;
                }
                if !self.db_known {
                    if r == "ok" {
                        self.ok_mutation_since_snap = true;
                    }
                    return;
                }
                let (expect, new) = match t[0] {
                    "insert" => self.db.insert(&name, &parse_rows_tok(&t[2..]).unwrap()),
                    "delete" => self.db.delete(&name, &parse_cond_tok(&t[2..]).unwrap()),
                    _ => {
                        let k: usize = t[2].parse().unwrap();
                        let mut ups = vec![];
                        for j in 0..k {
                            ups.push((str_of_hex(t[3 + 2 * j]).unwrap(), V::parse(t[4 + 2 * j]).unwrap()));
                        }
                        let cond = parse_cond_tok(&t[3 + 2 * k..]).unwrap();
                        self.db.update(&name, &ups, &cond)
                    }
                };
                let tags: &[&'static str] = &["C07", "C03"];
                if r == "ok" {
                    match expect {
                        Expect::Refused(why) => {
                            let tg: &[&'static str] = if why == "duplicate key" { &["C05", "C03", "C07"] } else { tags };
                            self.fail(tg, i, q, r, format!("the call must be refused ({why}) but succeeded"));
                            // follow the implementation from here on
                            self.db_known = false;
                        }
                        _ => {
                            if let Some(n) = new {
                                if n.rows.len() > 65536 {
                                    self.fail(&["C20"], i, q, r, "more rows than a table can be read with were accepted".into());
                                }
                                self.db.tables.insert(name, n);
                            }
                        }
                    }
                    self.ok_mutation_since_snap = true;
                    self.nontrivial.insert(q.to_string());
                } else if expect == Expect::Ok {
                    self.fail(tags, i, q, r, "a valid operation was refused".into());
                }
            }
            "select" => {
                if !self.db_known {
                    return;
                }
                let (sel, _) = Sel::parse(&t[1..]).unwrap();
                let is_join = !matches!(sel.from, Q::Table(_));
                // (C13: conditions are expressions; which rows a query keeps is their truth value)
                let tags: &[&'static str] = if is_join { &["C12", "C13"] } else { &["C03", "C12", "C13"] };
                match sel.eval(&self.db) {
                    Err(kind) => {
                        if *r != format!("err {kind}") {
                            self.fail(tags, i, q, r, format!("the query must be refused with {kind}"));
                        }
                    }
                    Ok(res) => {
                        self.nontrivial.insert(q.to_string());
                        if r.starts_with("err") {
                            self.fail(tags, i, q, r, "a valid query was refused".into());
                            return;
                        }
                        let body = r.strip_prefix("cols=").unwrap_or("");
                        let (cols_s, rows_s) = body.split_once(' ').unwrap_or((body, ""));
                        let cols = parse_cols(cols_s).unwrap_or_default();
                        let rows = parse_rows(rows_s);
                        let names: Vec<&str> = cols.iter().map(|c| c.name.as_str()).collect();
                        let want: Vec<&str> = res.cols.iter().map(|c| c.name.as_str()).collect();
                        if names != want {
                            self.fail(tags, i, q, r, format!("result columns {names:?}, documented {want:?}"));
                        } else if cols.iter().zip(res.cols.iter()).any(|(a, b)| a.nullable != b.nullable) {
                            self.fail(&["C12"], i, q, r, "nullability of result columns differs from the documented one".into());
                        }
                        match rows {
                            None => self.fail(tags, i, q, r, "reported length differs from the number of rows yielded".into()),
                            Some(rows) => {
                                if rows != res.rows {
                                    self.fail(tags, i, q, r, format!("rows differ from the relational model: expected {:?}", res.rows.iter().take(6).collect::<Vec<_>>()));
                                }
                            }
                        }
                    }
                }
            }
            "stream_write" | "stream_remove" | "stream_read" | "has_stream" => {
                let name = str_of_hex(t[1]).unwrap();
                let valid = ref_stream_name(&name);
                // the container compares names by length and upper-cased text: a name that equals a
                // live one under that comparison denotes the same stream (listed under the spelling
                // it was first written with)
                let ckey = |n: &str| -> (usize, String) {
                    let e = decode::pack_name(n, false);
                    (e.encode_utf16().count(), e.to_uppercase())
                };
                let name = match self.streams.keys().find(|k| ckey(k.as_str()) == ckey(&name)) {
                    Some(k) => k.clone(),
                    None => name,
                };
                let tags: &[&'static str] = &["C11", "C04"];
                match t[0] {
                    "stream_write" => {
                        if r == "ok" {
                            if valid == Some(false) {
                                self.fail(&["C11", "C20"], i, q, r, "a name the container cannot hold was accepted".into());
                            }
                            self.streams.insert(name, bytes_of_hex(t[2]).unwrap());
                            self.ok_mutation_since_snap = true;
                            self.nontrivial.insert(format!("w {}", t[1]));
                        } else if valid == Some(true) {
                            self.fail(tags, i, q, r, "a valid stream name was refused".into());
                        }
                    }
                    "stream_remove" => {
                        let had = self.streams.contains_key(&name);
                        if r == "ok" {
                            if !had && self.streams_known {
                                self.fail(tags, i, q, r, "removing a stream that does not exist succeeded".into());
                            }
                            self.streams.remove(&name);
                            self.ok_mutation_since_snap = true;
                        } else if had && valid == Some(true) {
                            self.fail(tags, i, q, r, "removing an existing stream failed".into());
                        }
                    }
                    "stream_read" => {
                        if self.streams_known {
                            match self.streams.get(&name) {
                                Some(d) => {
                                    if *r != hex_of_bytes(d) {
                                        self.fail(tags, i, q, r, "stream does not read back the bytes last written".into());
                                    }
                                }
                                None => {
                                    if !r.starts_with("err") {
                                        self.fail(tags, i, q, r, "a stream that was never written can be read".into());
                                    }
                                }
                            }
                        }
                    }
                    _ => {
                        if self.streams_known && valid == Some(true) {
                            let want = self.streams.contains_key(&name);
                            if (r == "1") != want {
                                self.fail(tags, i, q, r, format!("has_stream should be {want}"));
                            }
                        }
                    }
                }
            }
            "streams" => {
                if self.streams_known {
                    let mut want: Vec<String> = self.streams.keys().map(|k| hex_of_str(k)).collect();
                    want.sort();
                    if *r != want.join(",") {
                        self.fail(&["C11"], i, q, r, format!("stream listing differs from the live names {:?}", self.streams.keys().collect::<Vec<_>>()));
                    }
                }
            }
            "remove_sig" => {
                if r == "ok" {
                    // removing the signature removes only the signature: the next snapshot is the
                    // last one with the signature gone
                    if !self.ok_mutation_since_snap && self.pending_sig.is_none() {
                        if let Some((_, last)) = &self.last_snap {
                            let mut exp = last.clone();
                            exp.sig = false;
                            self.pending_sig = Some(exp);
                        }
                    }
                    self.ok_mutation_since_snap = true;
                } else {
                    self.fail(&["C11"], i, q, r, "removing the digital signature failed".into());
                }
            }
            "sum_set" | "sum_clear" | "set_db_cp" => {
                self.ok_mutation_since_snap = true;
                self.track_summary(&t);
            }
            "flush" => {
                if r != "ok" {
                    self.fail(&["C01"], i, q, r, "flush failed without any injected fault".into());
                }
            }
            "reopen" => {
                if r != "ok" {
                    // (a catalog the session itself edited by hand may well describe no valid database)
                    if !self.catalog_edited {
                        self.fail(&["C01", "C20", "C08", "C10", "C06", "C11"], i, q, r, "the saved package does not reopen (the library cannot decode the file it wrote)".into());
                    }
                    self.session_ok = false;
                } else {
                    // only a snapshot taken right before closing (no successful change since) says
                    // what was observable just before closing
                    self.before_reopen = if self.ok_mutation_since_snap { None } else { self.last_snap.as_ref().map(|x| x.1.clone()) };
                    self.after_reopen = true;
                }
            }
            "snapshot" => self.on_snapshot(i, q, r),
            "@summary_raw" => self.on_summary_raw(i, q, r),
            "@ffi_check" => {
                if r.starts_with("abort") {
                    self.fail(&["C02", "C09"], i, q, r, "the C interface (get_information / get_table) aborted the process on this file".into());
                } else if r.starts_with("mismatch") {
                    self.fail(&["C02"], i, q, r, "the C interface reports something else than the Rust API for this file".into());
                }
            }
            "@rows_limit" => {
                // reply: results per batch, accepted=N count=C reopen-count=R delete:.. refill:.. count=F
                let batches: Vec<usize> = t[1..].iter().map(|x| x.parse().unwrap()).collect();
                let parts: Vec<&str> = r.split(' ').collect();
                let mut total = 0usize;
                for (k, b) in batches.iter().enumerate() {
                    let within = total + b <= 65536;
                    let ok = parts.get(k) == Some(&"ok");
                    if within && !ok {
                        self.fail(&["C20"], i, q, r, format!("batch {k} keeps the table within 65,536 rows but was refused"));
                    }
                    if !within && ok {
                        self.fail(&["C20"], i, q, r, format!("batch {k} takes the table beyond 65,536 rows but was accepted"));
                    }
                    if ok {
                        total += b;
                    }
                }
                let get = |key: &str| -> Option<String> { parts.iter().find_map(|p| p.strip_prefix(key).map(|x| x.to_string())) };
                if get("count=") != Some(total.to_string()) {
                    self.fail(&["C20", "C04"], i, q, r, format!("the table should hold the {total} accepted rows (a refused batch changes nothing) and be readable"));
                }
                if get("reopen-count=") != Some(total.to_string()) {
                    self.fail(&["C20", "C01"], i, q, r, format!("after saving, the library does not read back the {total} rows it accepted"));
                }
                self.nontrivial.insert(q.to_string());
            }
            "@catalog_limit" => {
                let want = ["over:err", "over-unchanged=true", "over-reopen-unchanged=true", "exact:ok", "exact-listed=true columns=65536",
                    "tiny:err", "tiny-unchanged=true", "drop:ok", "again:ok", "again-listed=true columns=65536"];
                if r.contains("panic") {
                    self.fail(&["C20", "C09"], i, q, r, "a create_table at the row limit of the catalog tables panics".into());
                } else {
                    for w in want {
                        if !r.contains(w) {
                            self.fail(&["C20", "C04"], i, q, r, format!("at the row limit of `_Columns`/`_Validation`: expected `{w}` (a create_table that does not fit is refused and changes nothing, also after reopening; one that fits exactly is accepted and reopens; a drop frees the room again)"));
                            break;
                        }
                    }
                }
                self.nontrivial.insert(q.to_string());
            }
            "@file_edit" => {
                if r != "ok" {
                    self.fail(&["C01", "C18", "C10", "C11", "C03", "C08"], i, q, r, "a package kept in a file, edited through msi::open_rw and read through msi::open, does not hold what the second session left (creation time, author, rows, stream)".into());
                }
                self.nontrivial.insert(q.to_string());
            }
            "@readonly_file_mutation" => {
                if r != "ok" {
                    self.fail(&["C05", "C03"], i, q, r, "a mutating call refused by the medium (package opened read-only through msi::open) returned its error but the next select shows other cells than before: the failed call changed the session's string pool".into());
                }
                self.nontrivial.insert(q.to_string());
            }
            "@ctime_now" => {
                if r != "ok" {
                    self.fail(&["C18", "C10"], i, q, r, "set_creation_time_to_now() did not store the moment of the call (between the clock readings before and after it, down to 100 ns)".into());
                }
                self.nontrivial.insert(q.to_string());
            }
            "@two_full_tables" => {
                if r.contains("panic") {
                    self.fail(&["C20", "C09"], i, q, r, "two full tables holding one text: the library panics although the database holds a handful of distinct strings".into());
                } else if r != "first:ok second-a:ok second-b:ok third:ok counts=65536,65536" {
                    self.fail(&["C20", "C01"], i, q, r, "two full tables holding one text must be accepted, survive a reopen, and leave room for more".into());
                }
                self.nontrivial.insert(q.to_string());
            }
            "@catalog_hand_limit" => {
                if r.contains("panic") {
                    self.fail(&["C20", "C04", "C09"], i, q, r, "a create_table at the row limit of a hand-filled catalog table panics".into());
                } else {
                    for w in ["fill:ok", "hand-over:err", "hand-over-unchanged=true", "hand-exact:ok", "hand-exact-listed=true", "flush:ok"] {
                        if !r.contains(w) {
                            self.fail(&["C20", "C04"], i, q, r, format!("a catalog table filled by hand to its row limit: expected `{w}` (a create_table that does not fit is refused and changes nothing; one that fits exactly is accepted)"));
                            break;
                        }
                    }
                }
                self.nontrivial.insert(q.to_string());
            }
            "@refcount_saturation" => {
                let n: usize = t[1].parse().unwrap_or(0);
                if r.contains("panic") {
                    self.fail(&["C01", "C08", "C09"], i, q, r, "filling the reference count of one string panics".into());
                } else if !r.contains("same=1") || !r.contains(&format!("fill={n}/{n}")) || !r.contains("create:ok") {
                    self.fail(&["C01", "C06", "C08"], i, q, r, format!("{n} cells share one text, then a table and column of that name are created: after save and reopen the table's definition and the {n} cells must read as before"));
                }
                self.nontrivial.insert(q.to_string());
            }
            "@pool_limit" => {
                let parts: Vec<&str> = r.split(' ').collect();
                let oks = parts.iter().filter(|x| **x == "ok").count();
                if parts.iter().any(|x| x.contains("panic")) {
                    self.fail(&["C20"], i, q, r, "the operation that needs one more string than two-byte references can address panics instead of returning an error".into());
                } else if let Some(last) = parts.last() {
                    if *last != format!("reopen-rows={oks}") {
                        self.fail(&["C20"], i, q, r, "after reaching the string capacity the saved file does not hold the accepted rows".into());
                    }
                }
                self.nontrivial.insert(q.to_string());
            }
            "raw" => self.on_raw(i, q, r),
            _ => {}
        }
    }

    fn track_summary(&mut self, t: &[&str]) {
        if !self.summary_known {
            return;
        }
        if t[0] == "set_db_cp" {
            return;
        }
        let key: &'static str = match t[1] {
            "title" => "title", "subject" => "subject", "author" => "author", "comments" => "comments",
            "app" => "app", "arch" => "arch", "langs" => "langs", "wc" => "wc", "uuid" => "uuid",
            "ctime" => "ctime", "cp" => "cp", _ => return,
        };
        if t[0] == "sum_clear" {
            match key {
                "langs" => { self.summary.insert("langs", String::new()); }
                _ => { self.summary.remove(key); }
            }
            return;
        }
        let arg = t[2];
        let v = match key {
            "langs" => if arg == "-" { String::new() } else { arg.to_string() },
            "uuid" => arg.to_lowercase(),
            "arch" => if arg == "_" { self.summary.remove("arch"); return; } else { arg.to_string() },
            "cp" => crate::exec::cp_by_name(arg).map(|c| c.id().to_string()).unwrap_or_default(),
            "ctime" => {
                // to the format's 100 ns resolution
                let (a, b) = arg.split_once('.').unwrap();
                let ns: i128 = a.parse::<i128>().unwrap() * 1_000_000_000 + b.parse::<i128>().unwrap();
                let ticks = if ns >= 0 { ns / 100 } else { -((-ns) / 100) };
                let back = ticks * 100;
                format!("{}.{}", back.div_euclid(1_000_000_000), back.rem_euclid(1_000_000_000))
            }
            _ => arg.to_string(),
        };
        self.summary.insert(key, v);
    }

    fn on_snapshot(&mut self, i: usize, q: &str, r: &str) {
        let snap = match Snap::parse(r) {
            Some(s) => s,
            None => {
                self.fail(&["C01", "C03"], i, q, r, "snapshot could not be taken".into());
                return;
            }
        };
        if let Some(exp) = self.pending_sig.take() {
            self.nontrivial.insert(format!("sig{i}"));
            if exp != snap {
                let why = describe_diff(&exp, &snap);
                self.fail(&["C11"], i, q, r, format!("after removing the digital signature: {why}"));
            }
        }
        // C01: after a reopen everything observable is what it was before closing
        if self.after_reopen {
            self.after_reopen = false;
            if let Some(before) = self.before_reopen.take() {
                // (a successful change between the reopen and this snapshot makes them incomparable)
                if !self.ok_mutation_since_snap && before != snap {
                    let why = describe_diff(&before, &snap);
                    let tags: &[&'static str] = if self.is_foreign { &["C01", "C02"] } else { &["C01"] };
                    self.fail(tags, i, q, r, format!("after close and reopen: {why}"));
                }
            }
        } else if let Some((_, last)) = &self.last_snap {
            // C04: nothing succeeded since the last snapshot => nothing changed
            if !self.ok_mutation_since_snap && *last != snap {
                let why = describe_diff(last, &snap);
                // (a refused create_table is also a matter of C20: limits are refused with nothing changed)
                let tags: &[&'static str] = if self.refused_create_since_snap { &["C04", "C20"] } else { &["C04"] };
                let rej = if self.rejected_since_snap.is_empty() { String::new() } else { format!(" (refused: {})", self.rejected_since_snap.join(" | ")) };
                self.fail(tags, i, q, r, format!("only rejected calls since the previous snapshot, yet {why}{rej}"));
            }
        }
        if let Some(exp) = self.loaded.take() {
            // C02: opening reports exactly the encoded tables, column definitions and rows
            let failures_before = self.out.len();
            if let Some(pt) = self.loaded_pt.take() {
                if snap.pt != pt {
                    let names = ["installer", "patch", "transform"];
                    self.fail(&["C02"], i, q, r, format!("the root class id of the file marks it as {} package, reported as {}", names[pt.min(2)], names[snap.pt.min(2)]));
                }
            }
            let have: Vec<&String> = snap.tables.keys().filter(|n| *n != "_Tables" && *n != "_Columns").collect();
            let want: Vec<&String> = exp.keys().collect();
            if have != want {
                self.fail(&["C02"], i, q, r, format!("tables reported {have:?}, the file encodes {want:?}"));
            }
            for (n, (cols, rows)) in &exp {
                if let Some(ts) = snap.tables.get(n) {
                    let mut a = ts.cols.clone();
                    for c in a.iter_mut() {
                        c.fk = None;
                    }
                    if a != *cols {
                        self.fail(&["C02"], i, q, r, format!("table {n}: columns reported {:?}, encoded {:?}", a.iter().map(|c| c.tok()).collect::<Vec<_>>(), cols.iter().map(|c| c.tok()).collect::<Vec<_>>()));
                    }
                    match &ts.rows {
                        Ok(rws) => {
                            if rws != rows {
                                self.fail(&["C02"], i, q, r, format!("table {n}: rows reported {:?}, encoded {:?}", rws.iter().take(4).collect::<Vec<_>>(), rows.iter().take(4).collect::<Vec<_>>()));
                            }
                        }
                        Err(e) => self.fail(&["C02"], i, q, r, format!("table {n} cannot be read: {e}")),
                    }
                }
            }
            if self.out.len() == failures_before {
                // from here on the relational reference follows the decoded database, so edits
                // through the API are checked against what the file encodes
                self.db = RefDb::default();
                for (n, (cols, rows)) in exp.iter().filter(|e| e.0 != "_Validation") {
                    self.db.tables.insert(n.clone(), RefTable { cols: cols.clone(), rows: rows.clone() });
                }
                self.db_known = true;
            }
            if snap.streams != self.loaded_streams {
                self.fail(&["C02"], i, q, r, format!("streams reported {:?}, the file holds {:?}", snap.streams.keys().collect::<Vec<_>>(), self.loaded_streams.keys().collect::<Vec<_>>()));
            }
            if let Some(ps) = self.loaded_summary.take() {
                let cp = match ps.get(&1) { Some(decode::PVal::I2(x)) => *x as u16 as u32, _ => 65001 };
                let text = |id: u32| -> String {
                    match ps.get(&id) {
                        Some(decode::PVal::Str(b)) => hex_of_str(&decode::decode_text(cp, b)),
                        _ => "-".into(),
                    }
                };
                for (id, key) in [(2u32, "title"), (3, "subject"), (4, "author"), (6, "comments"), (18, "app")] {
                    let have = snap.summary_field(key).unwrap_or_default();
                    if have != text(id) {
                        self.fail(&["C02"], i, q, r, format!("summary {key}: reported {have}, encoded {}", text(id)));
                    }
                }
                let wc = match ps.get(&15) { Some(decode::PVal::I4(x)) => x.to_string(), _ => "-".into() };
                if snap.summary_field("wc").unwrap_or_default() != wc {
                    self.fail(&["C02"], i, q, r, format!("summary word count: reported {:?}, encoded {wc}", snap.summary_field("wc")));
                }
                if snap.summary_field("cp").unwrap_or_default() != (if cp == 0 { 65001 } else { cp }).to_string() {
                    self.fail(&["C02"], i, q, r, format!("summary code page: reported {:?}, encoded {cp}", snap.summary_field("cp")));
                }
                if let Some(decode::PVal::Time(t)) = ps.get(&12) {
                    let ns: i128 = (*t as i128 - 116_444_736_000_000_000) * 100;
                    let want = format!("{}.{}", ns.div_euclid(1_000_000_000), ns.rem_euclid(1_000_000_000));
                    if snap.summary_field("ctime").unwrap_or_default() != want {
                        self.fail(&["C02"], i, q, r, format!("creation time: reported {:?}, encoded {want}", snap.summary_field("ctime")));
                    }
                }
            }
            self.nontrivial.insert(format!("loaded {}", r.len()));
        }
        if !self.db_known {
            // adopt the implementation's view (foreign file, or after a reported divergence)
            self.db = RefDb::default();
            for (n, ts) in &snap.tables {
                if !n.starts_with('_') {
                    if let Ok(rows) = &ts.rows {
                        self.db.tables.insert(n.clone(), RefTable { cols: ts.cols.clone(), rows: rows.clone() });
                    }
                }
            }
            self.db_known = true;
        } else {
            // C03 / C06: contents and schema equal the relational model
            let user: Vec<&String> = snap.tables.keys().filter(|n| !["_Tables", "_Columns", "_Validation"].contains(&n.as_str())).collect();
            let want: Vec<&String> = self.db.tables.keys().collect();
            if user != want {
                self.fail(&["C03", "C04", "C06", "C01"], i, q, r, format!("tables {user:?}, relational model has {want:?}"));
            }
            let dbt = self.db.tables.clone();
            for (n, rt) in &dbt {
                if let Some(ts) = snap.tables.get(n) {
                    let mut a = ts.cols.clone();
                    let mut b = rt.cols.clone();
                    for c in a.iter_mut().chain(b.iter_mut()) {
                        c.fk = None;
                    }
                    if a != b {
                        self.fail(&["C06"], i, q, r, format!("table {n} is reported with a different schema than it was created with: {:?}", a.iter().map(|c| c.tok()).collect::<Vec<_>>()));
                    }
                    match &ts.rows {
                        Ok(rows) => {
                            if *rows != rt.rows {
                                let mut sorted_a = rows.clone();
                                let mut sorted_b = rt.rows.clone();
                                sorted_a.sort();
                                sorted_b.sort();
                                let tags: &[&'static str] = if sorted_a == sorted_b { &["C03", "C05"] } else { &["C03"] };
                                self.fail(tags, i, q, r, format!("rows of {n} differ from the relational model: have {:?}, expected {:?}", rows.iter().take(5).collect::<Vec<_>>(), rt.rows.iter().take(5).collect::<Vec<_>>()));
                            }
                        }
                        Err(e) => self.fail(&["C03", "C20", "C01"], i, q, r, format!("table {n} can no longer be read: {e}")),
                    }
                }
            }
        }
        // C05: unique ascending keys, valid cells (for tables created through the API)
        for (n, ts) in &snap.tables {
            if let Ok(rows) = &ts.rows {
                let idx: Vec<usize> = ts.cols.iter().enumerate().filter(|(_, c)| c.key).map(|(k, _)| k).collect();
                let keys: Vec<Vec<&V>> = rows.iter().map(|row| idx.iter().map(|&k| &row[k]).collect()).collect();
                if keys.windows(2).any(|w| w[0] >= w[1]) && (self.db.tables.contains_key(n) || n.starts_with('_')) && self.streams_known {
                    self.fail(&["C05"], i, q, r, format!("table {n} holds rows with equal or descending primary keys"));
                }
                if self.streams_known {
                    for row in rows {
                        for (c, v) in ts.cols.iter().zip(row.iter()) {
                            let ok = match v {
                                V::Null => c.nullable || c.ref_valid(&V::Str(String::new())) != Some(false),
                                v => c.ref_valid(v) != Some(false),
                            };
                            if !ok {
                                self.fail(&["C05"], i, q, r, format!("table {n} holds {} in column {}, which the column declares invalid", v.tok(), c.name));
                            }
                        }
                    }
                }
            }
        }
        // C08 (API view of the catalog): _Tables and _Columns list exactly the existing tables
        // (unless the session itself edited the catalog tables directly)
        let cat = |n: &str| if self.catalog_edited { None } else { snap.tables.get(n) };
        let (cat_t, cat_c, cat_v) = (cat("_Tables"), cat("_Columns"), cat("_Validation"));
        if let (Some(tt), Some(ct)) = (cat_t, cat_c) {
            if let (Ok(trows), Ok(crows)) = (&tt.rows, &ct.rows) {
                let listed: Vec<String> = trows.iter().filter_map(|r| match &r[0] { V::Str(s) => Some(s.clone()), _ => None }).collect();
                let mut have: Vec<String> = snap.tables.keys().filter(|n| *n != "_Tables" && *n != "_Columns").cloned().collect();
                have.sort();
                let mut l = listed.clone();
                l.sort();
                if l != have {
                    self.fail(&["C08", "C04"], i, q, r, format!("_Tables lists {l:?} but the tables are {have:?}"));
                }
                for (n, ts) in &snap.tables {
                    if n == "_Tables" || n == "_Columns" {
                        continue;
                    }
                    let mut nums: Vec<(i32, String)> = crows
                        .iter()
                        .filter(|r| r[0] == V::Str(n.clone()))
                        .map(|r| (match r[1] { V::Int(x) => x, _ => -1 }, match &r[2] { V::Str(s) => s.clone(), _ => String::new() }))
                        .collect();
                    nums.sort();
                    let want: Vec<(i32, String)> = ts.cols.iter().enumerate().map(|(k, c)| (k as i32 + 1, c.name.clone())).collect();
                    if nums != want {
                        self.fail(&["C08", "C04"], i, q, r, format!("_Columns rows for {n} are {nums:?}, the table has {want:?}"));
                    }
                }
                for row in crows {
                    if let V::Str(tn) = &row[0] {
                        if !snap.tables.contains_key(tn) {
                            self.fail(&["C08", "C04"], i, q, r, format!("_Columns still lists table {tn}, which does not exist"));
                            break;
                        }
                    }
                }
            }
        }
        if let Some(vt) = cat_v {
            if let Ok(vrows) = &vt.rows {
                for row in vrows {
                    if let V::Str(tn) = &row[0] {
                        if !snap.tables.contains_key(tn) {
                            self.fail(&["C08", "C04"], i, q, r, format!("_Validation still lists table {tn}, which does not exist"));
                            break;
                        }
                    }
                }
            }
        }
        // C11: the listing is exactly the live names, each with the bytes last written
        if self.streams_known {
            let want: BTreeMap<String, String> = self.streams.iter().map(|(k, v)| (hex_of_str(k), hex_of_bytes(v))).collect();
            if want != snap.streams {
                self.fail(&["C11"], i, q, r, format!("streams {:?}, expected {:?}", snap.streams.keys().collect::<Vec<_>>(), want.keys().collect::<Vec<_>>()));
            }
        }
        // C10: getters return what was set
        if self.summary_known {
            for key in ["title", "subject", "author", "comments", "app", "arch", "wc", "uuid", "ctime", "cp"] {
                let have = snap.summary_field(key).unwrap_or_default();
                let want = self.summary.get(key).cloned().unwrap_or_else(|| "-".to_string());
                if have != want {
                    // strings only survive a save when representable in the summary code page
                    let cp = self.summary.get("cp").map(|s| s.as_str()).unwrap_or("65001");
                    let ascii = str_of_hex(&want).map(|s| s.is_ascii()).unwrap_or(true);
                    if cp == "65001" || ascii {
                        self.fail(&["C10"], i, q, r, format!("summary {key} is {have}, expected {want}"));
                    }
                }
            }
            let have = snap.summary_field("langs").unwrap_or_default();
            let want = self.summary.get("langs").cloned().unwrap_or_default();
            if have != want {
                self.fail(&["C10", "C17"], i, q, r, format!("summary languages are {have:?}, expected {want:?}"));
            }
        }
        // (a database written by something else may lack `_Validation`: create_table is then refused)
        self.has_validation = snap.tables.contains_key("_Validation");
        self.last_snap = Some((i, snap));
        self.ok_mutation_since_snap = false;
        self.refused_create_since_snap = false;
        self.rejected_since_snap.clear();
    }

    /// independent parse of the saved summary stream (OLE property set layout only)
    fn on_summary_raw(&mut self, i: usize, q: &str, r: &str) {
        let d = match bytes_of_hex(r) {
            Some(d) => d,
            None => {
                self.fail(&["C10"], i, q, r, "summary stream missing from the saved file".into());
                return;
            }
        };
        let u16at = |o: usize| -> Option<u32> { Some(*d.get(o)? as u32 | (*d.get(o + 1)? as u32) << 8) };
        let u32at = |o: usize| -> Option<u32> { Some(u16at(o)? | u16at(o + 2)? << 16) };
        let mut problems: Vec<String> = vec![];
        (|| -> Option<()> {
            if u16at(0)? != 0xfffe {
                problems.push("bad byte-order mark".into());
            }
            if u32at(24)? != 1 {
                problems.push("section count is not 1".into());
            }
            let fmtid = &d.get(28..44)?;
            if *fmtid != [0xe0u8, 0x85, 0x9f, 0xf2, 0xf9, 0x4f, 0x68, 0x10, 0xab, 0x91, 0x08, 0x00, 0x2b, 0x27, 0xb3, 0xd9] {
                problems.push("wrong FMTID".into());
            }
            let so = u32at(44)? as usize;
            let size = u32at(so)? as usize;
            let count = u32at(so + 4)? as usize;
            if so + size != d.len() {
                problems.push(format!("section size {size} is not exact (stream has {} bytes after the section start)", d.len() - so));
            }
            let mut offs: Vec<(u32, usize)> = vec![];
            for k in 0..count {
                offs.push((u32at(so + 8 + 8 * k)?, u32at(so + 12 + 8 * k)? as usize));
            }
            let mut ends: Vec<(usize, usize)> = vec![];
            let mut cp: u32 = 65001;
            for (id, off) in &offs {
                if off % 4 != 0 {
                    problems.push(format!("offset of property {id} is not 4-byte aligned"));
                }
                let p = so + off;
                let ty = match u32at(p) {
                    Some(t) => t,
                    None => {
                        problems.push(format!("offset of property {id} points outside the stream"));
                        continue;
                    }
                };
                let len = match ty {
                    0 | 1 => 4,
                    2 | 3 | 16 => 8,
                    64 => 12,
                    30 => {
                        let n = u32at(p + 4)? as usize;
                        if n == 0 || d.get(p + 8 + n - 1) != Some(&0) {
                            problems.push(format!("string property {id} is not NUL-terminated where its length says"));
                        }
                        (8 + n + 3) / 4 * 4
                    }
                    t => {
                        problems.push(format!("offset of property {id} does not point at a typed value (type {t})"));
                        continue;
                    }
                };
                if *id == 1 && ty == 2 {
                    cp = u16at(p + 4)?;
                }
                ends.push((*off, off + len));
            }
            ends.sort();
            let mut pos = 8 + 8 * count;
            for (a, b) in &ends {
                if *a != pos {
                    problems.push(format!("values are not laid out back to back (gap or overlap at section offset {a}, expected {pos})"));
                    break;
                }
                pos = *b;
            }
            if pos != size && problems.is_empty() {
                problems.push(format!("values end at {pos} but the section size is {size}"));
            }
            // strings decode (in the code page the set declares) to what the getters report
            if let Some((_, snap)) = &self.last_snap {
                for (id, key) in [(2u32, "title"), (3, "subject"), (4, "author"), (6, "comments"), (18, "app")] {
                    let have = offs.iter().find(|o| o.0 == id);
                    let want = snap.summary_field(key).unwrap_or_default();
                    match have {
                        None => {
                            if want != "-" {
                                problems.push(format!("property {key} is set but missing from the stream"));
                            }
                        }
                        Some((_, off)) => {
                            let p = so + off;
                            if u32at(p) == Some(30) {
                                let n = u32at(p + 4)? as usize;
                                let bytes = d.get(p + 8..p + 8 + n.saturating_sub(1))?;
                                let text = crate::decode::decode_text(cp, bytes);
                                let wanted = str_of_hex(&want).unwrap_or_default();
                                // what is representable must be exact
                                let enc_back = crate::decode::decode_text(cp, &{
                                    let name = crate::exec::ALL_CP.iter().find(|x| x.1.id() as u32 == cp).map(|x| x.1);
                                    name.map(|c| c.encode(&wanted)).unwrap_or_default()
                                });
                                if text != wanted && enc_back == wanted {
                                    problems.push(format!("property {key} is stored as {text:?}, the getter says {wanted:?}"));
                                }
                            }
                        }
                    }
                }
            }
            Some(())
        })();
        self.nontrivial.insert(format!("sumraw {}", r.len()));
        for p in problems {
            self.fail(&["C10"], i, q, r, format!("independent property-set parser: {p}"));
        }
    }

    fn on_raw(&mut self, i: usize, q: &str, r: &str) {
        if r.starts_with("raw-err") {
            self.fail(&["C08", "C01"], i, q, r, "the saved bytes are not a readable compound file".into());
            return;
        }
        let entries: Vec<(String, Vec<u8>)> = r
            .split(' ')
            .filter(|x| !x.is_empty())
            .filter_map(|kv| {
                let (k, v) = kv.split_once('=')?;
                Some((str_of_hex(k)?, bytes_of_hex(v)?))
            })
            .collect();
        match decode::decode(&entries) {
            Err(e) => self.fail(&["C08"], i, q, r, format!("independent decoder: {e}")),
            Ok(d) => {
                self.nontrivial.insert(format!("raw {}", r.len()));
                let acct = if self.is_foreign { vec![] } else { d.accounting_problems() };
                for p in d.problems.iter().chain(acct.iter()) {
                    self.fail(&["C08", "C02"], i, q, r, format!("independent decoder: {p}"));
                }
                let last = self.last_snap.clone();
                if let Some((_, snap)) = &last {
                    // id 0 is the format's "default", which the library reports (and treats) as UTF-8
                    let on_disk = if d.cp_id == 0 { 65001 } else { d.cp_id as i64 };
                    if on_disk != snap.cp {
                        self.fail(&["C08", "C01"], i, q, r, format!("pool header says code page {}, the API {}", d.cp_id, snap.cp));
                    }
                    let mut fails = vec![];
                    for (n, ts) in &snap.tables {
                        if let Ok(rows) = &ts.rows {
                            match d.tables.get(n) {
                                None => {
                                    if !rows.is_empty() {
                                        fails.push(format!("table {n} is missing from the decoded file"));
                                    }
                                }
                                Some((_, drows)) => {
                                    let vals: Vec<Vec<V>> = drows.iter().map(|r| r.iter().map(|c| d.value(c)).collect()).collect();
                                    if vals != *rows {
                                        fails.push(format!("table {n} decodes to {:?}, the API reports {:?}", vals.iter().take(4).collect::<Vec<_>>(), rows.iter().take(4).collect::<Vec<_>>()));
                                    }
                                }
                            }
                        }
                    }
                    for f in fails {
                        self.fail(&["C08", "C02"], i, q, r, f);
                    }
                }
            }
        }
    }
}

pub fn describe_diff(a: &Snap, b: &Snap) -> String {
    if a.pt != b.pt {
        return format!("package type {} became {}", a.pt, b.pt);
    }
    if a.cp != b.cp {
        return format!("database code page {} became {}", a.cp, b.cp);
    }
    for (n, t) in &a.tables {
        match b.tables.get(n) {
            None => return format!("table {n} disappeared"),
            Some(u) => {
                if t.cols != u.cols {
                    return format!("schema of table {n} changed");
                }
                if t.rows != u.rows {
                    return format!("rows of table {n} changed from {:?} to {:?}", t.rows.as_ref().map(|r| r.iter().take(4).cloned().collect::<Vec<_>>()), u.rows.as_ref().map(|r| r.iter().take(4).cloned().collect::<Vec<_>>()));
                }
            }
        }
    }
    for n in b.tables.keys() {
        if !a.tables.contains_key(n) {
            return format!("table {n} appeared");
        }
    }
    if a.streams != b.streams {
        return format!("streams changed from {:?} to {:?}", a.streams.keys().collect::<Vec<_>>(), b.streams.keys().collect::<Vec<_>>());
    }
    if a.summary != b.summary {
        return format!("summary information changed from [{}] to [{}]", a.summary, b.summary);
    }
    if a.sig != b.sig {
        return "digital signature presence changed".into();
    }
    "nothing visible changed".into()
}
