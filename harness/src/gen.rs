//! Request generators, one per property.  Everything random derives from `seed`.

use crate::colfmt::*;
use crate::expr::*;
use crate::util::*;
use std::fs;
use std::io::{BufWriter, Write};

pub struct Out {
    pub w: BufWriter<fs::File>,
    pub n: u64,
    pub counts: Counts,
    pub samples: Vec<String>,
    pub exhaustive: Vec<String>,
}

impl Out {
    pub fn req(&mut self, kind: &str, line: String) {
        self.n += 1;
        self.counts.bump(kind);
        if self.samples.len() < 12 && (self.n % 97 == 1 || self.samples.len() < 3) {
            self.samples.push(line.clone());
        }
        writeln!(self.w, "{}", line).unwrap();
    }
}

pub fn generate(prop: &str, tier: &str, seed: u64, outdir: &str) {
    fs::create_dir_all(outdir).unwrap();
    let w = BufWriter::new(fs::File::create(format!("{outdir}/requests.txt")).unwrap());
    let mut out =
        Out { w, n: 0, counts: Counts::default(), samples: vec![], exhaustive: vec![] };
    let mut rng = Rng::new(seed);
    let thorough = tier == "thorough";
    match prop {
        "C17" => gen_c17(&mut out, &mut rng, thorough),
        "C18" => gen_c18(&mut out, &mut rng, thorough),
        "C13" => gen_c13(&mut out, &mut rng, thorough),
        "C19" => gen_c19(&mut out, &mut rng, thorough),
        "C14" => gen_c14(&mut out, &mut rng, thorough),
        "C07" => {
            gen_c07(&mut out, &mut rng, thorough);
            gen_gate_sessions(&mut out, &mut rng, thorough);
        }
        "C11" => {
            gen_c11(&mut out, &mut rng, thorough);
            gen_stream_sessions(&mut out, &mut rng, thorough);
        }
        "C04" => {
            gen_hist_prop(prop, &mut out, &mut rng, thorough);
            gen_c06(&mut out, &mut rng, false);
        }
        "C01" | "C03" | "C05" | "C08" => gen_hist_prop(prop, &mut out, &mut rng, thorough),
        "C12" => gen_c12(&mut out, &mut rng, thorough),
        "C16" => gen_c16(&mut out, &mut rng, thorough),
        "C09" => {
            gen_c09(&mut out, &mut rng, thorough);
            gen_fk_directed(&mut out, &mut rng, if thorough { 60 } else { 6 });
        }
        "C02" => gen_c02(&mut out, &mut rng, thorough),
        "C15" => {
            let scripts: Vec<usize> = if thorough { (0..crate::faults::NUM_SCRIPTS).collect() } else { vec![0, 1, 2, 4, 5, 6, 7, 8, 9, 10] };
            for n in scripts {
                for kind in ["write", "read", "seek"] {
                    for mode in ["transient", "persistent"] {
                        if !thorough && kind != "write" && mode == "persistent" && n > 1 {
                            continue;
                        }
                        out.req("fault_sweep", format!("@fault_sweep {n} {kind} {mode}"));
                    }
                }
                // the medium's own flush() failing
                out.req("fault_sweep", format!("@fault_sweep {n} flush transient"));
            }
            let _ = &mut rng;
        }
        "C10" => gen_c10(&mut out, &mut rng, thorough),
        "C06" => {
            gen_c06(&mut out, &mut rng, thorough);
            gen_fk_directed(&mut out, &mut rng, if thorough { 300 } else { 18 });
        }
        "C20" => gen_c20(&mut out, &mut rng, thorough),
        _ => {
            eprintln!("no generator for {prop}");
            std::process::exit(2);
        }
    }
    gen_glue_directed(prop, &mut out, thorough);
    out.w.flush().unwrap();
    let samples: Vec<String> = out.samples.iter().map(|s| json_str(s)).collect();
    let exh: Vec<String> = out.exhaustive.iter().map(|s| json_str(s)).collect();
    let stats = format!(
        "{{\"requests\": {}, \"kinds\": {}, \"samples\": [{}], \"exhaustive_parts\": [{}]}}\n",
        out.n,
        out.counts.to_json(),
        samples.join(", "),
        exh.join(", ")
    );
    fs::write(format!("{outdir}/gen_stats.json"), stats).unwrap();
}

// ------------------------------------------------------------------------------------
// C17

pub const WELL_KNOWN: &[(u16, &str)] = &[
    (1033, "en-US"), (2057, "en-GB"), (3081, "en-AU"), (4105, "en-CA"), (1036, "fr-FR"),
    (3084, "fr-CA"), (2060, "fr-BE"), (4108, "fr-CH"), (1031, "de-DE"), (2055, "de-CH"),
    (3079, "de-AT"), (1041, "ja-JP"), (1042, "ko-KR"), (1028, "zh-TW"), (2052, "zh-CN"),
    (3076, "zh-HK"), (4100, "zh-SG"), (1040, "it-IT"), (2064, "it-CH"), (2058, "es-MX"),
    (1046, "pt-BR"), (2070, "pt-PT"), (1049, "ru-RU"), (1043, "nl-NL"), (2067, "nl-BE"),
    (1053, "sv-SE"), (1044, "nb-NO"), (1030, "da-DK"), (1035, "fi-FI"), (1045, "pl-PL"),
    (1029, "cs-CZ"), (1038, "hu-HU"), (1032, "el-GR"), (1055, "tr-TR"), (1037, "he-IL"),
    (1025, "ar-SA"), (1054, "th-TH"), (1066, "vi-VN"), (1057, "id-ID"), (1058, "uk-UA"),
    (9, "en"), (12, "fr"), (7, "de"), (17, "ja"), (4, "zh"),
];

fn gen_c17(out: &mut Out, rng: &mut Rng, thorough: bool) {
    // complete enumeration of all 65,536 codes (finite quantifier, decided completely)
    for code in 0..=65535u32 {
        out.req("lang_rt", format!("lang_rt {code}"));
    }
    out.exhaustive.push("all 65536 language codes".to_string());
    // every identifier through the summary information: set_languages, languages(), save, reopen
    // (lists of 256 consecutive codes; then single codes, duplicates, the neutral 0 inside a list)
    out.req("new", "new 0".into());
    for chunk in 0..256u32 {
        let codes: Vec<String> = (0..256u32).map(|k| (chunk * 256 + k).to_string()).collect();
        out.req("summary_langs", format!("sum_set langs {}", codes.join(",")));
        out.req("snapshot", "snapshot".into());
        if chunk % 8 == 3 {
            // architecture and languages share one stored property: touching one keeps the other
            out.req("summary_arch", format!("sum_set arch {}", hex_of_str(*rng.pick(&["x64", "Intel", "Arm64", ""]))));
            out.req("snapshot", "snapshot".into());
            out.req("summary_arch", "sum_clear arch".into());
            out.req("snapshot", "snapshot".into());
        }
        if chunk % 32 == 31 {
            out.req("reopen", format!("reopen {}", crate::hist::CLOSE_MODES[(chunk as usize / 32) % 3]));
            out.req("snapshot", "snapshot".into());
        }
    }
    for l in ["0", "65535", "32768", "32767", "1033,0,1041", "0,0", "1033,1033", "65535,0,32768", "-"] {
        out.req("summary_langs", format!("sum_set langs {l}"));
        out.req("snapshot", "snapshot".into());
        out.req("reopen", format!("reopen {}", rng.pick(&crate::hist::CLOSE_MODES)));
        out.req("snapshot", "snapshot".into());
    }
    out.exhaustive.push("all 65536 language codes stored in and read back from the summary information".to_string());
    for &(code, tag) in WELL_KNOWN {
        out.req("well_known", format!("lang_tag {code}"));
        out.req("well_known", format!("lang_from_tag_rt {}", hex_of_str(tag)));
    }
    // tags: bounded-exhaustive over a small alphabet, with and without '-'
    let alpha: Vec<char> = "enzhdfrCNUSX-".chars().collect();
    let maxlen = if thorough { 5 } else { 4 };
    let mut cur: Vec<usize> = vec![];
    loop {
        let s: String = cur.iter().map(|&i| alpha[i]).collect();
        out.req("tag_exhaustive", format!("lang_from_tag_rt {}", hex_of_str(&s)));
        // next
        let mut i = cur.len();
        loop {
            if i == 0 {
                cur = vec![0; cur.len() + 1];
                break;
            }
            i -= 1;
            if cur[i] + 1 < alpha.len() {
                cur[i] += 1;
                for j in i + 1..cur.len() {
                    cur[j] = 0;
                }
                break;
            }
        }
        if cur.len() > maxlen {
            break;
        }
    }
    out.exhaustive.push(format!("all tag strings of length <= {maxlen} over {:?}", alpha));
    // random tags: known language + random region, unknown language, odd shapes
    let langs = [
        "en", "fr", "de", "zh", "ar", "es", "pt", "ja", "ko", "ru", "it", "nl", "sv", "xx", "q",
        "haw", "gsw", "sah", "", "EN", "e", "und", "zz", "sr", "az", "uz",
    ];
    let regions = [
        "US", "GB", "CA", "XX", "LU", "CH", "SG", "LY", "GT", "CN", "TW", "", "us", "U", "USA",
        "Latn-RS", "Cyrl", "001", "-", "X-Y", "é", "\u{4e2d}",
    ];
    let n = if thorough { 2_000_000 } else { 50_000 };
    for _ in 0..n {
        let l = *rng.pick(&langs);
        let s = match rng.below(6) {
            0 => l.to_string(),
            1 | 2 | 3 => format!("{}-{}", l, rng.pick(&regions)),
            4 => {
                let a = (b'a' + rng.below(26) as u8) as char;
                let b = (b'a' + rng.below(26) as u8) as char;
                let c = (b'A' + rng.below(26) as u8) as char;
                let d = (b'A' + rng.below(26) as u8) as char;
                format!("{a}{b}-{c}{d}")
            }
            _ => {
                let len = rng.below(8);
                (0..len)
                    .map(|_| *rng.pick(&['a', 'e', 'n', '-', 'U', 'S', 'z', 'h', '\u{e9}', ' ']))
                    .collect()
            }
        };
        out.req("tag_random", format!("lang_from_tag_rt {}", hex_of_str(&s)));
    }
}

// ------------------------------------------------------------------------------------
// C18

pub const EPOCH_TICKS: i128 = 116_444_736_000_000_000;

fn ts_req(out: &mut Out, kind: &str, cmd: &str, ns: i128) {
    // ns from the Unix epoch -> (secs, nanos) with floor division; clamp to the i64 range
    let secs = ns.div_euclid(1_000_000_000);
    let nanos = ns.rem_euclid(1_000_000_000);
    if secs < i64::MIN as i128 || secs > i64::MAX as i128 {
        return;
    }
    out.req(kind, format!("{cmd} {secs} {nanos}"));
}

fn gen_c18(out: &mut Out, rng: &mut Rng, thorough: bool) {
    let min_ns: i128 = -EPOCH_TICKS * 100;
    let max_ns: i128 = (u64::MAX as i128 - EPOCH_TICKS) * 100;
    // every tick boundary near 1601-01-01, 1970-01-01, the tick maximum: sub-tick nanos 0..199, both sides
    for base in [min_ns, 0, max_ns, -100, 100, max_ns - 1_000_000_000, min_ns + 1_000_000_000] {
        for d in -250i128..=250 {
            ts_req(out, "boundary", "ts_rt", base + d);
        }
    }
    // whole-second boundaries around the epoch (the seconds/nanos split of negative times)
    for s in -3i128..=3 {
        for d in [-101i128, -100, -99, -1, 0, 1, 99, 100, 101] {
            ts_req(out, "second_boundary", "ts_rt", s * 1_000_000_000 + d);
        }
    }
    // distances from 1970 (either direction) at which the tick arithmetic leaves 64 bits: whole
    // seconds around u64::MAX / 10^7, with every sub-second part near the point where seconds x
    // 10^7 still fits and adding the sub-second ticks does not; and around u64::MAX / 10^7 +- 1
    {
        let s0: i128 = (u64::MAX / 10_000_000) as i128;
        for ds in -2i128..=2 {
            for f in [0i128, 1, 99, 100, 955_161_499, 955_161_500, 955_161_501, 955_161_599, 955_161_600, 955_161_601, 955_161_700, 999_999_899, 999_999_999] {
                for sign in [1i128, -1] {
                    ts_req(out, "tick_overflow", "ts_rt", sign * ((s0 + ds) * 1_000_000_000 + f));
                    ts_req(out, "tick_overflow", "ts_save", sign * ((s0 + ds) * 1_000_000_000 + f));
                }
            }
        }
    }
    // extremes of the platform's SystemTime (i64 seconds)
    for (secs, nanos) in [
        (i64::MIN, 0u32), (i64::MIN, 1), (i64::MIN, 999_999_999), (i64::MIN + 1, 0),
        (i64::MAX, 0), (i64::MAX, 999_999_999), (i64::MAX - 1, 5),
    ] {
        out.req("extreme", format!("ts_rt {secs} {nanos}"));
    }
    // random times: inside the representable range (most), and anywhere in the i64 range
    let n = if thorough { 10_000_000 } else { 200_000 };
    for i in 0..n {
        let ns: i128 = match i % 10 {
            0 => {
                let secs = rng.next() as i64;
                secs as i128 * 1_000_000_000 + rng.below(1_000_000_000) as i128
            }
            1 => rng.range(-4_000_000_000, 4_000_000_000) as i128, // within 4 s of the epoch
            _ => {
                // uniform tick in the representable range plus sub-tick nanos
                let tick = rng.next() as i128;
                (tick - EPOCH_TICKS) * 100 + rng.below(100) as i128
            }
        };
        ts_req(out, "random", "ts_rt", ns);
    }
    // through save / reopen
    let m = if thorough { 20_000 } else { 1_000 };
    for i in 0..m {
        let ns: i128 = match i % 8 {
            0 => min_ns + rng.range(-300, 300) as i128,
            1 => rng.range(-300, 300) as i128,
            2 => max_ns + rng.range(-300, 300) as i128,
            _ => {
                let tick = rng.next() as i128;
                (tick - EPOCH_TICKS) * 100 + rng.below(100) as i128
            }
        };
        ts_req(out, "save_reopen", "ts_save", ns);
    }
    // ... stored after string properties in every code page (text from the page's own repertoire)
    for round in 0..(if thorough { 20 } else { 2 }) {
        for (page, texts) in crate::hist::PAGE_SAMPLES.iter() {
            for x in texts.iter() {
                let tick = rng.next() as i128;
                let ns = (tick - EPOCH_TICKS) * 100 + rng.below(100) as i128 + round as i128;
                let secs = ns.div_euclid(1_000_000_000);
                let nanos = ns.rem_euclid(1_000_000_000);
                out.req("save_reopen_text", format!("ts_save {secs} {nanos} {page} {}", hex_of_str(x)));
            }
        }
    }
    // ... after texts with NUL characters inside (stored length and terminator must agree)
    for x in ["Jane\u{0}Doe", "\u{0}Jane Doe", "\u{0}\u{0}\u{0}\u{0}", "Acme\u{0}Installer\u{0}Works", "Jane Doe\u{0}", "\u{0}"] {
        for page in ["Utf8", "Windows1252", "Windows932"] {
            let tick = rng.next() as i128;
            let ns = (tick - EPOCH_TICKS) * 100 + rng.below(100) as i128;
            out.req("save_reopen_nul", format!("ts_save {} {} {page} {}", ns.div_euclid(1_000_000_000), ns.rem_euclid(1_000_000_000), hex_of_str(x)));
        }
    }
    // ... stored at every 4-byte-aligned offset around the 8 KiB and 16 KiB marks of the summary
    // stream (buffer sizes of the container's stream writer): a subject text of every length in a
    // window, after a one-character author
    for (lo, hi) in [(7950usize, 8250usize), (16150, 16440)] {
        let step = if thorough { 1 } else { 2 };
        for len in (lo..hi).step_by(step) {
            let tick = rng.next() as i128;
            let ns = (tick - EPOCH_TICKS) * 100 + rng.below(100) as i128;
            let secs = ns.div_euclid(1_000_000_000);
            let nanos = ns.rem_euclid(1_000_000_000);
            let subject = "s".repeat(len + (len % 4 == 3) as usize * 0);
            out.req("save_reopen_offset", format!("ts_save {secs} {nanos} Utf8 {} {}", hex_of_str("a"), hex_of_str(&subject)));
        }
    }
}

// ------------------------------------------------------------------------------------
// C13

pub fn c13_values() -> Vec<V> {
    vec![
        V::Null, V::Int(0), V::Int(1), V::Int(-1), V::Int(2), V::Int(31), V::Int(32),
        V::Int(i32::MIN), V::Int(i32::MAX), V::Str(String::new()), V::Str("a".into()),
        V::Str("b".into()),
    ]
}

pub fn c13_row() -> Vec<(String, V)> {
    c13_values().into_iter().enumerate().map(|(i, v)| (format!("c{i}"), v)).collect()
}

pub fn c13_leaves() -> Vec<E> {
    let mut l: Vec<E> = c13_values().into_iter().map(E::Lit).collect();
    for i in 0..12 {
        l.push(E::Col(format!("c{i}")));
    }
    l
}

pub fn random_expr(rng: &mut Rng, depth: usize, leaves: &[E]) -> E {
    if depth == 0 || rng.chance(1, 5) {
        return rng.pick(leaves).clone();
    }
    if rng.chance(1, 5) {
        let op = *rng.pick(UNOPS);
        E::Un(op, Box::new(random_expr(rng, depth - 1, leaves)))
    } else {
        let op = *rng.pick(BINOPS);
        E::Bin(
            op,
            Box::new(random_expr(rng, depth - 1, leaves)),
            Box::new(random_expr(rng, depth - 1, leaves)),
        )
    }
}

fn gen_c13(out: &mut Out, rng: &mut Rng, thorough: bool) {
    let row = c13_row();
    let rt = row_toks(&row);
    let leaves = c13_leaves();
    // ONE expression object evaluated on two rows that hold the same columns at different
    // positions (reversed, rotated) and different values: the value depends on the row alone
    {
        let mut rev = row.clone();
        rev.reverse();
        let mut rot = row.clone();
        rot.rotate_left(5);
        let vals: Vec<V> = row.iter().map(|x| x.1.clone()).collect();
        let mut shifted = row.clone();
        for (i, x) in shifted.iter_mut().enumerate() {
            x.1 = vals[(i + 3) % vals.len()].clone();
        }
        let others = [row_toks(&rev), row_toks(&rot), row_toks(&shifted)];
        let n = if thorough { 20000 } else { 1500 };
        for i in 0..n {
            let d = 1 + rng.below(3) as usize;
            let e = random_expr(rng, d, &leaves);
            out.req("two_rows", format!("eval2 {rt} {} {}", others[i % 3], e.to_line()));
        }
    }
    // column references are resolved by the exact, whole name: rows (of joins, of anonymous tables)
    // whose column names are qualified, unqualified, differ only in case, or are suffixes of others
    {
        let qrow: Vec<(String, V)> = ["T.a", "a", "U.a", "A", "T.b", "b.c", "c", "T.A", "a.T", "T.b.c"]
            .iter().enumerate().map(|(i, n)| (n.to_string(), V::Int(i as i32 + 1))).collect();
        let qt = row_toks(&qrow);
        let mut rev = qrow.clone();
        rev.reverse();
        let qr = row_toks(&rev);
        let qleaves: Vec<E> = qrow.iter().map(|(n, _)| E::Col(n.clone())).chain([E::Lit(V::Int(100)), E::Lit(V::Null)]).collect();
        for a in &qleaves {
            out.req("names", format!("eval {qt} {}", a.to_line()));
            out.req("names", format!("eval {qr} {}", a.to_line()));
            for b in &qleaves {
                let e = E::Bin("sub", Box::new(a.clone()), Box::new(b.clone()));
                out.req("names", format!("eval {qt} {}", e.to_line()));
                out.req("names", format!("eval2 {qt} {qr} {}", e.to_line()));
            }
        }
        for _ in 0..(if thorough { 3000 } else { 300 }) {
            let e = random_expr(rng, 2, &qleaves);
            out.req("names", format!("eval {} {}", if rng.chance(1, 2) { &qt } else { &qr }, e.to_line()));
        }
    }
    // expressions as conditions: the rows a filter or a join keeps are those on which the
    // expression is true (not zero, not null, not the empty string) - select trees as in C12
    gen_c12_sessions(out, rng, if thorough { 20 } else { 2 }, if thorough { 600 } else { 250 });
    gen_foreign_key_selects(out, if thorough { 12 } else { 3 });
    // depth 1, exhaustive: every operator on every (pair of) leaf
    for op in UNOPS {
        for a in &leaves {
            let e = E::Un(op, Box::new(a.clone()));
            out.req("depth1", format!("eval {rt} {}", e.to_line()));
        }
    }
    for op in BINOPS {
        for a in &leaves {
            for b in &leaves {
                let e = E::Bin(op, Box::new(a.clone()), Box::new(b.clone()));
                out.req("depth1", format!("eval {rt} {}", e.to_line()));
            }
        }
    }
    out.exhaustive.push("all depth-1 trees: 18 operators x 24 leaves (12 literals + 12 columns holding the same values)".into());
    // depth 2, exhaustive over operator pairs and positions with integer-boundary leaves
    let small: Vec<E> = vec![
        E::Lit(V::Int(i32::MIN)), E::Lit(V::Int(i32::MAX)), E::Lit(V::Int(-1)), E::Lit(V::Int(32)),
        E::Col("c7".into()), E::Col("c8".into()), E::Col("c0".into()), E::Col("c10".into()),
    ];
    for outer in BINOPS {
        for inner in BINOPS {
            for a in &small {
                for b in &small {
                    for c in &small {
                        if rng.chance(if thorough { 1 } else { 1 }, if thorough { 1 } else { 6 }) {
                            let l = E::Bin(inner, Box::new(a.clone()), Box::new(b.clone()));
                            let e1 = E::Bin(outer, Box::new(l.clone()), Box::new(c.clone()));
                            let e2 = E::Bin(outer, Box::new(c.clone()), Box::new(l));
                            out.req("depth2", format!("eval {rt} {}", e1.to_line()));
                            out.req("depth2", format!("eval {rt} {}", e2.to_line()));
                        }
                    }
                }
            }
        }
        for inner in UNOPS {
            for a in &small {
                for c in &small {
                    let l = E::Un(inner, Box::new(a.clone()));
                    let e1 = E::Bin(outer, Box::new(l.clone()), Box::new(c.clone()));
                    out.req("depth2", format!("eval {rt} {}", e1.to_line()));
                    let e3 = E::Un(inner, Box::new(E::Bin(outer, Box::new(a.clone()), Box::new(c.clone()))));
                    out.req("depth2", format!("eval {rt} {}", e3.to_line()));
                }
            }
        }
    }
    // random deeper trees (to depth 6)
    let n = if thorough { 3_000_000 } else { 100_000 };
    for _ in 0..n {
        let d = 2 + rng.below(5) as usize;
        let e = random_expr(rng, d, &leaves);
        out.req("random_deep", format!("eval {rt} {}", e.to_line()));
    }
    // a row that lacks a referenced column: the documented panic of Row indexing (not part of
    // the property, which quantifies over rows having the columns); compared model vs real only
    let short: Vec<(String, V)> = row[..3].to_vec();
    for _ in 0..200 {
        let e = random_expr(rng, 2, &leaves);
        out.req("missing_column", format!("eval {} {}", row_toks(&short), e.to_line()));
    }
}

// ------------------------------------------------------------------------------------
// C19

pub fn c19_leaves() -> Vec<E> {
    vec![
        E::Col("a".into()), E::Col("b".into()), E::Col("T.c".into()),
        E::Lit(V::Int(5)), E::Lit(V::Int(-3)), E::Lit(V::Str("x".into())), E::Lit(V::Null),
        E::Lit(V::Str("\u{1f600}\u{e9}".into())),
    ]
}

fn gen_c19(out: &mut Out, rng: &mut Rng, thorough: bool) {
    let cols: Vec<E> = vec![E::Col("a".into()), E::Col("b".into()), E::Col("c".into())];
    // every parent/child operator pair on either side, over column leaves (no folding)
    for outer in BINOPS {
        for inner in BINOPS {
            let l = E::Bin(inner, Box::new(cols[0].clone()), Box::new(cols[1].clone()));
            let e1 = E::Bin(outer, Box::new(l.clone()), Box::new(cols[2].clone()));
            let e2 = E::Bin(outer, Box::new(cols[2].clone()), Box::new(l));
            out.req("pair_bin_bin", format!("fmt {}", e1.to_line()));
            out.req("pair_bin_bin", format!("fmt {}", e2.to_line()));
        }
        for inner in UNOPS {
            let u = E::Un(inner, Box::new(cols[0].clone()));
            out.req("pair_bin_un", format!("fmt {}", E::Bin(outer, Box::new(u.clone()), Box::new(cols[1].clone())).to_line()));
            out.req("pair_bin_un", format!("fmt {}", E::Bin(outer, Box::new(cols[1].clone()), Box::new(u)).to_line()));
            let b = E::Bin(outer, Box::new(cols[0].clone()), Box::new(cols[1].clone()));
            out.req("pair_un_bin", format!("fmt {}", E::Un(inner, Box::new(b)).to_line()));
        }
    }
    for outer in UNOPS {
        for inner in UNOPS {
            let e = E::Un(outer, Box::new(E::Un(inner, Box::new(cols[0].clone()))));
            out.req("pair_un_un", format!("fmt {}", e.to_line()));
        }
    }
    out.exhaustive.push("every parent/child operator pair (18 x 18) on either side over column leaves".into());
    // all trees to depth 2 over a small leaf set (thorough: full; quick: sampled), then random to depth 5
    let leaves = c19_leaves();
    let mut d1: Vec<E> = vec![];
    for op in UNOPS {
        for a in &leaves {
            d1.push(E::Un(op, Box::new(a.clone())));
        }
    }
    for op in BINOPS {
        for a in &leaves {
            for b in &leaves {
                d1.push(E::Bin(op, Box::new(a.clone()), Box::new(b.clone())));
            }
        }
    }
    for e in &d1 {
        out.req("depth1", format!("fmt {}", e.to_line()));
    }
    out.exhaustive.push("all depth-1 trees over 7 leaves".into());
    let n2 = if thorough { 400_000 } else { 30_000 };
    for _ in 0..n2 {
        let a = if rng.chance(2, 3) { rng.pick(&d1).clone() } else { rng.pick(&leaves).clone() };
        let e = if rng.chance(1, 6) {
            E::Un(*rng.pick(UNOPS), Box::new(a))
        } else {
            let b = if rng.chance(2, 3) { rng.pick(&d1).clone() } else { rng.pick(&leaves).clone() };
            E::Bin(*rng.pick(BINOPS), Box::new(a), Box::new(b))
        };
        out.req("depth2", format!("fmt {}", e.to_line()));
    }
    let n = if thorough { 600_000 } else { 40_000 };
    for _ in 0..n {
        let d = 3 + rng.below(3) as usize;
        let e = random_expr(rng, d, &leaves);
        out.req("random_deep", format!("fmt {}", e.to_line()));
    }
    // the four query kinds, with nested joins
    use crate::refdb::*;
    let mut db = RefDb::default();
    for (t, second) in [("Foo", "V"), ("Bar", "W"), ("Baz9", "V")] {
        let mut k = ColDef::new("K", CT::I16);
        k.key = true;
        let mut v = ColDef::new(second, CT::Str(0));
        v.nullable = true;
        db.tables.insert(t.to_string(), RefTable { cols: vec![k, v], rows: vec![] });
    }
    let tables = ["Foo", "Bar", "Baz9"];
    let nq = if thorough { 200_000 } else { 12_000 };
    let lits = [V::Null, V::Int(0), V::Int(-7), V::Int(2147483647), V::Str("x".into()), V::Str("two words".into()), V::Str(String::new()),
        // text beyond ASCII, in and above the basic plane: a printed literal reads back as the same text
        V::Str("caf\u{e9}".into()), V::Str("\u{65e5}\u{672c}".into()), V::Str("\u{1f600}".into()), V::Str("a\u{1d11e}b\u{10348}".into())];
    for _ in 0..nq {
        match rng.below(6) {
            0 | 1 | 2 => {
                let d = rng.below(4) as usize;
                let sel = c12_tree(rng, d, &db, &tables);
                out.req(&format!("query_select{d}"), format!("fmtq select {}", sel.toks()));
            }
            3 => {
                let k = rng.below(4) as usize;
                let mut parts = vec![k.to_string()];
                for _ in 0..k {
                    let n = 1 + rng.below(3) as usize;
                    parts.push(n.to_string());
                    for _ in 0..n {
                        parts.push(rng.pick(&lits).tok());
                    }
                }
                out.req("query_insert", format!("fmtq insert {} {}", hex_of_str(*rng.pick(&tables)), parts.join(" ")));
            }
            4 => {
                let k = 1 + rng.below(3) as usize;
                let mut parts = vec![k.to_string()];
                for _ in 0..k {
                    parts.push(hex_of_str(*rng.pick(&["K", "V", "W", "Col_2"])));
                    parts.push(rng.pick(&lits).tok());
                }
                let cond = if rng.chance(1, 3) { "-".to_string() } else { random_expr(rng, 2, &c19_leaves()).to_line() };
                out.req("query_update", format!("fmtq update {} {} {}", hex_of_str(*rng.pick(&tables)), parts.join(" "), cond));
            }
            5 if rng.chance(1, 2) => {
                // `with()` called several times: the restrictions are AND-ed
                let n = 2 + rng.below(2) as usize;
                let conds: Vec<String> = (0..n).map(|_| { let d = 1 + rng.below(2) as usize; random_expr(rng, d, &c19_leaves()).to_line() }).collect();
                if rng.chance(1, 2) {
                    out.req("query_delete_withs", format!("fmtq deletew {} {} {}", hex_of_str(*rng.pick(&tables)), n, conds.join(" ")));
                } else {
                    let col = hex_of_str(*rng.pick(&["K", "V"]));
                    out.req("query_update_withs", format!("fmtq updatew {} 1 {} {} {} {}", hex_of_str(*rng.pick(&tables)), col, rng.pick(&lits).tok(), n, conds.join(" ")));
                }
            }
            _ => {
                let cond = if rng.chance(1, 3) { "-".to_string() } else { random_expr(rng, 2, &c19_leaves()).to_line() };
                out.req("query_delete", format!("fmtq delete {} {}", hex_of_str(*rng.pick(&tables)), cond));
            }
        }
    }
}

// ------------------------------------------------------------------------------------
// C14

fn per_char_codes(cp: msi::CodePage, s: &str) -> String {
    // per-character codes as the real crate produces them for one-character strings;
    // `?` marks an unmappable character
    let mut parts: Vec<String> = vec![];
    let mut buf = [0u8; 4];
    for c in s.chars() {
        let e = cp.encode(c.encode_utf8(&mut buf));
        if e == b"?" && c != '?' {
            parts.push("?".to_string());
        } else {
            parts.push(hex_of_bytes(&e));
        }
    }
    if parts.is_empty() {
        "_".to_string()
    } else {
        parts.join(",")
    }
}

fn gen_c14(out: &mut Out, rng: &mut Rng, thorough: bool) {
    use crate::exec::ALL_CP;
    for (name, _) in ALL_CP {
        out.req("cp_id", format!("cp_id {name}"));
    }
    // identifiers: everything a u16 can hold, neighbours of every known id, i16/i32 wrap-arounds
    for n in 0..=65535i64 {
        out.req("cp_from_id", format!("cp_from_id {n}"));
    }
    for (_, cp) in ALL_CP {
        let id = cp.id() as i64;
        for d in [-65536i64, -1, 0, 1, 65536, 1 << 31] {
            let v = id + d;
            if v >= i32::MIN as i64 && v <= i32::MAX as i64 {
                out.req("cp_from_id", format!("cp_from_id {v}"));
            }
        }
        out.req("cp_from_id", format!("cp_from_id {}", (id as i16) as i64));
        out.req("cp_from_id", format!("cp_from_id {}", -id));
    }
    for v in [i32::MIN as i64, i32::MAX as i64, -1, -535] {
        out.req("cp_from_id", format!("cp_from_id {v}"));
    }
    out.exhaustive.push("from_id on all ids 0..65535 and wrap-around neighbours of every known id".into());
    // complete per-character sweep and decode sweep on the real implementation (oracle only)
    for (name, _) in ALL_CP {
        out.req("sweep", format!("@cp_sweep {name}"));
        out.req("sweep", format!("@cp_decode_sweep {name}"));
    }
    out.exhaustive.push("all 1,112,064 scalar values x 26 code pages (encode/decode law, wiring against encoding_rs used directly); all 1- and 2-byte sequences x 26 pages (decode total)".into());
    // strings straddling the 1024-byte buffer with multi-byte and unmappable characters at the boundary
    let samples: &[(&str, &[&str])] = &[
        ("Utf8", &["a", "\u{e9}", "\u{20ac}", "\u{1f600}", "\u{feff}"]),
        ("UsAscii", &["a", "\u{e9}", "?"]),
        ("Windows1252", &["a", "\u{e9}", "\u{20ac}", "\u{2603}", "\u{ff}", "\u{fe}"]),
        ("Windows932", &["a", "\u{3042}", "\u{ff76}", "\u{2603}", "\u{e9}"]),
        ("Windows936", &["a", "\u{4e2d}", "\u{20ac}", "\u{1f600}"]),
        ("Windows949", &["a", "\u{d55c}", "\u{2603}", "\u{e9}"]),
        ("Windows950", &["a", "\u{4e2d}", "\u{2603}", "\u{e9}"]),
        ("Windows1251", &["a", "\u{436}", "\u{e9}"]),
        ("MacintoshRoman", &["a", "\u{e9}", "\u{3042}"]),
        ("Iso88597", &["a", "\u{3b1}", "\u{e9}"]),
    ];
    let positions: Vec<usize> = if thorough { (1015..=1032).collect() } else { vec![1020, 1021, 1022, 1023, 1024, 1025, 1026] };
    for (name, chars) in samples {
        let cp = crate::exec::cp_by_name(name).unwrap();
        for &pos in &positions {
            for c1 in chars.iter() {
                for c2 in chars.iter() {
                    // `pos` ASCII bytes, then the two characters, then a tail crossing a second boundary
                    let mut s = "x".repeat(pos);
                    s.push_str(c1);
                    s.push_str(c2);
                    if rng.chance(1, 2) {
                        s.push_str(&"y".repeat(1024 - 2 + rng.below(5) as usize));
                        s.push_str(c2);
                        s.push_str(c1);
                    }
                    out.req("enc_loop", format!("enc_loop {name} {} {}", hex_of_str(&s), per_char_codes(cp, &s)));
                }
            }
        }
    }
    // random strings of random lengths for every page
    let n = if thorough { 20_000 } else { 1_500 };
    let pool: Vec<char> = "az09 ?\u{e9}\u{df}\u{20ac}\u{436}\u{3b1}\u{5d0}\u{627}\u{3042}\u{4e2d}\u{d55c}\u{2603}\u{1f600}\u{feff}\u{fffd}".chars().collect();
    for _ in 0..n {
        let (name, cp) = *rng.pick(ALL_CP);
        let len = match rng.below(4) {
            0 => rng.below(8),
            1 => rng.below(300),
            2 => 1000 + rng.below(60),
            _ => rng.below(3000),
        } as usize;
        let s: String = (0..len).map(|_| if rng.chance(3, 4) { 'k' } else { *rng.pick(&pool) }).collect();
        out.req("enc_loop_random", format!("enc_loop {name} {} {}", hex_of_str(&s), per_char_codes(cp, &s)));
    }
    // ASCII / UTF-8 decode of arbitrary bytes is modelled only for ASCII; UTF-8 valid round trips
    for _ in 0..(if thorough { 20_000 } else { 2_000 }) {
        let len = rng.below(12) as usize;
        let bs: Vec<u8> = (0..len).map(|_| rng.below(256) as u8).collect();
        out.req("ascii_decode", format!("cp_decode UsAscii {}", hex_of_bytes(&bs)));
    }
}

// ------------------------------------------------------------------------------------
// C07

/// all strings over `alpha` up to `maxlen`
pub fn all_strings(alpha: &[char], maxlen: usize, f: &mut dyn FnMut(&str)) {
    let mut cur: Vec<usize> = vec![];
    loop {
        let s: String = cur.iter().map(|&i| alpha[i]).collect();
        f(&s);
        let mut i = cur.len();
        loop {
            if i == 0 {
                cur = vec![0; cur.len() + 1];
                break;
            }
            i -= 1;
            if cur[i] + 1 < alpha.len() {
                cur[i] += 1;
                for j in i + 1..cur.len() {
                    cur[j] = 0;
                }
                break;
            }
        }
        if cur.len() > maxlen {
            break;
        }
    }
}

fn gen_c07(out: &mut Out, rng: &mut Rng, thorough: bool) {
    let l = if thorough { 6 } else { 5 };
    let specs: &[(&str, &str)] = &[
        ("Integer", "+-0139 "), ("DoubleInteger", "+-0129 "), ("Identifier", "Az_.9%#\u{e9}"),
        ("Property", "Az_.9%\u{e9}"), ("Version", "0965.,+-"), ("Language", "0965.,+-"),
        ("Cabinet", "a.\u{e9}#_9"), ("UpperCase", "aZ\u{e9}1"), ("LowerCase", "aZ\u{e9}1"),
        ("Guid", "{}A-a0"), ("Text", "a\u{e9}"),
    ];
    for (cat, alpha) in specs {
        let a: Vec<char> = alpha.chars().collect();
        let ml = if a.len() > 7 && !thorough { l - 1 } else { l };
        all_strings(&a, ml, &mut |s| {
            out.req("validate_exhaustive", format!("validate {cat} {}", hex_of_str(s)));
        });
        out.exhaustive.push(format!("all strings of length <= {ml} over {alpha:?} for {cat}"));
    }
    // boundary numerals
    let nums = [
        "32767", "32768", "-32768", "-32769", "+32767", "2147483647", "2147483648", "-2147483648",
        "-2147483649", "65535", "65536", "065535", "0000065536", "99999999999999999999", "-0", "+0", "00", "-", "+",
    ];
    for n in nums {
        for cat in ["Integer", "DoubleInteger", "Version", "Language"] {
            out.req("numeral_boundary", format!("validate {cat} {}", hex_of_str(n)));
            out.req("numeral_boundary", format!("validate {cat} {}", hex_of_str(&format!("1.{n}"))));
            out.req("numeral_boundary", format!("validate {cat} {}", hex_of_str(&format!("1,{n}"))));
        }
    }
    for v in ["1", "1.2", "1.2.3", "1.2.3.4", "1.2.3.4.5", "1..2", ".1", "1.", "65535.65535.65535.65535", "1,2,3", "1,,3", "1,2,", ""] {
        out.req("version_shapes", format!("validate Version {}", hex_of_str(v)));
        out.req("version_shapes", format!("validate Language {}", hex_of_str(v)));
    }
    // GUID shapes
    let good = "{34AB5C53-9B30-4E14-AEF0-2C1C7BA826C0}";
    let mut guids: Vec<String> = vec![
        good.to_string(), good.to_lowercase(), good[1..37].to_string(), good.replace('-', ""),
        "{HELLOWO-RLDH-ELLO-WORL-DHELLOWORLD0}".into(), good.replace("9B30-", "9B3-0"),
        format!("{{\u{e9}{}", &good[3..]), format!("{}\u{e9}}}", &good[..35]),
        format!("{{{}}}", "A".repeat(36)), format!("{{{}}}", "-".repeat(36)),
        format!("[{}]", &good[1..37]), format!("{} ", &good[..37]),
        "{34AB5C53-9B30-4E14-AEF0-2C1C7BA826C0}}".into(), "{34AB5C539B304E14AEF02C1C7BA826C0-----}".into(),
        "{34AB5C53-9B30-4E14-AEF02C1C-7BA826C0}".into(), "{34AB5C5G-9B30-4E14-AEF0-2C1C7BA826C0}".into(),
        "{+4AB5C53-9B30-4E14-AEF0-2C1C7BA826C0}".into(),
    ];
    for _ in 0..(if thorough { 3000 } else { 300 }) {
        // mutate one position of a valid GUID
        let mut cs: Vec<char> = good.chars().collect();
        let i = rng.below(38) as usize;
        cs[i] = *rng.pick(&['-', '{', '}', 'G', 'a', 'f', '0', 'F', ' ', '\u{e9}', '+']);
        guids.push(cs.into_iter().collect());
    }
    // every single-position mutation of a valid GUID (ASCII and multi-byte replacements: the
    // string keeps its 38 characters but not its 38 bytes), and a multi-byte character at any
    // position together with a second mutation
    let repl = ['-', '{', '}', 'G', 'a', 'f', '0', 'F', ' ', '\u{e9}', '+', '\u{65e5}', '\u{1f600}'];
    for i in 0..38 {
        for r in repl {
            let mut cs: Vec<char> = good.chars().collect();
            cs[i] = r;
            guids.push(cs.into_iter().collect());
        }
    }
    for i in 0..38 {
        let j = (i * 7 + 3) % 38;
        let mut cs: Vec<char> = good.chars().collect();
        cs[i] = '\u{e9}';
        cs[j] = *rng.pick(&repl);
        guids.push(cs.into_iter().collect());
    }
    for g in &guids {
        out.req("guid_shapes", format!("validate Guid {}", hex_of_str(g)));
    }
    // cabinet by structure
    for b in 0..=10usize {
        for e in 0..=5usize {
            for ch in ['a', '\u{e9}'] {
                let base: String = std::iter::repeat(ch).take(b).collect();
                let ext: String = std::iter::repeat(ch).take(e).collect();
                out.req("cabinet_shapes", format!("validate Cabinet {}", hex_of_str(&format!("{base}.{ext}"))));
                out.req("cabinet_shapes", format!("validate Cabinet {}", hex_of_str(&base)));
                out.req("cabinet_shapes", format!("validate Cabinet {}", hex_of_str(&format!("{base}.x.{ext}"))));
            }
        }
    }
    // values built by the library itself
    for _ in 0..(if thorough { 20_000 } else { 2_000 }) {
        let hex: String = (0..32).map(|_| format!("{:x}", rng.below(16))).collect();
        out.req("guid_value", format!("guid_value {hex}"));
    }
    for hex in ["00000000000000000000000000000000", "ffffffffffffffffffffffffffffffff", "abcdefabcdefabcdefabcdefabcdefab"] {
        out.req("guid_value", format!("guid_value {hex}"));
    }
    for code in 0..=65535u32 {
        if thorough || code % 7 == 0 || code < 1100 || code > 65000 {
            out.req("langs_value", format!("langs_value {code}"));
        }
    }
    for _ in 0..(if thorough { 20_000 } else { 2_000 }) {
        let k = 1 + rng.below(5);
        let codes: Vec<String> = (0..k).map(|_| rng.below(65536).to_string()).collect();
        out.req("langs_value", format!("langs_value {}", codes.join(",")));
    }
    // is_valid_value: integers around every boundary x column kinds
    let mut cols: Vec<ColDef> = vec![];
    for ct in [CT::I16, CT::I32, CT::Str(0), CT::Str(3)] {
        for nullable in [false, true] {
            let mut c = ColDef::new("C", ct.clone());
            c.nullable = nullable;
            cols.push(c.clone());
            c.range = Some((-5, 5));
            cols.push(c.clone());
            c.range = Some((i32::MIN, i32::MAX));
            cols.push(c.clone());
            c.range = Some((5, -5));
            cols.push(c.clone());
            c.range = Some((32766, 40000));
            cols.push(c);
        }
    }
    let ints: Vec<i32> = {
        let mut v = vec![];
        for b in [0i64, -5, 5, -32768, 32767, 32766, 40000, i32::MIN as i64, i32::MAX as i64] {
            for d in -2..=2 {
                let x = b + d;
                if x >= i32::MIN as i64 && x <= i32::MAX as i64 {
                    v.push(x as i32);
                }
            }
        }
        v
    };
    for c in &cols {
        for n in &ints {
            out.req("is_valid_int", format!("is_valid {} {}", c.tok(), V::Int(*n).tok()));
        }
        out.req("is_valid_null", format!("is_valid {} N", c.tok()));
        for s in ["", "a", "abc", "abcd", "\u{e9}\u{e9}\u{e9}", "\u{e9}\u{e9}\u{e9}\u{e9}"] {
            out.req("is_valid_str", format!("is_valid {} {}", c.tok(), V::Str(s.into()).tok()));
        }
    }
    out.exhaustive.push("integers within +-2 of every storage/range boundary x 40 column shapes".into());
    // string columns: width x enum x category
    for max in [0usize, 1, 2, 5] {
        for enums in [vec![], vec!["a".to_string(), "bb".to_string()], vec!["".to_string()], vec!["a;b".to_string()]] {
            for cat in [None, Some("Identifier"), Some("Integer"), Some("UpperCase"), Some("Version")] {
                let mut c = ColDef::new("S", CT::Str(max));
                c.enums = enums.clone();
                c.cat = cat;
                for nullable in [false, true] {
                    c.nullable = nullable;
                    for s in ["", "a", "bb", "A", "a;b", "12", "1.2", "abcdef", "\u{e9}", "_x", "+1"] {
                        out.req("is_valid_strcol", format!("is_valid {} {}", c.tok(), V::Str(s.into()).tok()));
                    }
                    out.req("is_valid_strcol", format!("is_valid {} I1", c.tok()));
                    out.req("is_valid_strcol", format!("is_valid {} N", c.tok()));
                }
            }
        }
    }
    // random strings per category
    let pool: Vec<char> = "Aaz_.9%#+-0165,{} \u{e9}\u{4e2d}".chars().collect();
    for _ in 0..(if thorough { 400_000 } else { 40_000 }) {
        let (cat, _) = *rng.pick(CATEGORIES);
        let len = rng.below(12) as usize;
        let s: String = (0..len).map(|_| *rng.pick(&pool)).collect();
        out.req("validate_random", format!("validate {cat} {}", hex_of_str(&s)));
    }
}

// ------------------------------------------------------------------------------------
// C11 (name codec part)

pub fn c11_name_pool() -> Vec<char> {
    // packable, unpackable ASCII, non-ASCII, packing-range code points, table marker, reserved
    "aZ09._ -#\u{e9}\u{4e2d}\u{3800}\u{3801}\u{47ff}\u{4800}\u{483f}\u{4840}\u{4841}\u{5}/\\:!\u{1f600}".chars().collect()
}

fn gen_c11(out: &mut Out, rng: &mut Rng, thorough: bool) {
    let pool = c11_name_pool();
    let ml = if thorough { 4 } else { 3 };
    all_strings(&pool, ml, &mut |s| {
        let h = hex_of_str(s);
        out.req("codec_exhaustive", format!("sn_valid {h} 0"));
        out.req("codec_exhaustive", format!("sn_encode {h} 0"));
        out.req("codec_exhaustive", format!("sn_decode {h}"));
    });
    out.exhaustive.push(format!("all names of length <= {ml} over {} characters (packable, unpackable, packing range, table marker, reserved): is_valid / encode / decode", pool.len()));
    // every length up to and beyond the limit, packable and not
    for len in 0..=70usize {
        for ch in ['a', '-', '\u{e9}', '\u{1f600}'] {
            let s: String = std::iter::repeat(ch).take(len).collect();
            let h = hex_of_str(&s);
            for t in [0, 1] {
                out.req("length_limit", format!("sn_valid {h} {t}"));
                out.req("length_limit", format!("sn_encode {h} {t}"));
            }
            let mixed: String = (0..len).map(|i| if i % 3 == 2 { '-' } else { 'b' }).collect();
            out.req("length_limit", format!("sn_valid {} 0", hex_of_str(&mixed)));
            out.req("length_limit", format!("sn_encode {} 0", hex_of_str(&mixed)));
        }
    }
    let n = if thorough { 300_000 } else { 30_000 };
    for _ in 0..n {
        let len = rng.below(40) as usize;
        let s: String = (0..len).map(|_| if rng.chance(2, 3) { *rng.pick(&['a', 'B', '7', '.', '_']) } else { *rng.pick(&pool) }).collect();
        let h = hex_of_str(&s);
        out.req("codec_random", format!("sn_valid {h} {}", rng.below(2)));
        out.req("codec_random", format!("sn_encode {h} {}", rng.below(2)));
        out.req("codec_random", format!("sn_decode {h}"));
    }
}

// ------------------------------------------------------------------------------------
// state-machine properties: histories

/// reference counts that only go DOWN between two saves (the released strings stay referenced
/// elsewhere), across every way of closing; then release the rest: no text may stay behind
fn gen_c08_directed(out: &mut Out, rng: &mut Rng, n: usize) {
    let t = hex_of_str("T");
    let k = hex_of_str("K");
    let sc = hex_of_str("S");
    let texts = ["shared", "other text", "third"];
    for case in 0..n {
        out.req("new", format!("new {}", rng.below(3)));
        out.req("create_table", format!("create_table {t} {k}:i16:K:-:-:-:- {sc}:s32:N:-:-:-:- {}:s0:LN:-:-:-:-", hex_of_str("D")));
        let rows = 3 + rng.below(5) as i32;
        let mut parts = vec![rows.to_string()];
        for r in 0..rows {
            parts.push(format!("3 I{} S{} S{}", r + 1, hex_of_str(texts[(r % 2) as usize]), hex_of_str(texts[((r + case as i32) % 3) as usize])));
        }
        out.req("insert", format!("insert {t} {}", parts.join(" ")));
        match case % 3 {
            0 => out.req("flush", "flush".into()),
            1 => out.req("reopen", format!("reopen {}", rng.pick(&crate::hist::CLOSE_MODES))),
            _ => {}
        }
        // release some references, never the last one of a string
        match rng.below(3) {
            0 => out.req("delete", format!("delete {t} eq C{k} I1")),
            1 => out.req("update", format!("update {t} 1 {sc} S{} eq C{k} I1", hex_of_str(texts[1]))),
            _ => out.req("update", format!("update {t} 1 {} N eq C{k} I{}", hex_of_str("D"), 1 + rng.below(2))),
        }
        out.req("flush", "flush".into());
        out.req("raw", "raw".into());
        out.req("snapshot", "snapshot".into());
        out.req("reopen", format!("reopen {}", rng.pick(&crate::hist::CLOSE_MODES)));
        out.req("snapshot", "snapshot".into());
        if rng.chance(1, 2) {
            out.req("delete", format!("delete {t} -"));
        } else {
            out.req("drop_table", format!("drop_table {t}"));
        }
        out.req("flush", "flush".into());
        out.req("snapshot", "snapshot".into());
        out.req("raw", "raw".into());
        out.req("reopen", format!("reopen {}", rng.pick(&crate::hist::CLOSE_MODES)));
        out.req("snapshot", "snapshot".into());
        out.req("raw", "raw".into());
    }
}

/// save segments in which exactly ONE thing changes (so nothing else can make the writer rewrite
/// what that change alone requires): a code page change, one insert, an update to "", a delete,
/// a stream, a summary field, a table created or dropped; Latin-1 text under pages that encode it
/// differently; every way of closing
fn gen_c01_directed(out: &mut Out, rng: &mut Rng, n: usize) {
    let t = hex_of_str("T");
    let k = hex_of_str("K");
    let sc = hex_of_str("S");
    let pages = ["Utf8", "Windows1252", "Iso88591"];
    for case in 0..n {
        out.req("new", format!("new {}", rng.below(3)));
        let p0 = pages[case % 3];
        out.req("set_db_cp", format!("set_db_cp {p0}"));
        out.req("create_table", format!("create_table {t} {k}:i16:K:-:-:-:- {sc}:s32:N:-:-:-:-"));
        if case % 4 == 3 {
            // names of the format's own streams used as table names, with integer-only rows (no
            // pool change): whatever is accepted must be read back, and nothing else may change
            let a = format!("{}{}", "A".repeat(1 + case % 9), case % 7);
            out.req("create_table", format!("create_table {} {k}:i16:K:-:-:-:-", hex_of_str(&a)));
            let reserved = hex_of_str(*rng.pick(&["_StringData", "_StringPool", "_StringData"]));
            out.req("create_reserved", format!("create_table {reserved} {k}:{}:K:-:-:-:-", rng.pick(&["i16", "i32"])));
            out.req("flush", "flush".into());
            out.req("snapshot", "snapshot".into());
            out.req("insert_reserved", format!("insert {reserved} 1 1 I{}", 1 + rng.below(9)));
            out.req("snapshot", "snapshot".into());
            out.req("reopen", format!("reopen {}", rng.pick(&crate::hist::CLOSE_MODES)));
            out.req("snapshot", "snapshot".into());
        }
        out.req("insert", format!("insert {t} 3 2 I1 S{} 2 I2 S{} 2 I3 S{}", hex_of_str("caf\u{e9}"), hex_of_str("x"), hex_of_str("caf\u{e9}")));
        out.req("snapshot", "snapshot".into());
        out.req("reopen", format!("reopen {}", rng.pick(&crate::hist::CLOSE_MODES)));
        out.req("snapshot", "snapshot".into());
        let segments = 2 + rng.below(3);
        for _ in 0..segments {
            match rng.below(9) {
                0 | 1 => {
                    let p1 = pages[rng.below(3) as usize];
                    out.req("set_db_cp", format!("set_db_cp {p1}"));
                }
                2 => out.req("insert", format!("insert {t} 1 2 I{} S{}", 10 + rng.below(50), hex_of_str(*rng.pick(&["x", "caf\u{e9}", "new text"])))),
                3 => out.req("update", format!("update {t} 1 {sc} S_ eq C{k} I{}", 1 + rng.below(3))),
                4 => out.req("update", format!("update {t} 1 {sc} S{} eq C{k} I{}", hex_of_str(*rng.pick(&["x", "\u{e9}t\u{e9}"])), 1 + rng.below(3))),
                5 => out.req("delete", format!("delete {t} eq C{k} I{}", 1 + rng.below(3))),
                6 => out.req("stream_write", format!("stream_write {} 01020304", hex_of_str("bin"))),
                7 => out.req("sum_set", format!("sum_set subject {}", hex_of_str("caf\u{e9}"))),
                _ => out.req("create_table", format!("create_table {} {k}:i16:K:-:-:-:-", hex_of_str(*rng.pick(&["U", "V"])))),
            }
            out.req("snapshot", "snapshot".into());
            out.req("reopen", format!("reopen {}", rng.pick(&crate::hist::CLOSE_MODES)));
            out.req("snapshot", "snapshot".into());
            if rng.chance(1, 3) {
                out.req("raw", "raw".into());
            }
        }
    }
}


/// sessions whose ONLY effect on the string pool is that strings already in it gain references
/// (nothing interned, nothing released), between two saves; later one of the references is
/// released in another session: the other cells must keep their text, counts must stay exact
fn gen_refs_up_directed(out: &mut Out, rng: &mut Rng, n: usize) {
    let t = hex_of_str("T");
    let k = hex_of_str("K");
    let sc = hex_of_str("S");
    for case in 0..n {
        out.req("new", format!("new {}", rng.below(3)));
        out.req("create_table", format!("create_table {t} {k}:i16:K:-:-:-:- {sc}:s32:N:-:-:-:-"));
        out.req("insert", format!("insert {t} 2 2 I1 S{} 2 I2 S{}", hex_of_str("shared"), hex_of_str("other")));
        out.req("snapshot", "snapshot".into());
        out.req("reopen", format!("reopen {}", crate::hist::CLOSE_MODES[case % 3]));
        out.req("snapshot", "snapshot".into());
        // only re-references: the text of an existing cell, or the name of a column / table
        let again = *rng.pick(&["shared", "other", "S", "T", "K"]);
        match case % 4 {
            0 | 1 => out.req("insert", format!("insert {t} 1 2 I3 S{}", hex_of_str(again))),
            2 => out.req("update", format!("update {t} 1 {sc} S{} eq C{k} I2", hex_of_str("shared"))),
            _ => out.req("insert", format!("insert {t} 2 2 I3 S{} 2 I4 S{}", hex_of_str("shared"), hex_of_str(again))),
        }
        out.req("snapshot", "snapshot".into());
        out.req("reopen", format!("reopen {}", rng.pick(&crate::hist::CLOSE_MODES)));
        out.req("snapshot", "snapshot".into());
        out.req("raw", "raw".into());
        // release one of the references in a third session
        match rng.below(3) {
            0 => out.req("delete", format!("delete {t} eq C{k} I3")),
            1 => out.req("delete", format!("delete {t} eq C{k} I1")),
            _ => out.req("update", format!("update {t} 1 {sc} S{} eq C{k} I3", hex_of_str("fresh text"))),
        }
        out.req("snapshot", "snapshot".into());
        out.req("reopen", format!("reopen {}", rng.pick(&crate::hist::CLOSE_MODES)));
        out.req("snapshot", "snapshot".into());
        out.req("raw", "raw".into());
        out.req("delete", format!("delete {t} -"));
        out.req("flush", "flush".into());
        out.req("snapshot", "snapshot".into());
        out.req("raw", "raw".into());
    }
}

/// every one of the 26 code pages as the database code page, with text from that page's own
/// repertoire (short, mixed ASCII / multi-byte), saved and reopened in every close mode; then
/// moved to UTF-8 and back
/// strings whose encoded length sits on and around the multiples of 65,536 bytes (the long-string
/// escape of the pool) and of the encoder's 1 KiB chunk, in one- and two-byte characters, stored,
/// saved, reopened, then another string-touching change and another reopen
fn gen_long_strings_directed(out: &mut Out, rng: &mut Rng, thorough: bool) {
    let t = hex_of_str("T");
    let k = hex_of_str("K");
    let sc = hex_of_str("S");
    let lens: &[usize] = if thorough { &[65535, 65536, 65537, 131071, 131072, 131073, 196608, 70000] } else { &[65535, 65536, 65537, 131072] };
    for (case, &len) in lens.iter().enumerate() {
        for two_byte in [false, true] {
            out.req("new", format!("new {}", case % 3));
            out.req("create_table", format!("create_table {t} {k}:i16:K:-:-:-:- {sc}:s0:N:-:-:-:-"));
            let text: String = if two_byte { "\u{e9}".repeat(len / 2) + if len % 2 == 1 { "x" } else { "" } } else { "L".repeat(len) };
            out.req("insert", format!("insert {t} 3 2 I1 S{} 2 I2 S{} 2 I3 S{}", hex_of_str("before"), hex_of_str(&text), hex_of_str("after")));
            out.req("snapshot", "snapshot".into());
            out.req("reopen", format!("reopen {}", crate::hist::CLOSE_MODES[case % 3]));
            out.req("snapshot", "snapshot".into());
            out.req("insert", format!("insert {t} 1 2 I4 S{}", hex_of_str("later")));
            out.req("snapshot", "snapshot".into());
            out.req("reopen", format!("reopen {}", rng.pick(&crate::hist::CLOSE_MODES)));
            out.req("snapshot", "snapshot".into());
            out.req("raw", "raw".into());
            // the long text stops being long after it has been saved (deleted, replaced by a short
            // one, or re-encoded below 64 KiB by another code page): the saved pool gets shorter
            match (case + two_byte as usize) % 3 {
                0 => out.req("delete", format!("delete {t} eq C{k} I2")),
                1 => out.req("update", format!("update {t} 1 {sc} S{} eq C{k} I2", hex_of_str("short now"))),
                _ => {
                    if two_byte {
                        out.req("set_db_cp", "set_db_cp Windows1252".into());
                    } else {
                        out.req("drop_table", format!("drop_table {t}"));
                    }
                }
            }
            out.req("snapshot", "snapshot".into());
            out.req("reopen", format!("reopen {}", crate::hist::CLOSE_MODES[(case + 1) % 3]));
            out.req("snapshot", "snapshot".into());
            out.req("raw", "raw".into());
        }
    }
    // a multi-byte character across each 1 KiB boundary of the encoder's chunk
    for off in [1022usize, 1023, 1024, 2047, 2048, 3071] {
        out.req("new", "new 0".into());
        out.req("create_table", format!("create_table {t} {k}:i16:K:-:-:-:- {sc}:s0:N:-:-:-:-"));
        let text = format!("{}\u{e9}{}\u{65e5}{}", "a".repeat(off), "b".repeat(1021), "c".repeat(40));
        out.req("insert", format!("insert {t} 2 2 I1 S{} 2 I2 S{}", hex_of_str(&text), hex_of_str("after")));
        out.req("snapshot", "snapshot".into());
        out.req("reopen", format!("reopen {}", rng.pick(&crate::hist::CLOSE_MODES)));
        out.req("snapshot", "snapshot".into());
        out.req("insert", format!("insert {t} 1 2 I3 S{}", hex_of_str("later")));
        out.req("snapshot", "snapshot".into());
        out.req("reopen", format!("reopen {}", rng.pick(&crate::hist::CLOSE_MODES)));
        out.req("snapshot", "snapshot".into());
        out.req("raw", "raw".into());
    }
}

fn gen_pages_directed(out: &mut Out, rng: &mut Rng, rounds: usize) {
    let t = hex_of_str("T");
    let k = hex_of_str("K");
    let sc = hex_of_str("S");
    for round in 0..rounds {
        for (pi, (page, texts)) in crate::hist::PAGE_SAMPLES.iter().enumerate() {
            out.req("new", format!("new {}", (pi + round) % 3));
            out.req("set_db_cp", format!("set_db_cp {page}"));
            out.req("create_table", format!("create_table {t} {k}:i16:K:-:-:-:- {sc}:s0:N:-:-:-:-"));
            let mut parts = vec![(texts.len() + 1).to_string()];
            for (i, x) in texts.iter().enumerate() {
                parts.push(format!("2 I{} S{}", i + 1, hex_of_str(x)));
            }
            parts.push(format!("2 I{} S{}", texts.len() + 1, hex_of_str("first")));
            out.req("insert", format!("insert {t} {}", parts.join(" ")));
            out.req("snapshot", "snapshot".into());
            out.req("reopen", format!("reopen {}", crate::hist::CLOSE_MODES[(pi + round) % 3]));
            out.req("snapshot", "snapshot".into());
            out.req("raw", "raw".into());
            if rng.chance(1, 2) {
                out.req("set_db_cp", "set_db_cp Utf8".into());
                out.req("snapshot", "snapshot".into());
                out.req("reopen", format!("reopen {}", rng.pick(&crate::hist::CLOSE_MODES)));
                out.req("snapshot", "snapshot".into());
                out.req("set_db_cp", format!("set_db_cp {page}"));
            }
            out.req("update", format!("update {t} 1 {sc} S{} eq C{k} I1", hex_of_str(texts[texts.len() - 1])));
            out.req("delete", format!("delete {t} eq C{k} I2"));
            out.req("snapshot", "snapshot".into());
            out.req("reopen", format!("reopen {}", rng.pick(&crate::hist::CLOSE_MODES)));
            out.req("snapshot", "snapshot".into());
            out.req("raw", "raw".into());
        }
    }
}

/// tables whose columns carry a foreign-key annotation naming another table, together with a
/// category / enumeration / range; the referenced table is then dropped (or rewritten): the
/// referencing table's definition must survive, in memory and after reopening
fn gen_fk_directed(out: &mut Out, rng: &mut Rng, n: usize) {
    let k = hex_of_str("K");
    // a foreign-key annotation is a name and a number: the number may exceed the columns the named
    // table has, name a table that does not exist, or point at the table itself
    for (ci, kc) in [1i32, 2, 3, 5, 32].iter().enumerate() {
        out.req("new", format!("new {}", ci % 3));
        let a = hex_of_str("A");
        let b = hex_of_str("B");
        out.req("create_table", format!("create_table {a} {k}:s32:K:-:-:Identifier:- {}:i16:N:-:-:-:-", hex_of_str("V")));
        out.req("insert", format!("insert {a} 2 2 S{} I1 2 S{} N", hex_of_str("Main"), hex_of_str("Extra")));
        out.req("create_table", format!("create_table {b} {k}:i16:K:-:-:-:- {}:s32:N:-:{a},{kc}:Identifier:- {}:s8:N:-:{},{kc}:-:-", hex_of_str("Ref"), hex_of_str("Self"), b));
        out.req("insert", format!("insert {b} 2 3 I1 S{} N 3 I2 S{} S{}", hex_of_str("Main"), hex_of_str("Nowhere"), hex_of_str("x")));
        out.req("snapshot", "snapshot".into());
        out.req("reopen", format!("reopen {}", crate::hist::CLOSE_MODES[ci % 3]));
        out.req("insert", format!("insert {b} 1 3 I3 S{} N", hex_of_str("Extra")));
        out.req("update", format!("update {b} 1 {} S{} -", hex_of_str("Ref"), hex_of_str("Main")));
        out.req("snapshot", "snapshot".into());
    }
    for case in 0..n {
        out.req("new", format!("new {}", rng.below(3)));
        let a = hex_of_str("A");
        let b = hex_of_str("B");
        out.req("create_table", format!("create_table {a} {k}:s32:K:-:-:Identifier:- {}:i16:N:-:-:-:-", hex_of_str("V")));
        let fk = format!("{},1", a);
        let c1 = match case % 3 {
            0 => format!("{}:s72:N:-:{fk}:Identifier:-", hex_of_str("Ref")),
            1 => format!("{}:s8:N:-:{fk}:-:{},{}", hex_of_str("Ref"), hex_of_str("Main"), hex_of_str("Extra")),
            _ => format!("{}:i16:N:1,9:{fk}:-:-", hex_of_str("Ref")),
        };
        out.req("create_table", format!("create_table {b} {k}:i16:K:-:-:-:- {c1} {}:s0:LN:-:-:Text:-", hex_of_str("D")));
        out.req("insert", format!("insert {a} 2 2 S{} I1 2 S{} N", hex_of_str("Main"), hex_of_str("Extra")));
        let refv = if case % 3 == 2 { "I3".to_string() } else { format!("S{}", hex_of_str("Main")) };
        out.req("insert", format!("insert {b} 1 3 I1 {refv} S{}", hex_of_str("some text")));
        out.req("snapshot", "snapshot".into());
        if rng.chance(1, 2) {
            out.req("reopen", format!("reopen {}", rng.pick(&crate::hist::CLOSE_MODES)));
            out.req("snapshot", "snapshot".into());
        }
        out.req("drop_table", format!("drop_table {a}"));
        out.req("snapshot", "snapshot".into());
        out.req("reopen", format!("reopen {}", crate::hist::CLOSE_MODES[case % 3]));
        out.req("snapshot", "snapshot".into());
        out.req("raw", "raw".into());
        // the definition still gates values
        out.req("insert", format!("insert {b} 1 3 I2 S{} N", hex_of_str("not an identifier!")));
        out.req("insert", format!("insert {b} 1 3 I3 {refv} N"));
        out.req("snapshot", "snapshot".into());
    }
}

/// direct edits of the catalog tables, then table creation: a definition whose rows collide with
/// rows already in `_Validation` / `_Columns` / `_Tables` is refused, and refused BEFORE anything
/// is written (defect D23: it used to fail after the first two catalog inserts)
fn gen_catalog_edits_directed(out: &mut Out, rng: &mut Rng, n: usize) {
    let k = hex_of_str("K");
    let v = hex_of_str("V");
    let planned = hex_of_str("Planned");
    for case in 0..n {
        out.req("new", format!("new {}", case % 3));
        out.req("create_table", format!("create_table {} {k}:i16:K:-:-:-:-", hex_of_str("Other")));
        out.req("snapshot", "snapshot".into());
        let stale = match case % 4 {
            0 => format!("insert {} 1 10 S{planned} S{k} S{} N N N N N N N", hex_of_str("_Validation"), hex_of_str("N")),
            1 => format!("insert {} 1 10 S{planned} S{v} S{} N N N N N N N", hex_of_str("_Validation"), hex_of_str("Y")),
            2 => format!("insert {} 1 4 S{planned} I1 S{k} I9474", hex_of_str("_Columns")),
            _ => format!("insert {} 1 1 S{planned}", hex_of_str("_Tables")),
        };
        out.req("catalog_edit", stale);
        out.req("snapshot", "snapshot".into());
        if rng.chance(1, 2) {
            out.req("reopen", format!("reopen {}", rng.pick(&crate::hist::CLOSE_MODES)));
            out.req("snapshot", "snapshot".into());
        }
        // a definition that collides (column K / V), and one that does not
        out.req("create_table", format!("create_table {planned} {k}:i16:K:-:-:-:- {v}:s8:N:-:-:-:-"));
        out.req("snapshot", "snapshot".into());
        out.req("create_table", format!("create_table {} {k}:i16:K:-:-:-:-", hex_of_str("Fine")));
        out.req("snapshot", "snapshot".into());
        out.req("reopen", format!("reopen {}", crate::hist::CLOSE_MODES[case % 3]));
        out.req("snapshot", "snapshot".into());
        out.req("raw", "raw".into());
    }
}

/// a signed package, calls that are refused, then a save: nothing may have changed - the signature
/// included (a refused call must not even arm something that acts at save time)
fn gen_signed_rejected_directed(out: &mut Out, rng: &mut Rng, n: usize) {
    let base = c09_bases()[0].clone();
    for case in 0..n {
        let mut e = base.clone();
        e.push(("\u{5}DigitalSignature".to_string(), vec![7u8; 90 + case]));
        if case % 2 == 0 {
            e.push(("\u{5}MsiDigitalSignatureEx".to_string(), vec![1, 2, 3, 4]));
        }
        out.req("load_signed", format!("load {} {}", case % 3, entries_tok(&e)));
        out.req("snapshot", "snapshot".into());
        let items = hex_of_str("Items");
        match case % 6 {
            0 => out.req("rejected", format!("insert {items} 1 3 I1 S{} I7", hex_of_str("duplicate key"))),
            1 => out.req("rejected", format!("insert {items} 1 2 I77 S{}", hex_of_str("too few values"))),
            2 => out.req("rejected", format!("update {items} 1 {} I5 -", hex_of_str("NoSuchColumn"))),
            3 => out.req("rejected", format!("delete {} -", hex_of_str("NoSuchTable"))),
            4 => out.req("rejected", format!("create_table {items} {}:i16:K:-:-:-:-", hex_of_str("K"))),
            _ => out.req("rejected", format!("stream_remove {}", hex_of_str("no such stream"))),
        }
        out.req("snapshot", "snapshot".into());
        match case % 3 {
            0 => out.req("flush", "flush".into()),
            _ => out.req("reopen", format!("reopen {}", rng.pick(&crate::hist::CLOSE_MODES))),
        }
        out.req("snapshot", "snapshot".into());
        out.req("has_sig", "has_sig".into());
    }
}

/// limits of the catalog tables met by a value that already appeared, harmlessly, in another
/// catalog column of the same definition (a long name that is also a foreign-key table, a
/// foreign-key column number that is also a range bound): refused, and nothing written
fn gen_limits_repeated_values(out: &mut Out) {
    let k = hex_of_str("K");
    for len in [33usize, 40, 64] {
        let long = "N".repeat(len);
        let lh = hex_of_str(&long);
        for order in 0..2 {
            out.req("new", "new 0".into());
            out.req("snapshot", "snapshot".into());
            let fkcol = format!("{}:s8:N:-:{lh},1:-:-", hex_of_str("Ref"));
            let longcol = format!("{lh}:i16:N:-:-:-:-");
            let cols = if order == 0 { format!("{k}:i16:K:-:-:-:- {fkcol} {longcol}") } else { format!("{k}:i16:K:-:-:-:- {longcol} {fkcol}") };
            out.req("repeated_value", format!("create_table {} {cols}", hex_of_str("Shortcuts")));
            out.req("snapshot", "snapshot".into());
            out.req("reopen", "reopen flush".into());
            out.req("snapshot", "snapshot".into());
            out.req("create_table", format!("create_table {} {k}:i16:K:-:-:-:-", hex_of_str("Shortcuts")));
            out.req("snapshot", "snapshot".into());
        }
    }
    for n in [33i32, 40, 100, 32767] {
        for order in 0..2 {
            out.req("new", "new 0".into());
            out.req("snapshot", "snapshot".into());
            let ranged = format!("{}:i32:N:{n},{}:-:-:-", hex_of_str("Size"), n + 5);
            let fkcol = format!("{}:s8:N:-:{},{n}:-:-", hex_of_str("Ref"), hex_of_str("Other"));
            let cols = if order == 0 { format!("{k}:i16:K:-:-:-:- {ranged} {fkcol}") } else { format!("{k}:i16:K:-:-:-:- {fkcol} {ranged}") };
            out.req("repeated_value", format!("create_table {} {cols}", hex_of_str("KeyColumn")));
            out.req("snapshot", "snapshot".into());
            out.req("reopen", "reopen into_inner".into());
            out.req("snapshot", "snapshot".into());
        }
    }
}

/// tables whose columns each take more than the 8 KiB a buffered container stream hands over at
/// once (several thousand rows): filled in a few inserts, read whole and by key, changed, saved
/// and read again
fn gen_big_tables(out: &mut Out, rng: &mut Rng, sizes: &[usize]) {
    for (si, &n) in sizes.iter().enumerate() {
        out.req("new", format!("new {}", si % 3));
        let t = hex_of_str("Big");
        out.req("create_table", format!("create_table {t} {}:i32:K:-:-:-:- {}:i16:N:-:-:-:- {}:s0:N:-:-:-:-", hex_of_str("K"), hex_of_str("V"), hex_of_str("S")));
        let texts = ["alpha", "beta", "gamma", "delta", "epsilon", "zeta", "eta"];
        let mut k = 0usize;
        let parts = 1 + rng.below(3) as usize;
        for part in 0..parts {
            let upto = if part + 1 == parts { n } else { n * (part + 1) / parts };
            let mut vals = vec![];
            let first = k;
            while k < upto {
                // keys in an order of their own: odd ones first, descending
                vals.push(format!("3 I{} I{} S{}", (k * 7919) % 1_000_003, (k % 60000) as i64 - 30000, hex_of_str(texts[k % texts.len()])));
                k += 1;
            }
            out.req("big_insert", format!("insert {t} {} {}", k - first, vals.join(" ")));
        }
        out.req("big_select", format!("select SEL 0 - T {t}"));
        out.req("big_select", format!("select SEL 0 lt C{} I5000 T {t}", hex_of_str("K")));
        out.req("snapshot", "snapshot".into());
        out.req("reopen", format!("reopen {}", crate::hist::CLOSE_MODES[si % 3]));
        out.req("big_select", format!("select SEL 0 - T {t}"));
        out.req("big_update", format!("update {t} 1 {} I7 gt C{} I500000", hex_of_str("V"), hex_of_str("K")));
        out.req("big_delete", format!("delete {t} lt C{} I250000", hex_of_str("K")));
        out.req("big_select", format!("select SEL 0 - T {t}"));
        out.req("snapshot", "snapshot".into());
        out.req("reopen", format!("reopen {}", crate::hist::CLOSE_MODES[(si + 1) % 3]));
        out.req("snapshot", "snapshot".into());
    }
}

/// the glue around the core, each piece on its least-travelled path (no random choice here, so the
/// requests before these stay what they were): see DESIGN.md II.13
fn gen_glue_directed(prop: &str, out: &mut Out, thorough: bool) {
    use crate::decode::*;
    let b = |x: E| Box::new(x);
    let col = |n: &str| E::Col(n.to_string());
    let int = |n: i32| E::Lit(V::Int(n));
    // expressions whose builders might "simplify": a truth value used as a VALUE
    let exprs = |a: &str, bb: &str, s: &str| -> Vec<E> {
        vec![
            E::Bin("and", b(E::Bin("band", b(col(a)), b(int(4)))), b(E::Bin("band", b(col(a)), b(int(2))))),
            E::Bin("and", b(col(a)), b(col(bb))),
            E::Bin("and", b(col(s)), b(col(a))),
            E::Bin("and", b(E::Bin("add", b(col(a)), b(int(1)))), b(E::Bin("sub", b(col(bb)), b(int(3))))),
            E::Bin("eq", b(E::Un("not", b(E::Un("not", b(col(a)))))), b(E::Un("not", b(E::Un("not", b(col(bb))))))),
            E::Bin("eq", b(E::Bin("add", b(E::Un("not", b(E::Un("not", b(col(a)))))), b(E::Un("not", b(E::Un("not", b(col(bb)))))))), b(int(2))),
            E::Bin("eq", b(E::Un("bitnot", b(E::Un("bitnot", b(col(a)))))), b(col(bb))),
            E::Bin("eq", b(E::Un("neg", b(E::Un("neg", b(col(a)))))), b(col(bb))),
            E::Bin("eq", b(E::Un("not", b(E::Un("not", b(col(s)))))), b(int(1))),
            E::Bin("eq", b(E::Bin("and", b(int(1)), b(col(a)))), b(col(bb))),
            E::Bin("eq", b(E::Bin("or", b(int(0)), b(col(a)))), b(col(bb))),
            E::Bin("eq", b(E::Bin("and", b(E::Lit(V::Str("x".into()))), b(col(a)))), b(int(1))),
            E::Bin("eq", b(E::Bin("or", b(E::Lit(V::Null)), b(col(s)))), b(int(1))),
            E::Bin("eq", b(E::Bin("and", b(col(a)), b(int(1)))), b(col(bb))),
            E::Bin("add", b(E::Bin("and", b(int(7)), b(col(a)))), b(E::Bin("or", b(int(0)), b(col(bb))))),
            E::Bin("and", b(E::Bin("and", b(int(1)), b(col(a)))), b(col(bb))),
            E::Lit(V::Str(String::new())),
            E::Bin("or", b(E::Bin("eq", b(col(a)), b(int(3)))), b(E::Lit(V::Str(String::new())))),
            E::Un("not", b(E::Bin("and", b(E::Lit(V::Str(String::new()))), b(col(a))))),
            E::Bin("eq", b(col("Fl")), b(int(1))),
            E::Bin("eq", b(col("Fl.")), b(int(1))),
        ]
    };
    let flag_table = |out: &mut Out, name: &str| {
        let t = hex_of_str(name);
        out.req("create_table", format!("create_table {t} {}:i16:K:-:-:-:- {}:i16:N:-:-:-:- {}:i16:N:-:-:-:- {}:s0:N:-:-:-:-", hex_of_str("K"), hex_of_str("A"), hex_of_str("B"), hex_of_str("S")));
        let mut rows = vec![];
        for k in 0..10i32 {
            let a = if k == 8 { "N".to_string() } else { format!("I{}", k % 8) };
            let bv = if k == 9 { "N".to_string() } else { format!("I{}", [0, 1, 2, 4, 4, 1, 6, 7, 3, 5][k as usize]) };
            let sv = match k % 3 { 0 => "N".to_string(), 1 => format!("S{}", hex_of_str("x")), _ => format!("S{}", hex_of_str("0")) };
            rows.push(format!("4 I{k} {a} {bv} {sv}"));
        }
        out.req("insert", format!("insert {t} {} {}", rows.len(), rows.join(" ")));
    };
    match prop {
        "C12" | "C13" | "C19" | "C01" | "C03" => {
            out.req("new", "new 0".into());
            flag_table(out, "Fl");
            flag_table(out, "Gl");
            let (fl, gl) = (hex_of_str("Fl"), hex_of_str("Gl"));
            for e in exprs("A", "B", "S") {
                out.req("glue_select", format!("select SEL 0 {} T {fl}", e.to_line()));
                out.req("glue_fmt", format!("fmt {}", e.to_line()));
            }
            if prop == "C12" || prop == "C13" {
                for e in exprs("Fl.A", "Gl.B", "Gl.S") {
                    for j in ["IJ", "LJ"] {
                        out.req("glue_join", format!("select SEL 0 - {j} SEL 0 - T {fl} SEL 0 - T {gl} {}", e.to_line()));
                    }
                }
            }
            for (i, e) in exprs("A", "B", "S").into_iter().enumerate() {
                // the same conditions restrict an update and a delete (a top-level AND goes in as two with() calls)
                out.req("glue_update", format!("update {fl} 1 {} I{} {}", hex_of_str("B"), 100 + i, e.to_line()));
                out.req("glue_select", format!("select SEL 0 - T {fl}"));
                out.req("glue_delete", format!("delete {gl} {}", e.to_line()));
                out.req("glue_select", format!("select SEL 0 - T {gl}"));
                if i % 4 == 3 {
                    out.req("drop_table", format!("drop_table {gl}"));
                    flag_table(out, "Gl");
                }
            }
            out.req("snapshot", "snapshot".into());
            out.req("reopen", "reopen into_inner".into());
            out.req("snapshot", "snapshot".into());
            if prop == "C01" {
                for k in 0..(if thorough { 18 } else { 4 }) {
                    out.req("file_edit", format!("@file_edit {k}"));
                }
            }
        }
        "C18" | "C10" => {
            for k in 0..(if thorough { 18 } else { 6 }) {
                out.req("file_edit", format!("@file_edit {k}"));
            }
        }
        "C07" | "C05" => {
            // key columns that do not lead the column list
            for (ti, layout) in [vec![false, true], vec![true, false, true], vec![false, false, true], vec![false, true, true], vec![true, false]].iter().enumerate() {
                out.req("new", format!("new {}", ti % 3));
                let t = hex_of_str("KT");
                let cols: Vec<String> = layout.iter().enumerate().map(|(j, key)| {
                    let mut c = ColDef::new(&format!("C{j}"), if j % 2 == 0 { CT::I16 } else { CT::Str(8) });
                    c.key = *key;
                    c.nullable = !*key;
                    c.tok()
                }).collect();
                out.req("create_table", format!("create_table {t} {}", cols.join(" ")));
                let row = |r: i32| -> String {
                    let vals: Vec<String> = layout.iter().enumerate().map(|(j, key)| {
                        if *key { if j % 2 == 0 { format!("I{}", 10 - r) } else { format!("S{}", hex_of_str(&format!("k{}", 9 - r))) } }
                        else if j % 2 == 0 { "I7".to_string() } else { format!("S{}", hex_of_str("same")) }
                    }).collect();
                    format!("{} {}", vals.len(), vals.join(" "))
                };
                for r in 1..=4 {
                    out.req("key_not_leading", format!("insert {t} 1 {}", row(r)));
                }
                out.req("key_not_leading", format!("insert {t} 1 {}", row(2)));
                out.req("key_not_leading", format!("insert {t} 2 {} {}", row(5), row(6)));
                let data = layout.iter().position(|k| !*k).unwrap();
                let keyc = layout.iter().position(|k| *k).unwrap();
                let newv = if data % 2 == 0 { "I8".to_string() } else { format!("S{}", hex_of_str("other")) };
                let keyv = if keyc % 2 == 0 { "I7".to_string() } else { format!("S{}", hex_of_str("k6")) };
                out.req("key_not_leading", format!("update {t} 1 {} {newv} eq C{} {keyv}", hex_of_str(&format!("C{data}")), hex_of_str(&format!("C{keyc}"))));
                out.req("key_not_leading", format!("select SEL 0 - T {t}"));
                out.req("snapshot", "snapshot".into());
                out.req("reopen", format!("reopen {}", crate::hist::CLOSE_MODES[ti % 3]));
                out.req("snapshot", "snapshot".into());
                out.req("key_not_leading", format!("insert {t} 1 {}", row(7)));
                out.req("key_not_leading", format!("insert {t} 1 {}", row(7)));
                out.req("snapshot", "snapshot".into());
            }
        }
        "C09" => {
            // value ranges that no number satisfies: given backwards, beyond the column type
            let mk = |name: &str, ct: CT, key: bool, range: Option<(i32, i32)>| {
                let mut c = ColDef::new(name, ct);
                c.key = key;
                c.nullable = !key;
                c.range = range;
                c
            };
            let cols = vec![mk("K", CT::I16, true, None), mk("V", CT::I16, false, Some((10, 1))), mk("W", CT::I16, false, Some((40000, 50000))), mk("X", CT::I32, false, Some((5, 5))), mk("Y", CT::I32, false, Some((i32::MAX, i32::MIN)))];
            let battery = |out: &mut Out| {
                let t = hex_of_str("R");
                for (i, vals) in ["I1 I5 N N N", "I2 N I45000 N N", "I3 N N I5 N", "I4 N N N I0", "I5 I10 I40000 I5 I1", "I6 N N N N", "I7 I1 N N N"].iter().enumerate() {
                    out.req("empty_range", format!("insert {t} 1 5 {vals}"));
                    let _ = i;
                }
                for (c, v) in [("V", "I3"), ("W", "I45000"), ("X", "I5"), ("Y", "I-1"), ("V", "N")] {
                    out.req("empty_range", format!("update {t} 1 {} {v} -", hex_of_str(c)));
                }
                out.req("snapshot", "snapshot".into());
            };
            out.req("new", "new 0".into());
            out.req("create_table", format!("create_table {} {}", hex_of_str("R"), cols.iter().map(|c| c.tok()).collect::<Vec<_>>().join(" ")));
            battery(out);
            out.req("reopen", "reopen flush".into());
            battery(out);
            // and in a file of another writer
            let t = EncTable { name: "R".into(), cols: cols.clone(), rows: vec![vec![V::Int(0), V::Null, V::Null, V::Int(5), V::Null]] };
            let layout = EncLayout { long_refs: false, cp_id: 65001, filler: vec![], overcount: 0, duplicate: false, with_validation: true, reverse_rows: false, int16_size: 2 };
            let mut e = encode_db(&layout, &[t]);
            e.push(c09_bases()[0].iter().find(|(n, _)| n.starts_with('\u{5}')).unwrap().clone());
            out.req("load", format!("load 0 {}", entries_tok(&e)));
            battery(out);
        }
        "C11" => {
            // streams beyond the 8 KiB the container buffers, handed over in vectored writes (even
            // lengths) and in one piece (odd lengths), overwritten shorter and longer
            out.req("new", "new 0".into());
            for (i, len) in [8190usize, 8192, 8194, 8209, 9000, 16400, 20001, 24578, 4, 6].iter().enumerate() {
                let data: String = (0..*len).map(|k| format!("{:02x}", (k * 7 + i) % 251)).collect();
                let name = hex_of_str(&format!("Big.{}", i % 3));
                out.req("big_stream", format!("stream_write {name} {data}"));
                out.req("big_stream", format!("stream_read {name}"));
                if i % 3 == 2 {
                    out.req("snapshot", "snapshot".into());
                    out.req("reopen", format!("reopen {}", crate::hist::CLOSE_MODES[i % 3]));
                    out.req("snapshot", "snapshot".into());
                }
            }
            out.req("snapshot", "snapshot".into());
        }
        "C17" => {
            for codes in ["1033,1033,3084", "9,9", "0,0,0", "1033,3084,1033", "65535,65535", "1033,1033", "1,2,2,3,3,3", "1024,1024,1033"] {
                out.req("langs_value", format!("langs_value {codes}"));
            }
        }
        "C20" => {
            // texts too long for their column whose 256th byte falls inside a character: refused with
            // an error (the message is formatted from the value), never a panic
            out.req("new", "new 0".into());
            let t = hex_of_str("Lim");
            out.req("create_table", format!("create_table {t} {}:i16:K:-:-:-:- {}:s100:N:-:-:-:- {}:s0:N:-:-:-:-", hex_of_str("K"), hex_of_str("V"), hex_of_str("U")));
            let mut key = 0;
            for ch in ["\u{e9}", "\u{416}", "\u{65e5}", "\u{1f600}", "a"] {
                for lead in 0..4usize {
                    for n in [100usize, 101, 255, 256, 300] {
                        let text = format!("{}{}", "x".repeat(lead), ch.repeat(n - lead.min(n)));
                        key += 1;
                        out.req("long_value", format!("insert {t} 1 3 I{key} S{} N", hex_of_str(&text)));
                        if n >= 255 && lead < 2 {
                            let mut c = ColDef::new("E", CT::Str(0));
                            c.nullable = true;
                            c.enums = vec![text.clone(), "b".into()];
                            let mut k = ColDef::new("K", CT::I16);
                            k.key = true;
                            out.req("long_enum", format!("create_table {} {} {}", hex_of_str(&format!("En{key}")), k.tok(), c.tok()));
                            let mut f = ColDef::new("F", CT::Str(0));
                            f.nullable = true;
                            f.fk = Some((text.clone(), 1));
                            out.req("long_fk", format!("create_table {} {} {}", hex_of_str(&format!("Fk{key}")), k.tok(), f.tok()));
                        }
                    }
                }
            }
            out.req("snapshot", "snapshot".into());
            out.req("reopen", "reopen into_inner".into());
            out.req("snapshot", "snapshot".into());
        }
        "C06" => {
            // column names that look like qualified names
            out.req("new", "new 0".into());
            let mut k = ColDef::new("Parent", CT::I16);
            k.key = true;
            k.range = Some((0, 9));
            let mut q = ColDef::new("Dir.Parent", CT::Str(0));
            q.nullable = true;
            q.cat = Some("Formatted");
            q.enums = vec!["up".into(), "down".into()];
            out.req("create_table", format!("create_table {} {} {}", hex_of_str("Dir"), k.tok(), q.tok()));
            let mut l = ColDef::new("Feature.Level", CT::I32);
            l.key = true;
            out.req("create_table", format!("create_table {} {}", hex_of_str("Feature"), l.tok()));
            out.req("insert", format!("insert {} 1 2 I1 S{}", hex_of_str("Dir"), hex_of_str("up")));
            out.req("qualified_name", format!("select SEL 1 {} - T {}", hex_of_str("Dir.Parent"), hex_of_str("Dir")));
            out.req("qualified_name", format!("select SEL 2 {} {} - T {}", hex_of_str("Parent"), hex_of_str("Dir.Parent"), hex_of_str("Dir")));
            out.req("qualified_name", format!("update {} 1 {} S{} eq C{} I1", hex_of_str("Dir"), hex_of_str("Dir.Parent"), hex_of_str("down"), hex_of_str("Parent")));
            out.req("snapshot", "snapshot".into());
            out.req("reopen", "reopen flush".into());
            out.req("snapshot", "snapshot".into());
        }
        _ => {}
    }
    gen_glue_directed2(prop, out, thorough);
}

/// second instalment (round 10)
fn gen_glue_directed2(prop: &str, out: &mut Out, thorough: bool) {
    use crate::decode::*;
    let key = |name: &str, ct: CT| {
        let mut c = ColDef::new(name, ct);
        c.key = true;
        c
    };
    let opt = |name: &str, ct: CT| {
        let mut c = ColDef::new(name, ct);
        c.nullable = true;
        c
    };
    // tables and streams whose NAMES are unusual but legal
    if ["C01", "C06", "C11", "C02", "C05"].contains(&prop) {
        out.req("new", "new 0".into());
        // user tables whose names begin with an underscore are tables like any other
        for t in ["_Local", "__Cache", "_"] {
            out.req("underscore_table", format!("create_table {} {} {}", hex_of_str(t), key("K", CT::I16).tok(), opt("V", CT::Str(0)).tok()));
            out.req("underscore_table", format!("insert {} 1 2 I1 S{}", hex_of_str(t), hex_of_str("v")));
        }
        // two columns whose names differ in the case of a letter only
        out.req("case_columns", format!("create_table {} {} {} {}", hex_of_str("File"), key("Key", CT::I16).tok(), opt("Name", CT::Str(0)).tok(), opt("NAME", CT::Str(0)).tok()));
        out.req("case_columns", format!("insert {} 2 3 I1 S{} S{} 3 I2 S{} S{}", hex_of_str("File"), hex_of_str("readme.txt"), hex_of_str("README.TXT"), hex_of_str("setup.exe"), hex_of_str("INSTALL.EXE")));
        let f = hex_of_str("File");
        out.req("case_columns", format!("select SEL 1 {} - T {f}", hex_of_str("NAME")));
        out.req("case_columns", format!("select SEL 2 {} {} eq C{} S{} T {f}", hex_of_str("NAME"), hex_of_str("Name"), hex_of_str("NAME"), hex_of_str("INSTALL.EXE")));
        out.req("case_columns", format!("update {f} 1 {} S{} eq C{} S{}", hex_of_str("NAME"), hex_of_str("SETUP.EXE"), hex_of_str("NAME"), hex_of_str("INSTALL.EXE")));
        out.req("case_columns", format!("delete {f} eq C{} S{}", hex_of_str("NAME"), hex_of_str("README.TXT")));
        out.req("case_columns", format!("select SEL 0 - T {f}"));
        // a binary (stream reference) column in the key
        let mut data = key("Data", CT::Str(0));
        data.cat = Some("Binary");
        out.req("binary_key", format!("create_table {} {} {}", hex_of_str("Icons"), key("Owner", CT::Str(16)).tok(), data.tok()));
        out.req("binary_key", format!("insert {} 2 2 S{} S{} 2 S{} S{}", hex_of_str("Icons"), hex_of_str("app"), hex_of_str("Icons.A"), hex_of_str("app"), hex_of_str("Icons.B")));
        let mut only = key("Blob", CT::Str(0));
        only.cat = Some("Binary");
        only.localizable = true;
        out.req("binary_key", format!("create_table {} {}", hex_of_str("Blobs"), only.tok()));
        out.req("binary_key", format!("insert {} 2 1 S{} 1 S{}", hex_of_str("Blobs"), hex_of_str("b1"), hex_of_str("b2")));
        // streams whose names begin with the character the container's own metadata streams begin with
        for (i, n) in ["\u{5}Extras", "\u{5}SummaryInformation", "a\u{5}b", "\u{1}x"].iter().enumerate() {
            out.req("control_stream_name", format!("stream_write {} 0{}0203", hex_of_str(n), i + 1));
        }
        out.req("control_stream_name", "streams".into());
        out.req("control_stream_name", format!("stream_read {}", hex_of_str("\u{5}Extras")));
        out.req("snapshot", "snapshot".into());
        out.req("reopen", "reopen into_inner".into());
        out.req("snapshot", "snapshot".into());
        out.req("binary_key", format!("insert {} 1 2 S{} S{}", hex_of_str("Icons"), hex_of_str("app"), hex_of_str("Icons.C")));
        out.req("binary_key", format!("insert {} 1 1 S{}", hex_of_str("Blobs"), hex_of_str("b3")));
        out.req("control_stream_name", "streams".into());
        out.req("snapshot", "snapshot".into());
    }
    match prop {
        "C04" => {
            // streams named like rows of a table that does not exist; dropping that table is refused
            // and changes nothing
            out.req("new", "new 0".into());
            for n in ["Icon.AppIcon.ico", "Icon.DocIcon.ico", "Icon", "Binary.x"] {
                out.req("stream_write", format!("stream_write {} 010203", hex_of_str(n)));
            }
            out.req("snapshot", "snapshot".into());
            // a table without any column
            out.req("no_columns", format!("create_table {}", hex_of_str("Bare")));
            out.req("snapshot", "snapshot".into());
            for t in ["Icon", "Binary", "Icon.AppIcon", "Nope"] {
                out.req("drop_missing", format!("drop_table {}", hex_of_str(t)));
                out.req("snapshot", "snapshot".into());
            }
            out.req("reopen", "reopen flush".into());
            out.req("snapshot", "snapshot".into());
        }
        "C08" | "C03" | "C11" => {
            for k in 0..(if thorough { 18 } else { 4 }) {
                out.req("file_edit", format!("@file_edit {k}"));
            }
        }
        "C05" => {
            for k in 0..3 {
                out.req("readonly_file_mutation", format!("@readonly_file_mutation {k}"));
            }
        }
        "C10" | "C18" => {
            // the first representable time and its neighbours: set, cleared, set
            for (i, t) in ["-11644473600.000000000", "-11644473600.000000100", "-11644473599.000000000"].iter().enumerate() {
                out.req("new", format!("new {}", i % 3));
                out.req("first_time", format!("sum_set ctime {t}"));
                out.req("snapshot", "snapshot".into());
                out.req("first_time", "sum_clear ctime".into());
                out.req("first_time", format!("sum_set ctime {t}"));
                out.req("snapshot", "snapshot".into());
                out.req("reopen", format!("reopen {}", crate::hist::CLOSE_MODES[i % 3]));
                out.req("snapshot", "snapshot".into());
            }
            for _ in 0..(if thorough { 20 } else { 3 }) {
                out.req("ctime_now", "@ctime_now".into());
            }
        }
        "C16" => {
            // signed packages (the signature streams come from a signing tool), read only
            for (bi, b) in c09_bases().iter().enumerate() {
                let mut e = b.clone();
                e.push(("\u{5}DigitalSignature".to_string(), vec![0x30, 0x82, 1, 2, 3, 4]));
                if bi % 2 == 0 {
                    e.push(("\u{5}MsiDigitalSignatureEx".to_string(), vec![9; 20]));
                }
                for mode in crate::hist::CLOSE_MODES {
                    out.req("load_signed", format!("load 0 {}", entries_tok(&e)));
                    out.req("ro_has", "has_sig".into());
                    out.req("ro_snapshot", "snapshot".into());
                    out.req("readonly_close", format!("@readonly_close {mode}"));
                }
            }
        }
        "C20" => {
            // string columns wider than the one byte the format has for the width
            out.req("new", "new 0".into());
            for (i, w) in [255usize, 256, 257, 300, 511, 512, 1000, 65535, 70000].iter().enumerate() {
                for cat in [None, Some("Identifier"), Some("Text"), Some("Formatted")] {
                    let mut c = opt("Wide", CT::Str(*w));
                    c.cat = cat;
                    out.req("wide_column", format!("create_table {} {} {}", hex_of_str(&format!("W{i}{}", cat.map(|x| &x[..1]).unwrap_or("n"))), key("K", CT::I16).tok(), c.tok()));
                }
            }
            out.req("snapshot", "snapshot".into());
            out.req("reopen", "reopen flush".into());
            out.req("snapshot", "snapshot".into());
        }
        _ => {}
    }
}

fn gen_hist_prop(prop: &str, out: &mut Out, rng: &mut Rng, thorough: bool) {
    use crate::hist::*;
    let mut cfg = HistCfg {
        sessions: if thorough { 20000 } else { 800 },
        max_steps: if thorough { 40 } else { 20 },
        non_ascii: true, streams: true, summary: true, invalid: true, key_updates: true,
        reopen: true, raw: true, selects: true,
    };
    match prop {
        "C03" | "C05" => {
            gen_big_tables(out, rng, if thorough { &[2100, 4200, 9000, 20000] } else { &[4200] });
            gen_exhaustive(out, if thorough { 4 } else { 3 }, thorough);
            gen_refs_up_directed(out, rng, if thorough { 300 } else { 24 });
            gen_pages_directed(out, rng, if thorough { 3 } else { 1 });
            cfg.streams = false;
            cfg.summary = false;
            cfg.raw = false;
        }
        "C04" => {
            cfg.raw = false;
            gen_foreign_edit_sessions(out, if thorough { 24 } else { 4 });
            gen_catalog_edits_directed(out, rng, if thorough { 200 } else { 16 });
            gen_signed_rejected_directed(out, rng, if thorough { 120 } else { 12 });
            gen_limits_repeated_values(out);
            // the catalog's description of `_Validation` ITSELF altered by hand, then the package
            // reopened (so that the altered definition is the one in force): known finding D26
            {
                let val = hex_of_str("_Validation");
                let cond = |col: &str| format!("and eq C{} S{val} eq C{} S{}", hex_of_str("Table"), hex_of_str("Column"), hex_of_str(col));
                out.req("new", "new 0".into());
                out.req("catalog_edit", format!("update {val} 1 {} I16 {}", hex_of_str("MaxValue"), cond("KeyColumn")));
                out.req("reopen", "reopen into_inner".into());
                out.req("snapshot", "snapshot".into());
                out.req("d26", format!("create_table {} {}:i32:K:-:-:-:- {}:s32:N:-:{},20:Identifier:-", hex_of_str("D26Links"), hex_of_str("Key"), hex_of_str("Ref"), hex_of_str("Other")));
                out.req("snapshot", "snapshot".into());
                out.req("new", "new 0".into());
                out.req("create_table", format!("create_table {} {}:s8:K:-:-:-:-", hex_of_str("D26Files"), hex_of_str("Name")));
                out.req("insert", format!("insert {} 1 1 S{}", hex_of_str("D26Files"), hex_of_str("a.txt")));
                out.req("catalog_edit", format!("update {} 1 {} S{} and eq C{} S{val} eq C{} I1", hex_of_str("_Columns"), hex_of_str("Name"), hex_of_str("Tbl"), hex_of_str("Table"), hex_of_str("Number")));
                out.req("reopen", "reopen into_inner".into());
                out.req("snapshot", "snapshot".into());
                out.req("d26", format!("drop_table {}", hex_of_str("D26Files")));
                out.req("snapshot", "snapshot".into());
            }
            // a database without a `_Validation` table (fix D24)
            for (bi, b) in c09_bases().iter().enumerate().skip(1) {
                for order in 0..2 {
                    out.req("load", format!("load {} {}", bi % 3, entries_tok(b)));
                    out.req("snapshot", "snapshot".into());
                    let mk = format!("create_table {} {}:i16:K:-:-:-:-", hex_of_str("Fresh"), hex_of_str("K"));
                    let dr = format!("drop_table {}", hex_of_str("T"));
                    let (a, c) = if order == 0 { (mk.clone(), dr.clone()) } else { (dr, mk) };
                    out.req("no_validation", a);
                    out.req("snapshot", "snapshot".into());
                    out.req("no_validation", c);
                    out.req("snapshot", "snapshot".into());
                    out.req("reopen", format!("reopen {}", crate::hist::CLOSE_MODES[(bi + order) % 3]));
                    out.req("snapshot", "snapshot".into());
                }
            }
            out.req("catalog_hand_limit", "@catalog_hand_limit _Validation 1".into());
            if thorough {
                out.req("catalog_hand_limit", "@catalog_hand_limit _Validation 3".into());
                out.req("catalog_hand_limit", "@catalog_hand_limit _Columns 2".into());
            }
            // a refused insert into a table that is exactly full, or one row short of it
            out.req("rows_limit", "@rows_limit 65536 1".into());
            out.req("rows_limit", "@rows_limit 65535 2 1".into());
        }
        "C01" => {
            // one text referred to by about 2^16 cells: the 16-bit reference count of its pool
            // entry fills up and a second entry with the same text begins
            for n in if thorough { vec![3usize, 65530, 65531, 65532, 65533, 65534, 65535, 65536] } else { vec![65532usize, 65533, 65534] } {
                out.req("refcount_saturation", format!("@refcount_saturation {n}"));
            }
            gen_c01_directed(out, rng, if thorough { 1500 } else { 90 });
            gen_refs_up_directed(out, rng, if thorough { 300 } else { 24 });
            gen_pages_directed(out, rng, if thorough { 6 } else { 1 });
            gen_fk_directed(out, rng, if thorough { 300 } else { 18 });
            gen_long_strings_directed(out, rng, thorough);
        }
        "C08" => {
            cfg.summary = false;
            gen_catalog_edits_directed(out, rng, if thorough { 200 } else { 16 });
            gen_c08_directed(out, rng, if thorough { 600 } else { 60 });
            gen_long_strings_directed(out, rng, thorough);
            gen_refs_up_directed(out, rng, if thorough { 300 } else { 24 });
            gen_pages_directed(out, rng, if thorough { 6 } else { 1 });
        }
        _ => {}
    }
    for _ in 0..cfg.sessions {
        gen_session(out, rng, &cfg);
    }
}

// ------------------------------------------------------------------------------------
// C12: select trees

fn c12_cols_of(sel: &crate::refdb::Sel, db: &crate::refdb::RefDb) -> Vec<String> {
    match sel.eval(db) {
        Ok(q) => q.cols.iter().map(|c| c.name.clone()).collect(),
        Err(_) => vec![],
    }
}

fn c12_join_names(l: &crate::refdb::Sel, r: &crate::refdb::Sel, db: &crate::refdb::RefDb) -> Vec<String> {
    // names of the joined table: prefixed by the operand's table name when it has one
    let pre = |s: &crate::refdb::Sel| -> Vec<String> {
        match s.eval(db) {
            Ok(q) => q.cols.iter().map(|c| if q.name.is_empty() { c.name.clone() } else { format!("{}.{}", q.name, c.name) }).collect(),
            Err(_) => vec![],
        }
    };
    let mut v = pre(l);
    v.extend(pre(r));
    v
}

fn c12_cond(rng: &mut Rng, names: &[String]) -> E {
    if names.is_empty() || rng.chance(1, 12) {
        return E::Bin("eq", Box::new(E::Col("Nope".into())), Box::new(E::Lit(V::Int(1))));
    }
    if rng.chance(1, 8) {
        // a constant operand that decides an AND / OR next to an operand naming a column that may
        // not exist: unknown names are errors wherever they appear
        let other = if rng.chance(1, 2) { E::Col("Nope".into()) } else { E::Col(rng.pick(names).clone()) };
        let other = if rng.chance(1, 2) { E::Bin("eq", Box::new(other), Box::new(E::Lit(V::Int(1)))) } else { other };
        let k = E::Lit(rng.pick(&[V::Int(0), V::Int(1), V::Null, V::Str("".into()), V::Str("t".into())]).clone());
        let op = *rng.pick(&["and", "or"]);
        return if rng.chance(1, 2) { E::Bin(op, Box::new(k), Box::new(other)) } else { E::Bin(op, Box::new(other), Box::new(k)) };
    }
    let a = E::Col(rng.pick(names).clone());
    let b = if rng.chance(1, 2) { E::Col(rng.pick(names).clone()) } else { E::Lit(rng.pick(&[V::Int(1), V::Int(2), V::Null, V::Str("x".into())]).clone()) };
    if rng.chance(1, 6) {
        // a condition that is no comparison: its value is whatever the expression yields (a bare
        // column, a difference, a flag mask), true when it is not zero / null / the empty string
        return match rng.below(4) {
            0 => a,
            1 => E::Bin(*rng.pick(&["sub", "band", "bxor", "add", "mul"]), Box::new(a), Box::new(b)),
            2 => E::Un("neg", Box::new(a)),
            _ => E::Lit(rng.pick(&[V::Int(2), V::Int(-1), V::Int(0), V::Null, V::Str("x".into()), V::Str("".into())]).clone()),
        };
    }
    let op = *rng.pick(&["eq", "ne", "lt", "le", "gt", "ge"]);
    let base = E::Bin(op, Box::new(a.clone()), Box::new(b));
    match rng.below(5) {
        0 => E::Un("not", Box::new(base)),
        1 => E::Bin("or", Box::new(base), Box::new(E::Bin("eq", Box::new(a), Box::new(E::Lit(V::Null))))),
        2 => E::Lit(V::Int(1)),
        _ => base,
    }
}

fn c12_tree(rng: &mut Rng, depth: usize, db: &crate::refdb::RefDb, tables: &[&str]) -> crate::refdb::Sel {
    use crate::refdb::*;
    let from = if depth == 0 || rng.chance(1, 3) {
        let t = if rng.chance(1, 15) { "Missing" } else { *rng.pick(tables) };
        Q::Table(t.to_string())
    } else {
        let l = c12_tree(rng, depth - 1, db, tables);
        let r = c12_tree(rng, depth - 1, db, tables);
        let names = c12_join_names(&l, &r, db);
        let on = c12_cond(rng, &names);
        if rng.chance(1, 2) { Q::Inner(Box::new(l), Box::new(r), on) } else { Q::Left(Box::new(l), Box::new(r), on) }
    };
    let mut sel = Sel { from, cols: vec![], cond: None };
    let names = c12_cols_of(&sel, db);
    if rng.chance(1, 3) {
        sel.cond = Some(c12_cond(rng, &names));
    }
    if rng.chance(1, 3) && !names.is_empty() {
        let k = 1 + rng.below(3) as usize;
        sel.cols = (0..k).map(|_| if rng.chance(1, 15) { "Nope".to_string() } else { rng.pick(&names).clone() }).collect();
    }
    sel
}

fn gen_c12(out: &mut Out, rng: &mut Rng, thorough: bool) {
    gen_c12_sessions(out, rng, if thorough { 300 } else { 12 }, if thorough { 1500 } else { 700 });
}

fn gen_c12_sessions(out: &mut Out, rng: &mut Rng, sessions: usize, per: usize) {
    use crate::refdb::*;
    for sidx in 0..sessions {
        out.req("new", "new 0".into());
        let mut db = RefDb::default();
        let mut mk = |name: &str, second: &str, out: &mut Out, rng: &mut Rng| {
            let mut k = ColDef::new("K", CT::I16);
            k.key = true;
            k.nullable = false;
            let mut v = ColDef::new(second, if rng.chance(1, 2) { CT::Str(0) } else { CT::I32 });
            v.nullable = true;
            let cols = vec![k, v];
            out.req("create_table", format!("create_table {} {} {}", hex_of_str(name), cols[0].tok(), cols[1].tok()));
            let n = if sidx % 4 == 0 && name == "B" { 0 } else { 1 + rng.below(4) };
            let mut rows = vec![];
            for i in 0..n {
                let val = match cols[1].ct {
                    CT::Str(_) => rng.pick(&[V::Null, V::Str("x".into()), V::Str("y".into())]).clone(),
                    _ => rng.pick(&[V::Null, V::Int(1), V::Int(2), V::Int(3)]).clone(),
                };
                rows.push(vec![V::Int(i as i32 + 1), val]);
            }
            if !rows.is_empty() {
                let mut parts = vec![rows.len().to_string()];
                for r in &rows {
                    parts.push("2".into());
                    parts.push(r[0].tok());
                    parts.push(r[1].tok());
                }
                out.req("insert", format!("insert {} {}", hex_of_str(name), parts.join(" ")));
            }
            (name.to_string(), RefTable { cols, rows })
        };
        let (n, t) = mk("A", "V", out, rng);
        db.tables.insert(n, t);
        let (n, t) = mk("B", "W", out, rng);
        db.tables.insert(n, t);
        let (n, t) = mk("C3", "V", out, rng);
        db.tables.insert(n, t);
        // two tables of text whose equal strings need not share one pool entry: an early entry is
        // freed (its row deleted), then a text that already sits further back is stored again
        {
            let mut k = ColDef::new("K", CT::I16);
            k.key = true;
            let mut s = ColDef::new("S", CT::Str(0));
            s.nullable = true;
            let cols = vec![k, s];
            for name in ["P", "Q"] {
                out.req("create_table", format!("create_table {} {} {}", hex_of_str(name), cols[0].tok(), cols[1].tok()));
            }
            out.req("insert", format!("insert {} 3 2 I1 S{} 2 I2 S{} 2 I3 S{}", hex_of_str("P"), hex_of_str("only once"), hex_of_str("shared"), hex_of_str("other")));
            out.req("delete", format!("delete {} eq C{} I1", hex_of_str("P"), hex_of_str("K")));
            out.req("insert", format!("insert {} 2 2 I1 S{} 2 I2 S{}", hex_of_str("Q"), hex_of_str("shared"), hex_of_str("other")));
            if sidx % 2 == 1 {
                out.req("reopen", format!("reopen {}", crate::hist::CLOSE_MODES[sidx % 3]));
            }
            db.tables.insert("P".into(), RefTable { cols: cols.clone(), rows: vec![vec![V::Int(2), V::Str("shared".into())], vec![V::Int(3), V::Str("other".into())]] });
            db.tables.insert("Q".into(), RefTable { cols, rows: vec![vec![V::Int(1), V::Str("shared".into())], vec![V::Int(2), V::Str("other".into())]] });
            for j in ["IJ", "LJ"] {
                out.req("text_join", format!("select SEL 0 - {j} SEL 0 - T {} SEL 0 - T {} eq C{} C{}", hex_of_str("P"), hex_of_str("Q"), hex_of_str("P.S"), hex_of_str("Q.S")));
            }
        }
        out.req("snapshot", "snapshot".into());
        let tables = ["A", "B", "C3", "P", "Q"];
        for _ in 0..per {
            let d = rng.below(4) as usize;
            let sel = c12_tree(rng, d, &db, &tables);
            out.req(&format!("select_depth{d}"), format!("select {}", sel.toks()));
        }
    }
}

// ------------------------------------------------------------------------------------
// C10: summary information

fn gen_c10(out: &mut Out, rng: &mut Rng, thorough: bool) {
    use crate::exec::ALL_CP;
    let strs_ascii: Vec<String> = (0..9).map(|n| "abcdefghi"[..n].to_string()).collect();
    let strs_uni = ["\u{e9}", "\u{e9}\u{e9}", "a\u{e9}", "\u{e9}\u{e9}\u{e9}", "\u{20ac}uro", "\u{65e5}\u{672c}", "\u{1f600}", "\u{ff}\u{fe}AB", "\u{feff}x"];
    let props = ["title", "subject", "author", "comments", "app"];
    // exhaustive: all setter/clearer sequences up to length 3 over a reduced alphabet, reopen after each
    let ops: Vec<String> = {
        let mut v = vec![];
        for p in ["author", "title"] {
            v.push(format!("sum_set {p} {}", hex_of_str("ab")));
            v.push(format!("sum_set {p} {}", hex_of_str("abcde")));
            v.push(format!("sum_clear {p}"));
        }
        v.push("sum_set wc 7".into());
        v.push("sum_clear wc".into());
        v.push(format!("sum_set arch {}", hex_of_str("x64")));
        v.push("sum_set langs 1033,1041".into());
        v.push("sum_clear arch".into());
        v.push("sum_clear langs".into());
        v.push("sum_set cp Windows1252".into());
        v.push("sum_set cp Utf8".into());
        // (the database code page is another setting altogether)
        v.push("set_db_cp Windows1252".into());
        v.push(format!("sum_set subject {}", hex_of_str("Snowman \u{2603}")));
        v.push("sum_set ctime 1489862796.123456700".into());
        v.push("sum_set uuid 34ab5c539b304e14aef02c1c7ba826c0".into());
        v
    };
    let depth = if thorough { 3 } else { 2 };
    let mut idx = vec![0usize; depth];
    'outer: loop {
        out.req("new", format!("new {}", idx[0] % 3));
        for &i in &idx {
            out.req("seq_op", ops[i].clone());
        }
        out.req("snapshot", "snapshot".into());
        out.req("reopen", format!("reopen {}", crate::hist::CLOSE_MODES[idx[depth - 1] % 3]));
        out.req("snapshot", "snapshot".into());
        let mut p = depth;
        loop {
            if p == 0 {
                break 'outer;
            }
            p -= 1;
            if idx[p] + 1 < ops.len() {
                idx[p] += 1;
                for q in p + 1..depth {
                    idx[q] = 0;
                }
                break;
            }
        }
    }
    out.exhaustive.push(format!("all sequences of {depth} setter/clearer operations over {} operations, each followed by save and reopen", ops.len()));
    // every code page as the summary code page with short text from its own repertoire (plain,
    // mixed with ASCII on either side), in every property, through save and reopen, then to
    // UTF-8 and back
    for round in 0..(if thorough { 4 } else { 1 }) {
        for (pi, (page, texts)) in crate::hist::PAGE_SAMPLES.iter().enumerate() {
            out.req("new", format!("new {}", (pi + round) % 3));
            out.req("set_cp", format!("sum_set cp {page}"));
            for (i, x) in texts.iter().enumerate() {
                out.req("set_str", format!("sum_set {} {}", props[(i + round) % props.len()], hex_of_str(x)));
            }
            out.req("snapshot", "snapshot".into());
            out.req("flush", "flush".into());
            out.req("summary_raw", "@summary_raw".into());
            out.req("reopen", format!("reopen {}", crate::hist::CLOSE_MODES[(pi + round) % 3]));
            out.req("snapshot", "snapshot".into());
            out.req("set_cp", "sum_set cp Utf8".into());
            out.req("snapshot", "snapshot".into());
            out.req("reopen", format!("reopen {}", rng.pick(&crate::hist::CLOSE_MODES)));
            out.req("snapshot", "snapshot".into());
            out.req("set_cp", format!("sum_set cp {page}"));
            out.req("set_str", format!("sum_set {} {}", props[(pi + round) % props.len()], hex_of_str(texts[0])));
            out.req("snapshot", "snapshot".into());
            out.req("reopen", format!("reopen {}", rng.pick(&crate::hist::CLOSE_MODES)));
            out.req("snapshot", "snapshot".into());
        }
    }
    // every code page, strings of every length class modulo 4, in any switching order
    let n = if thorough { 6000 } else { 500 };
    for _ in 0..n {
        out.req("new", format!("new {}", rng.below(3)));
        let steps = 2 + rng.below(10);
        for _ in 0..steps {
            match rng.below(10) {
                0 | 1 => {
                    let (name, _) = *rng.pick(ALL_CP);
                    let name = if rng.chance(1, 3) { "Utf8" } else { name };
                    out.req("set_cp", format!("sum_set cp {name}"));
                }
                2 | 3 | 4 | 5 => {
                    let p = *rng.pick(&props);
                    let s = if rng.chance(2, 3) { rng.pick(&strs_ascii).clone() } else { rng.pick(&strs_uni).to_string() };
                    out.req("set_str", format!("sum_set {p} {}", hex_of_str(&s)));
                }
                6 => out.req("clear", format!("sum_clear {}", rng.pick(&["title", "subject", "author", "comments", "app", "wc", "uuid", "ctime", "arch", "langs"]))),
                7 => {
                    if rng.chance(1, 2) {
                        out.req("arch_langs", format!("sum_set arch {}", hex_of_str(*rng.pick(&["x64", "Intel", "Arm64", ""]))));
                    } else {
                        out.req("arch_langs", format!("sum_set langs {}", rng.pick(&["1033", "0", "1033,1041,65535", "-"])));
                    }
                }
                8 => out.req("set_misc", format!("sum_set wc {}", rng.pick(&[0i64, 2, -1, 2147483647, -2147483648]))),
                _ => {
                    let hex: String = (0..32).map(|_| format!("{:x}", rng.below(16))).collect();
                    if rng.chance(1, 2) {
                        out.req("set_misc", format!("sum_set uuid {hex}"));
                    } else {
                        out.req("set_misc", format!("sum_set ctime {}.{}", rng.range(-11_644_473_600, 4_000_000_000), rng.below(1_000_000_000)));
                    }
                }
            }
            if rng.chance(1, 4) {
                out.req("snapshot", "snapshot".into());
            }
        }
        out.req("snapshot", "snapshot".into());
        out.req("flush", "flush".into());
        out.req("summary_raw", "@summary_raw".into());
        out.req("reopen", format!("reopen {}", rng.pick(&crate::hist::CLOSE_MODES)));
        out.req("snapshot", "snapshot".into());
    }
}

// ------------------------------------------------------------------------------------
// C06: column definitions over all builder options

fn gen_c06(out: &mut Out, rng: &mut Rng, thorough: bool) {
    // every one of the 24 table-backed code pages as the database code page: a table whose
    // enumerated values are text of that page, after a row holding such text; then an ASCII table
    for round in 0..(if thorough { 4 } else { 1 }) {
        for (pi, (page, texts)) in crate::hist::PAGE_SAMPLES.iter().enumerate() {
            out.req("new", format!("new {}", (pi + round) % 3));
            out.req("set_db_cp", format!("set_db_cp {page}"));
            let mut k = ColDef::new("K", CT::I16);
            k.key = true;
            let mut e = ColDef::new("E", CT::Str(0));
            e.nullable = true;
            e.enums = texts.iter().map(|x| x.to_string()).chain(["Mon".to_string()]).collect();
            out.req("create_table", format!("create_table {} {} {}", hex_of_str("Pg"), k.tok(), e.tok()));
            out.req("insert", format!("insert {} 1 2 I1 S{}", hex_of_str("Pg"), hex_of_str(texts[0])));
            let mut a = ColDef::new("A", CT::Str(8));
            a.nullable = true;
            a.cat = Some("Identifier");
            out.req("create_table", format!("create_table {} {} {}", hex_of_str("Plain"), k.tok(), a.tok()));
            out.req("snapshot", "snapshot".into());
            out.req("reopen", format!("reopen {}", crate::hist::CLOSE_MODES[(pi + round) % 3]));
            out.req("snapshot", "snapshot".into());
        }
    }
    let cats: Vec<&'static str> = CATEGORIES.iter().map(|c| c.0).collect();
    // every category x width {0, 1, 255, 256} x every combination of the three flags, on a string
    // column of its own; and every flag combination on the two integer types
    {
        let mut count = 0usize;
        let mut emit = |out: &mut Out, rng: &mut Rng, c: ColDef| {
            if count % 48 == 0 {
                out.req("new", format!("new {}", (count / 48) % 3));
            }
            let mut k = ColDef::new("K", CT::I16);
            k.key = true;
            out.req("create_table", format!("create_table {} {} {}", hex_of_str(&format!("F{}", count % 48)), k.tok(), c.tok()));
            // the flagged column alone (it is the only key, or there is none)
            out.req("create_table", format!("create_table {} {}", hex_of_str(&format!("G{}", count % 48)), c.tok()));
            count += 1;
            if count % 48 == 0 {
                out.req("snapshot", "snapshot".into());
                out.req("reopen", format!("reopen {}", rng.pick(&crate::hist::CLOSE_MODES)));
                out.req("snapshot", "snapshot".into());
            }
        };
        for flags in 0..8u32 {
            for ct in [CT::I16, CT::I32] {
                let mut c = ColDef::new("X", ct);
                c.localizable = flags & 1 != 0;
                c.nullable = flags & 2 != 0;
                c.key = flags & 4 != 0;
                emit(out, rng, c);
            }
            for cat in std::iter::once(None).chain(cats.iter().map(|c| Some(*c))) {
                for w in [0usize, 1, 255, 256] {
                    let mut c = ColDef::new("X", CT::Str(w));
                    c.localizable = flags & 1 != 0;
                    c.nullable = flags & 2 != 0;
                    c.key = flags & 4 != 0;
                    c.cat = cat;
                    emit(out, rng, c);
                }
            }
        }
        out.req("snapshot", "snapshot".into());
        out.req("reopen", "reopen flush".into());
        out.req("snapshot", "snapshot".into());
        out.exhaustive.push("every category (and none) x string width {0,1,255,256} x every combination of localizable/nullable/primary-key, plus both integer types x every flag combination: created, reported, saved, reopened".into());
    }
    let n = if thorough { 20000 } else { 1500 };
    let widths = [0usize, 1, 2, 64, 72, 254, 255, 256, 257, 511, 512, 4095, 4096, 65535, 65536];
    let mut tno = 0;
    for i in 0..n {
        if i % 40 == 0 {
            out.req("new", format!("new {}", rng.below(3)));
            tno = 0;
        }
        let ncols = match rng.below(12) {
            0 => 32,
            1 => 33,
            2 => 31,
            _ => 1 + rng.below(5) as usize,
        };
        let mut cols = vec![];
        for j in 0..ncols {
            let ct = match rng.below(5) {
                0 => CT::I16,
                1 => CT::I32,
                _ => CT::Str(*rng.pick(&widths)),
            };
            let mut c = ColDef::new(&format!("C{j}"), ct.clone());
            c.key = j == 0 || rng.chance(1, 6);
            c.nullable = rng.chance(1, 2);
            c.localizable = rng.chance(1, 4);
            if rng.chance(1, 4) {
                c.range = Some(*rng.pick(&[(0, 10), (-5, 5), (i32::MIN, 5), (1, i32::MAX), (i32::MIN + 1, i32::MAX), (7, 3), (i32::MIN, i32::MIN)]));
            }
            if rng.chance(1, 5) {
                let t = *rng.pick(&["Other", "_T.x", "9bad", "", "A_very_long_table_name_that_goes_on_and_on_and_on"]);
                c.fk = Some((t.to_string(), *rng.pick(&[1, 2, 32, 33, 0, -1])));
            }
            if matches!(ct, CT::Str(_)) {
                if rng.chance(1, 3) {
                    c.cat = Some(*rng.pick(&cats));
                }
                if rng.chance(1, 5) {
                    c.enums = match rng.below(6) {
                        0 => vec!["a;b".into(), "c".into()],
                        1 => vec!["".into()],
                        2 => vec!["x".into(), "".into()],
                        3 => vec!["q".repeat(200), "r".repeat(60)],
                        _ => vec!["a".into(), "bb".into(), "Zed".into()],
                    };
                }
            }
            if rng.chance(1, 40) {
                c.name = rng.pick(&["9x", "", "a b", "Dup", "Dup", &"n".repeat(33), &"n".repeat(32), &"n".repeat(65)]).to_string();
            }
            cols.push(c);
        }
        if rng.chance(1, 30) {
            for c in cols.iter_mut() {
                c.key = false;
            }
        }
        tno += 1;
        let name = match rng.below(25) {
            0 => "T".repeat(32),
            1 => "T".repeat(33),
            2 => "T".repeat(60),
            3 => "T".repeat(61),
            4 => "_Tables".to_string(),
            _ => format!("T{tno}"),
        };
        let toks: Vec<String> = cols.iter().map(|c| c.tok()).collect();
        out.req("create_table", format!("create_table {} {}", hex_of_str(&name), toks.join(" ")));
        out.req("snapshot", "snapshot".into());
        if rng.chance(1, 6) {
            // the same name released and taken again within the session: with the same columns,
            // with the columns the other way round, or with one column only
            out.req("drop_table", format!("drop_table {}", hex_of_str(&name)));
            let again: Vec<String> = match rng.below(3) {
                0 => toks.clone(),
                1 => toks.iter().rev().cloned().collect(),
                _ => toks[..1].to_vec(),
            };
            out.req("create_again", format!("create_table {} {}", hex_of_str(&name), again.join(" ")));
            out.req("snapshot", "snapshot".into());
            if rng.chance(1, 2) {
                out.req("reopen", format!("reopen {}", rng.pick(&crate::hist::CLOSE_MODES)));
                out.req("snapshot", "snapshot".into());
            }
        }
        if i % 40 == 39 || rng.chance(1, 10) {
            out.req("reopen", format!("reopen {}", rng.pick(&crate::hist::CLOSE_MODES)));
            out.req("snapshot", "snapshot".into());
        }
    }
}

// ------------------------------------------------------------------------------------
// C20: capacity limits at L-1, L, L+1

fn gen_c20(out: &mut Out, rng: &mut Rng, thorough: bool) {
    // columns: 31, 32, 33
    for n in [31usize, 32, 33, 34] {
        out.req("new", "new 0".into());
        let cols: Vec<String> = (0..n)
            .map(|j| {
                let mut c = ColDef::new(&format!("C{j}"), CT::I16);
                c.key = j == 0;
                c.tok()
            })
            .collect();
        out.req("columns_limit", format!("create_table {} {}", hex_of_str("Wide"), cols.join(" ")));
        out.req("snapshot", "snapshot".into());
        out.req("reopen", "reopen into_inner".into());
        out.req("snapshot", "snapshot".into());
    }
    gen_limits_repeated_values(out);
    // a table with more columns than create_table admits (reached by adding catalog rows by hand,
    // as a file from another writer might have): every statement still works on it
    {
        let cols: Vec<String> = (0..32).map(|j| {
            let mut c = ColDef::new(&format!("C{:02}", j + 1), if j == 0 { CT::I32 } else { CT::I16 });
            c.key = j == 0;
            c.nullable = j != 0;
            c.tok()
        }).collect();
        let wide = hex_of_str("Wide");
        out.req("new", "new 0".into());
        out.req("create_table", format!("create_table {wide} {}", cols.join(" ")));
        for extra in [33, 34] {
            out.req("catalog_edit", format!("insert {} 1 4 S{wide} I{extra} S{} I5378", hex_of_str("_Columns"), hex_of_str(&format!("C{extra}"))));
            out.req("catalog_edit", format!("insert {} 1 10 S{wide} S{} S{} N N N N N N N", hex_of_str("_Validation"), hex_of_str(&format!("C{extra}")), hex_of_str("Y")));
        }
        out.req("reopen", "reopen into_inner".into());
        out.req("snapshot", "snapshot".into());
        let vals: Vec<String> = (0..34).map(|j| if j == 0 { "I200".to_string() } else { format!("I{}", j) }).collect();
        out.req("wide_insert", format!("insert {wide} 1 34 {}", vals.join(" ")));
        out.req("wide_update", format!("update {wide} 1 {} I-2 -", hex_of_str("C02")));
        out.req("wide_update", format!("update {wide} 1 {} I-33 eq C{} I200", hex_of_str("C33"), hex_of_str("C01")));
        out.req("wide_update", format!("update {wide} 2 {} I201 {} I-34 -", hex_of_str("C01"), hex_of_str("C34")));
        out.req("snapshot", "snapshot".into());
        out.req("wide_delete", format!("delete {wide} eq C{} I-33", hex_of_str("C33")));
        out.req("snapshot", "snapshot".into());
        out.req("reopen", "reopen flush".into());
        out.req("snapshot", "snapshot".into());
        out.req("drop_table", format!("drop_table {wide}"));
        out.req("snapshot", "snapshot".into());
    }
    out.req("catalog_hand_limit", "@catalog_hand_limit _Validation 2".into());
    out.req("catalog_hand_limit", "@catalog_hand_limit _Columns 1".into());
    // two full tables (65,536 rows each) holding one text: 131,072 references to it
    out.req("two_full_tables", "@two_full_tables".into());
    // names: table names around 31/32/33 and 60/61 characters; stream names around the limit
    out.req("new", "new 0".into());
    for len in [30usize, 31, 32, 33, 59, 60, 61, 62, 63] {
        let name = "N".repeat(len);
        out.req("name_limit", format!("create_table {} 4b:i16:K:-:-:-:-", hex_of_str(&name)));
        out.req("snapshot", "snapshot".into());
    }
    for len in [30usize, 31, 32, 61, 62, 63, 64] {
        for ch in ['s', '-'] {
            let name: String = std::iter::repeat(ch).take(len).collect();
            out.req("name_limit", format!("stream_write {} 0102", hex_of_str(&name)));
        }
    }
    // the limit counts UTF-16 units of the encoded name, whatever the characters: accented
    // letters and CJK (1 unit, 2-3 UTF-8 bytes), emoji (2 units, 4 bytes), mixed with packable text
    for len in [10usize, 15, 16, 29, 30, 31, 32] {
        for ch in ['\u{e9}', '\u{65e5}'] {
            let name: String = std::iter::repeat(ch).take(len).collect();
            out.req("name_limit", format!("stream_write {} 0102", hex_of_str(&name)));
            out.req("name_limit", format!("stream_read {}", hex_of_str(&name)));
        }
        let emoji: String = std::iter::repeat('\u{1f600}').take(len / 2).collect();
        out.req("name_limit", format!("stream_write {} 0102", hex_of_str(&emoji)));
        let mixed = format!("{}{}", "ab".repeat(len), "\u{fc}");
        out.req("name_limit", format!("stream_write {} 0102", hex_of_str(&mixed)));
    }
    out.req("snapshot", "snapshot".into());
    out.req("reopen", "reopen flush".into());
    out.req("snapshot", "snapshot".into());
    // rows: L-1, L, L+1 in one batch and incrementally, across reopen, and after deletions
    // (oracle-only macro requests: 65,536-row tables are outside what the list-based model runs quickly)
    let row_cases: &[&str] = if thorough {
        &["65535 1 1", "65536 1", "65537", "65000 535 1 1", "65536 0", "1 65535 1", "32768 32768 1"]
    } else {
        &["65535 1 1", "65537"]
    };
    for c in row_cases {
        out.req("rows_limit", format!("@rows_limit {c}"));
    }
    // catalog tables: `_Columns` / `_Validation` hold one row per column of every table; a
    // create_table that would take them past the row limit, exactly to it, and after a drop
    out.req("catalog_limit", "@catalog_limit 32".into());
    if thorough {
        out.req("catalog_limit", "@catalog_limit 7".into());
    }
    // strings: a pool that is one entry short of what two-byte references can address
    out.req("strings_limit", "@pool_limit 65533".into());
    out.req("strings_limit", "@pool_limit 65534".into());
    out.req("strings_limit", "@pool_limit 65535".into());
    // plus ordinary histories
    let cfg = crate::hist::HistCfg {
        sessions: if thorough { 2000 } else { 100 }, max_steps: 15, non_ascii: true, streams: true,
        summary: false, invalid: true, key_updates: true, reopen: true, raw: false, selects: false,
    };
    for _ in 0..cfg.sessions {
        crate::hist::gen_session(out, rng, &cfg);
    }
}

// ------------------------------------------------------------------------------------
// C16: read-only sessions

fn gen_c16_full_pool(out: &mut Out, rng: &mut Rng) {
    use crate::decode::*;
    let mut k = ColDef::new("K", CT::I16);
    k.key = true;
    let mut v = ColDef::new("V", CT::Str(0));
    v.nullable = true;
    let tables = vec![EncTable { name: "T".into(), cols: vec![k, v], rows: vec![vec![V::Int(1), V::Str("one".into())], vec![V::Int(2), V::Null]] }];
    let mut layout = EncLayout {
        long_refs: false, cp_id: 65001, filler: vec![], overcount: 0, duplicate: false,
        with_validation: true, reverse_rows: false, int16_size: 2,
    };
    let base = decode(&encode_db(&layout, &tables)).unwrap().pool.len();
    for target in [65535usize, 65534] {
        layout.filler = (0..target - base).map(|_| (String::new(), 0u16)).collect();
        let mut entries = encode_db(&layout, &tables);
        let props: Vec<(u32, PVal)> = vec![(1, PVal::I2(65001u16 as i16)), (2, PVal::Str(b"Installation Database".to_vec()))];
        let pl = PropLayout { version: 0, os: 2, os_version: 10, section_gap: 0, table_order: vec![0, 1], value_order: vec![0, 1], gaps: vec![0, 0] };
        entries.push(("\u{5}SummaryInformation".to_string(), write_propset(&props, &pl)));
        for mode in crate::hist::CLOSE_MODES {
            out.req("load", format!("load 0 {}", entries_tok(&entries)));
            out.req("ro_select", format!("select SEL 0 - T {}", hex_of_str("T")));
            out.req("ro_streams", "streams".into());
            out.req("readonly_close", format!("@readonly_close {mode}"));
        }
    }
    let _ = rng;
}

fn gen_c16(out: &mut Out, rng: &mut Rng, thorough: bool) {
    gen_c16_full_pool(out, rng);
    // databases of another writer (three-byte references, no `_Validation` table, unused entries)
    for b in c09_bases().iter() {
        for mode in crate::hist::CLOSE_MODES {
            out.req("load", format!("load 0 {}", entries_tok(b)));
            out.req("ro_select", format!("select SEL 0 - T {}", hex_of_str("T")));
            out.req("ro_snapshot", "snapshot".into());
            out.req("readonly_close", format!("@readonly_close {mode}"));
        }
    }
    // databases whose reference counts are not what their rows make them (another writer's own
    // counting, or what a failed insert left behind): every count too high, an entry nobody
    // refers to that is counted all the same, a text held in two entries
    {
        use crate::decode::*;
        let summary = c09_bases()[0].iter().find(|(n, _)| n.starts_with('\u{5}')).unwrap().clone();
        for case in 0..(if thorough { 12 } else { 6 }) {
            let mut k = ColDef::new("K", CT::Str(8));
            k.key = true;
            let mut v = ColDef::new("V", CT::Str(0));
            v.nullable = true;
            let t = EncTable { name: "T".into(), cols: vec![k, v], rows: vec![vec![V::Str("a".into()), V::Str("shared".into())], vec![V::Str("b".into()), V::Str("shared".into())], vec![V::Str("c".into()), V::Null]] };
            let layout = EncLayout {
                long_refs: case % 2 == 1, cp_id: 65001,
                filler: if case % 3 == 0 { vec![("leaked by a failed insert".into(), 2)] } else if case % 3 == 1 { vec![("unused".into(), 0), ("counted".into(), 1)] } else { vec![] },
                overcount: [0u16, 1, 3][(case / 2) % 3], duplicate: case % 4 == 3, with_validation: case % 2 == 0, reverse_rows: false, int16_size: 2,
            };
            let mut e = encode_db(&layout, &[t]);
            e.push(summary.clone());
            for mode in crate::hist::CLOSE_MODES {
                for ff in ["", "ff:"] {
                    out.req("load_miscounted", format!("load 0 {}", entries_tok(&e)));
                    out.req("ro_select", format!("select SEL 0 - T {}", hex_of_str("T")));
                    out.req("ro_snapshot", "snapshot".into());
                    out.req("readonly_close", format!("@readonly_close {ff}{mode}"));
                }
            }
        }
    }
    let cfg = crate::hist::HistCfg {
        sessions: 0, max_steps: 12, non_ascii: true, streams: true, summary: true, invalid: false,
        key_updates: false, reopen: false, raw: false, selects: false,
    };
    let n = if thorough { 8000 } else { 400 };
    for _ in 0..n {
        // build a package with some content, save it, reopen it
        crate::hist::gen_session(out, rng, &cfg);
        if rng.chance(1, 3) {
            // states a reader might want to "tidy": a table whose stream exists but holds no rows
            // (every row deleted again, or an insert of no rows), a pool ending in released entries
            let e = hex_of_str("Emptied");
            out.req("create_table", format!("create_table {e} {}:i16:K:-:-:-:- {}:s0:N:-:-:-:-", hex_of_str("K"), hex_of_str("S")));
            match rng.below(3) {
                0 => {
                    out.req("insert", format!("insert {e} 2 2 I1 S{} 2 I2 S{}", hex_of_str("only here"), hex_of_str("and here")));
                    out.req("delete", format!("delete {e} -"));
                }
                1 => out.req("insert", format!("insert {e} 0")),
                _ => {
                    out.req("insert", format!("insert {e} 1 2 I1 S{}", hex_of_str("last string of the pool")));
                    out.req("update", format!("update {e} 1 {} N -", hex_of_str("S")));
                }
            }
        }
        if rng.chance(1, 4) {
            // a `_Validation` row about a table that does not exist (left by a hand edit): a reader
            // must leave it alone like everything else
            out.req("catalog_edit", format!("insert {} 1 10 S{} S{} S{} N N N N N N N", hex_of_str("_Validation"), hex_of_str("Planned"), hex_of_str("K"), hex_of_str("N")));
        }
        if rng.chance(1, 2) {
            // database code page and summary code page are independent: leave them different
            out.req("set_db_cp", format!("set_db_cp {}", rng.pick(&["Windows1252", "Iso88591", "Utf8", "Windows1251"])));
        }
        out.req("reopen", format!("reopen {}", rng.pick(&crate::hist::CLOSE_MODES)));
        // read-only calls
        let k = rng.below(12);
        for _ in 0..k {
            match rng.below(8) {
                0 => out.req("ro_snapshot", "snapshot".into()),
                1 => out.req("ro_streams", "streams".into()),
                2 => out.req("ro_stream_read", format!("stream_read {}", hex_of_str(*rng.pick(&["logo", "Icon.1", "x", "nope"])))),
                3 => out.req("ro_has", format!("has_stream {}", hex_of_str(*rng.pick(&["logo", "x", "bin data"])))),
                4 => out.req("ro_has", "has_sig".into()),
                5 => {
                    let t = *rng.pick(&["A", "B", "Tbl3", "_Validation", "_Columns", "Missing"]);
                    out.req("ro_select", format!("select SEL 0 - T {}", hex_of_str(t)));
                }
                6 => {
                    let a = *rng.pick(&["A", "B", "_Tables"]);
                    let b = *rng.pick(&["A", "B", "_Columns"]);
                    out.req("ro_join", format!("select SEL 0 - {} SEL 0 - T {} SEL 0 - T {} I1", rng.pick(&["IJ", "LJ"]), hex_of_str(a), hex_of_str(b)));
                }
                _ => out.req("ro_select", format!("select SEL 1 {} - T {}", hex_of_str("K"), hex_of_str("A"))),
            }
        }
        let ff = if rng.chance(1, 4) { "ff:" } else { "" };
        out.req("readonly_close", format!("@readonly_close {ff}{}", rng.pick(&crate::hist::CLOSE_MODES)));
    }
}

// ------------------------------------------------------------------------------------
// C07: the insert / update gate (invalid <=> refused), per column kind

fn gen_gate_sessions(out: &mut Out, rng: &mut Rng, thorough: bool) {
    let n = if thorough { 3000 } else { 200 };
    let cats = ["Identifier", "Property", "UpperCase", "LowerCase", "Integer", "DoubleInteger", "Guid", "Version", "Language", "Cabinet", "Text"];
    let strs = ["", "a", "A", "Id_1", "%Id", "9x", "12", "-7", "+7", "32768", "1.2.3", "1.2.3.4.5", "1033,1041", "{34AB5C53-9B30-4E14-AEF0-2C1C7BA826C0}", "file.txt", "#Cab", "toolongname.text", "\u{e9}\u{e9}\u{e9}\u{e9}\u{e9}.txt", "Zed", "b",
        " lead", "trail ", "lead", "trail", " ", "plain", "in side"];
    for _ in 0..n {
        out.req("new", "new 0".into());
        let mut k = ColDef::new("K", CT::I16);
        k.key = true;
        let mut cols = vec![k];
        for j in 0..(1 + rng.below(3)) {
            let ct = match rng.below(4) {
                0 => CT::I16,
                1 => CT::I32,
                _ => CT::Str(*rng.pick(&[0usize, 3, 8, 40])),
            };
            let mut c = ColDef::new(&format!("C{j}"), ct.clone());
            c.nullable = rng.chance(1, 2);
            match ct {
                CT::Str(_) => {
                    if rng.chance(2, 3) {
                        c.cat = Some(*rng.pick(&cats));
                    }
                    if rng.chance(1, 5) {
                        c.enums = vec!["a".into(), "Zed".into(), "12".into()];
                    } else if rng.chance(1, 8) {
                        // listed values with blanks at either end are values like any other
                        c.enums = vec![" lead".into(), "trail ".into(), "in side".into(), " ".into(), "plain".into()];
                    }
                }
                _ => {
                    if rng.chance(1, 2) {
                        c.range = Some(*rng.pick(&[(0, 10), (1, 100000), (-32768, 10), (-40000, 40000), (5, 5)]));
                    }
                }
            }
            cols.push(c);
        }
        let toks: Vec<String> = cols.iter().map(|c| c.tok()).collect();
        out.req("create_table", format!("create_table {} {}", hex_of_str("G"), toks.join(" ")));
        let mut key = 0;
        let mkrow = |rng: &mut Rng, key: i32| -> Vec<V> {
            let mut row = vec![V::Int(key)];
            for c in &cols[1..] {
                let v = match rng.below(6) {
                    0 => V::Null,
                    1 => V::Int(*rng.pick(&[0, 5, 6, 10, 11, -32768, -32767, 32767, 32768, 65541, 100000, 100001, i32::MIN, i32::MAX, -40000, -40001])),
                    _ => match c.ct {
                        CT::Str(_) => V::Str(rng.pick(&strs).to_string()),
                        _ => V::Int(*rng.pick(&[0, 1, 5, 10, 11, 32767, 32768, -32768, 65541, 40000, 100000])),
                    },
                };
                row.push(v);
            }
            if rng.chance(1, 20) {
                row.pop();
            }
            row
        };
        for _ in 0..(4 + rng.below(10)) {
            key += 1;
            let row = mkrow(rng, key);
            if rng.chance(1, 2) {
                // one row, or a batch: every row of a batch is checked, whichever comes first
                let mut rows = vec![row.clone()];
                if rng.chance(1, 3) {
                    for _ in 0..(1 + rng.below(3)) {
                        key += 1;
                        rows.push(mkrow(rng, key));
                    }
                }
                let mut parts = vec![rows.len().to_string()];
                for r in &rows {
                    parts.push(r.len().to_string());
                    for v in r {
                        parts.push(v.tok());
                    }
                }
                out.req(if rows.len() > 1 { "gate_insert_batch" } else { "gate_insert" }, format!("insert {} {}", hex_of_str("G"), parts.join(" ")));
            } else if row.len() > 1 {
                let j = 1 + rng.below(row.len() as u64 - 1) as usize;
                out.req("gate_update", format!("update {} 1 {} {} -", hex_of_str("G"), hex_of_str(&cols[j.min(cols.len() - 1)].name), row[j].tok()));
            }
            if rng.chance(1, 3) {
                out.req("snapshot", "snapshot".into());
            }
            if rng.chance(1, 9) {
                // the same gate in a later session, on the definition rebuilt from the file
                out.req("snapshot", "snapshot".into());
                out.req("reopen", format!("reopen {}", rng.pick(&crate::hist::CLOSE_MODES)));
                out.req("snapshot", "snapshot".into());
            }
        }
        out.req("snapshot", "snapshot".into());
        if rng.chance(1, 3) {
            out.req("reopen", format!("reopen {}", rng.pick(&crate::hist::CLOSE_MODES)));
            out.req("snapshot", "snapshot".into());
        }
    }
}

// ------------------------------------------------------------------------------------
// C11: stream contents (writes, overwrites, removals, interleaved with table operations)

fn gen_stream_sessions(out: &mut Out, rng: &mut Rng, thorough: bool) {
    let n = if thorough { 3000 } else { 250 };
    // (the last four: spellings that are one name to the container - same length, same upper-cased
    // text in the characters the encoding leaves alone)
    let plain_names = ["logo", "Icon.1", "bin data", "x", "\u{4e2d}\u{6587}", "A_very_long_stream_name_012345", "__init__", "xy__z", "__", "a.b_c", "UPPER", "upper", "N1", "n1", "s p a c e", "\u{5}Odd", "t\u{4840}t"];
    let folding_names = ["logo", "x", "\u{fc}n\u{ef}code-1", "\u{dc}n\u{cf}code-1", "\u{fc}", "\u{dc}", "N1", "n1", "caf\u{e9}-x", "caf\u{c9}-x"];
    let bad = ["", "a/b", "a\\b", "a:b", "a!b", "\u{4840}T", "\u{3800}", "\u{47ff}x", "this_name_is_far_too_long_to_fit_into_a_compound_file_directory_entry", "\u{5}SummaryInformation", "_StringPool", "."];
    let sizes = [0usize, 1, 26, 63, 64, 65, 4095, 4096, 4097, 6000, 8192, 9000];
    // names far beyond the limit, with characters of every UTF-8 width at every byte alignment
    // (whatever a call does with a refused name -- quote it, cut it -- it must not panic)
    out.req("new", "new 0".into());
    for pre in 0..5usize {
        for ch in ['\u{e9}', '\u{65e5}', '\u{1f600}'] {
            for reps in [20usize, 90, 150, 400] {
                let name = format!("{}{}", &"Icon."[..pre], std::iter::repeat(ch).take(reps).collect::<String>());
                let h = hex_of_str(&name);
                out.req("long_name", format!("stream_write {h} {}", hex_of_bytes(b"data")));
                out.req("long_name", format!("stream_read {h}"));
                out.req("long_name", format!("stream_remove {h}"));
                out.req("long_name", format!("has_stream {h}"));
            }
        }
    }
    out.req("streams", "streams".into());
    // signed packages: removing the signature removes only the signature (one or both of the two
    // signature streams present; before and after other calls; across reopen)
    {
        let base = c09_bases()[0].clone();
        for case in 0..(if thorough { 120 } else { 12 }) {
            let mut e = base.clone();
            if case % 3 != 1 {
                e.push(("\u{5}DigitalSignature".to_string(), (0..(40 + case * 37 % 5000)).map(|i| (i * 7) as u8).collect()));
            }
            if case % 3 != 0 {
                e.push(("\u{5}MsiDigitalSignatureEx".to_string(), vec![1, 2, 3, 4]));
            }
            e.push((crate::decode::pack_name("logo", false), vec![9u8; 70]));
            out.req("load_signed", format!("load {} {}", case % 3, entries_tok(&e)));
            out.req("has_sig", "has_sig".into());
            out.req("streams", "streams".into());
            if case % 4 == 1 {
                out.req("stream_write", format!("stream_write {} 0a0b", hex_of_str("extra")));
            }
            if case % 4 == 2 {
                out.req("table_op", format!("insert {} 1 3 I77 S{} I5", hex_of_str("Items"), hex_of_str("seventy-seven")));
            }
            // the signature streams are not reachable through the stream interface
            out.req("special_read", format!("stream_read {}", hex_of_str("\u{5}DigitalSignature")));
            out.req("special_remove", format!("stream_remove {}", hex_of_str("\u{5}DigitalSignature")));
            out.req("snapshot", "snapshot".into());
            out.req("remove_sig", "remove_sig".into());
            out.req("snapshot", "snapshot".into());
            out.req("has_sig", "has_sig".into());
            out.req("streams", "streams".into());
            if case % 2 == 0 {
                out.req("remove_sig", "remove_sig".into());
                out.req("snapshot", "snapshot".into());
            }
            out.req("reopen", format!("reopen {}", crate::hist::CLOSE_MODES[case % 3]));
            out.req("snapshot", "snapshot".into());
            out.req("has_sig", "has_sig".into());
            out.req("raw", "raw".into());
        }
    }
    for si in 0..n {
        out.req("new", format!("new {}", rng.below(3)));
        // one session in ten uses spellings that are ONE name to the container (same length, same
        // upper-cased text in the letters the encoding leaves alone); the model folds ASCII case
        // only, so these sessions are decided by the oracle on the real code alone
        let names: &[&str] = if si % 10 == 9 { &folding_names } else { &plain_names };
        if si % 10 == 9 {
            out.req("oracle_only", "oracle_only_session".into());
        }
        if rng.chance(1, 3) {
            out.req("create_table", format!("create_table {} 4b:i16:K:-:-:-:- 56:s0:N:-:-:-:-", hex_of_str("T")));
        }
        for _ in 0..(3 + rng.below(14)) {
            let name = if rng.chance(1, 8) {
                rng.pick(&bad).to_string()
            } else if rng.chance(1, 25) {
                let len = 30 + rng.below(300) as usize;
                (0..len).map(|_| *rng.pick(&['a', '.', '\u{e9}', '\u{65e5}', '\u{1f600}', 'Z'])).collect()
            } else {
                rng.pick(names).to_string()
            };
            let h = hex_of_str(&name);
            match rng.below(12) {
                0 | 1 | 2 | 3 | 4 => {
                    let len = *rng.pick(&sizes);
                    let seed = rng.below(251) as usize;
                    let data: Vec<u8> = (0..len).map(|i| (i * 13 + seed) as u8).collect();
                    out.req("stream_write", format!("stream_write {h} {}", hex_of_bytes(&data)));
                }
                5 => out.req("stream_remove", format!("stream_remove {h}")),
                6 => out.req("stream_read", format!("stream_read {h}")),
                7 => {
                    if rng.chance(1, 3) {
                        out.req("remove_sig", "remove_sig".into());
                    } else {
                        out.req("has_stream", format!("has_stream {h}"));
                    }
                }
                8 => out.req("streams", "streams".into()),
                9 => {
                    out.req("table_op", format!("insert {} 1 2 I{} S{}", hex_of_str("T"), rng.below(50), hex_of_str("v")));
                }
                10 => {
                    out.req("snapshot", "snapshot".into());
                    out.req("reopen", format!("reopen {}", rng.pick(&crate::hist::CLOSE_MODES)));
                    out.req("snapshot", "snapshot".into());
                }
                _ => {
                    // the table and special streams are not reachable through the stream interface
                    let special = *rng.pick(&["_Tables", "_Columns", "_StringPool", "_StringData", "_Validation", "T"]);
                    out.req("special_read", format!("stream_read {}", hex_of_str(special)));
                    out.req("special_remove", format!("stream_remove {}", hex_of_str(special)));
                }
            }
        }
        out.req("streams", "streams".into());
        out.req("snapshot", "snapshot".into());
        out.req("reopen", format!("reopen {}", rng.pick(&crate::hist::CLOSE_MODES)));
        out.req("snapshot", "snapshot".into());
    }
}

// ------------------------------------------------------------------------------------
// C09: structure-aware corruptions of valid packages

fn entries_tok(entries: &[(String, Vec<u8>)]) -> String {
    if entries.is_empty() {
        return "-".into();
    }
    entries.iter().map(|(n, d)| format!("{}={}", hex_of_str(n), hex_of_bytes(d))).collect::<Vec<_>>().join(";")
}

/// valid base containers: one written by the library, two by the independent encoder
/// (three-byte references; no _Validation table)
pub fn c09_bases() -> Vec<Vec<(String, Vec<u8>)>> {
    use crate::decode::*;
    let mut bases = vec![];
    // (a) written by the library
    {
        let m = crate::session::Medium::new(Vec::new());
        let mut pkg = msi::Package::create(msi::PackageType::Installer, m.clone()).unwrap();
        pkg.create_table(
            "Items",
            vec![
                msi::Column::build("Id").primary_key().int16(),
                msi::Column::build("Name").nullable().category(msi::Category::Text).string(32),
                msi::Column::build("Big").nullable().range(0, 100000).int32(),
            ],
        )
        .unwrap();
        pkg.insert_rows(
            msi::Insert::into("Items")
                .row(vec![msi::Value::Int(1), msi::Value::from("one"), msi::Value::Int(70000)])
                .row(vec![msi::Value::Int(2), msi::Value::Null, msi::Value::Null])
                .row(vec![msi::Value::Int(3), msi::Value::from("one"), msi::Value::Int(5)]),
        )
        .unwrap();
        pkg.summary_info_mut().set_author("Jane");
        pkg.flush().unwrap();
        drop(pkg);
        bases.push(crate::session::raw_streams(&m.snapshot_bytes()).unwrap());
    }
    let summary = bases[0].iter().find(|(n, _)| n.starts_with('\u{5}')).unwrap().clone();
    for long in [false, true] {
        let mut k = ColDef::new("K", CT::Str(8));
        k.key = true;
        let mut v = ColDef::new("V", CT::I16);
        v.nullable = true;
        let t = EncTable {
            name: "T".into(),
            cols: vec![k, v],
            rows: vec![vec![V::Str("a".into()), V::Int(1)], vec![V::Str("b".into()), V::Null]],
        };
        let layout = EncLayout {
            long_refs: long, cp_id: 65001, filler: vec![("unused".into(), 0)], overcount: 0, duplicate: false,
            with_validation: !long, reverse_rows: false, int16_size: 2,
        };
        let mut e = encode_db(&layout, &[t]);
        e.push(summary.clone());
        bases.push(e);
    }
    bases
}

fn corrupt(rng: &mut Rng, base: &[(String, Vec<u8>)]) -> (Vec<(String, Vec<u8>)>, &'static str) {
    let mut e: Vec<(String, Vec<u8>)> = base.to_vec();
    let i = rng.below(e.len() as u64) as usize;
    let is_summary = e[i].0.starts_with('\u{5}');
    let words = [0u16, 1, 2, 0xffff, 0x8000, 0x7fff, 0x8001, 0x0800, 0x2800, 0x3fff, 0x00ff, 300];
    match rng.below(12) {
        0 => {
            e.remove(i);
            (e, "stream_missing")
        }
        10 => {
            // a well-formed property set whose VALUES are hostile: every getter must cope
            use crate::decode::{write_propset, PVal, PropLayout};
            let hostile: [&[u8]; 14] = [b"{", b"}", b"{}", b"{{", b"", b"{\xc3\xa9", b"\xc3", b";", b"x64;", b";1033", b"x;1033,abc,,7", b"{34AB5C53-9B30-4E14-AEF0-2C1C7BA826C0", b"34AB5C53-9B30-4E14-AEF0-2C1C7BA826C0}", b"{34AB5C53-9B30-4E14-AEF0-2C1C7BA826C0}}"];
            let mut props: Vec<(u32, PVal)> = vec![(1, PVal::I2(*rng.pick(&[-535i16, 1252, 0, 20127])))];
            for id in [2u32, 3, 4, 6, 7, 9, 18] {
                if rng.chance(2, 3) {
                    props.push((id, PVal::Str(rng.pick(&hostile).to_vec())));
                } else if rng.chance(1, 3) {
                    // a getter's property with a value of another type
                    props.push((id, rng.pick(&[PVal::I4(7), PVal::Null, PVal::Empty, PVal::Time(u64::MAX)]).clone()));
                }
            }
            props.push((12, rng.pick(&[PVal::Time(u64::MAX), PVal::Time(0), PVal::I4(-1), PVal::Str(b"x".to_vec())]).clone()));
            props.push((15, rng.pick(&[PVal::I4(i32::MIN), PVal::I2(-1), PVal::Str(b"".to_vec())]).clone()));
            let np = props.len();
            let pl = PropLayout { version: 0, os: 2, os_version: 10, section_gap: 0, table_order: (0..np).collect(), value_order: (0..np).collect(), gaps: vec![0; np] };
            let data = write_propset(&props, &pl);
            match e.iter_mut().find(|x| x.0.starts_with('\u{5}')) {
                Some(x) => x.1 = data,
                None => e.push(("\u{5}SummaryInformation".to_string(), data)),
            }
            (e, "summary_values")
        }
        11 => {
            // pool entries whose lengths (through the long-string escape) add up to 2^32 and more,
            // against the short data stream that is there
            let pool_name = crate::decode::pack_name("_StringPool", true);
            if let Some(x) = e.iter_mut().find(|x| x.0 == pool_name) {
                let keep = 4 + 4 * rng.below(3) as usize;
                x.1.truncate(keep.min(x.1.len()));
                let k = 2 + rng.below(3);
                for _ in 0..k {
                    let hi = *rng.pick(&[0x8000u16, 0xffff, 0x4000, 0x7fff]);
                    let lo = *rng.pick(&[0u16, 0xffff, 1]);
                    x.1.extend_from_slice(&[0, 0, hi as u8, (hi >> 8) as u8, lo as u8, (lo >> 8) as u8, 1, 0]);
                }
            }
            (e, "pool_lengths")
        }
        1 => {
            let k = 1 + rng.below(5) as usize;
            let n = e[i].1.len();
            e[i].1.truncate(n.saturating_sub(k));
            (e, "truncated")
        }
        2 => {
            let n = e[i].1.len();
            e[i].1.truncate(n / 2);
            (e, "halved")
        }
        3 => {
            let k = 1 + rng.below(9) as usize;
            let fill = *rng.pick(&[0u8, 0xff, 1, 0x80]);
            e[i].1.extend(std::iter::repeat(fill).take(k));
            (e, "extended")
        }
        4 if is_summary => {
            // byte-level mutation of the property set (header, offsets, counts, lengths, types)
            if !e[i].1.is_empty() {
                let pos = rng.below(e[i].1.len().min(120) as u64) as usize;
                e[i].1[pos] = *rng.pick(&[0u8, 1, 2, 3, 0xff, 0x1e, 0x40, 0x7f, 0x80, 16]);
            }
            (e, "summary_byte")
        }
        _ => {
            // replace one 16-bit word: a cell (null, dangling or huge reference, out-of-range
            // number), a pool length or reference count, a header word
            if e[i].1.len() >= 2 {
                let pos = 2 * rng.below((e[i].1.len() / 2) as u64) as usize;
                let w = if rng.chance(1, 6) { rng.below(65536) as u16 } else { *rng.pick(&words) };
                e[i].1[pos] = w as u8;
                e[i].1[pos + 1] = (w >> 8) as u8;
            }
            (e, "word_replaced")
        }
    }
}

fn gen_c09(out: &mut Out, rng: &mut Rng, thorough: bool) {
    let bases = c09_bases();
    let battery = |out: &mut Out, tables: &[&str]| {
        out.req("ffi", "@ffi_check".into());
        out.req("battery", "snapshot".into());
        out.req("battery", "streams".into());
        for t in tables {
            out.req("battery", format!("select SEL 0 - T {}", hex_of_str(t)));
        }
        out.req("battery", format!("select SEL 0 - IJ SEL 0 - T {} SEL 0 - T {} I1", hex_of_str(tables[0]), hex_of_str("_Columns")));
        out.req("battery", format!("insert {} 1 3 I9 S6e6577 I7", hex_of_str("Items")));
        out.req("battery", format!("insert {} 1 2 S7a I9", hex_of_str("T")));
        out.req("battery", format!("update {} 1 {} S7570 -", hex_of_str("Items"), hex_of_str("Name")));
        out.req("battery", format!("update {} 1 {} I3 -", hex_of_str("T"), hex_of_str("V")));
        out.req("battery", format!("delete {} gt C{} I1", hex_of_str("Items"), hex_of_str("Id")));
        out.req("battery", format!("delete {} -", hex_of_str("T")));
        out.req("battery", format!("create_table {} 4b:i16:K:-:-:-:-", hex_of_str("Fresh")));
        out.req("battery", format!("drop_table {}", hex_of_str(tables[0])));
        out.req("battery", "sum_set author 4a".into());
        out.req("battery", format!("stream_write {} 0102", hex_of_str("s")));
        out.req("battery", "flush".into());
        out.req("battery", "snapshot".into());
        out.req("battery", "reopen into_inner".into());
        out.req("battery", "snapshot".into());
    };
    // long use of one text: two full tables holding it in every row
    out.req("two_full_tables", "@two_full_tables".into());
    // the uncorrupted bases first
    for b in &bases {
        out.req("load_valid", format!("load 0 {}", entries_tok(b)));
        battery(out, &["Items", "T", "_Validation"]);
    }
    // summary texts with a multi-byte character, or a byte that is no UTF-8 at all, at every
    // offset: whatever a getter slices, trims or splits must cope with where characters begin
    {
        use crate::decode::{write_propset, PVal, PropLayout};
        let tails: [&[u8]; 5] = [b"\xc3\xa9", b"\xe6\x97\xa5", b"\xf0\x9f\x98\x80", b"\xff", b"\xc3"];
        let max = if thorough { 300usize } else { 72 };
        for off in 0..max {
            for (j, tail) in tails.iter().enumerate() {
                if !thorough && off > 48 && j > 1 {
                    continue;
                }
                let mut text: Vec<u8> = b"{34AB5C53-9B30-4E14-AEF0-2C1C7BA826C0};x64;1033,1041,".iter().cycle().take(off).cloned().collect();
                text.extend_from_slice(tail);
                text.extend_from_slice(b"0123456789}");
                let mut props: Vec<(u32, PVal)> = vec![(1, PVal::I2(if j % 2 == 0 { -535i16 } else { 1252 }))];
                for id in [2u32, 3, 4, 6, 7, 9, 18] {
                    props.push((id, PVal::Str(text.clone())));
                }
                let np = props.len();
                let pl = PropLayout { version: 0, os: 2, os_version: 10, section_gap: 0, table_order: (0..np).collect(), value_order: (0..np).collect(), gaps: vec![0; np] };
                let mut e = bases[0].clone();
                let data = write_propset(&props, &pl);
                match e.iter_mut().find(|x| x.0.starts_with('\u{5}')) {
                    Some(x) => x.1 = data,
                    None => e.push(("\u{5}SummaryInformation".to_string(), data)),
                }
                out.req("summary_offsets", format!("load 0 {}", entries_tok(&e)));
                out.req("ffi", "@ffi_check".into());
                out.req("battery", "snapshot".into());
            }
        }
    }
    // a user table whose stream holds more rows than the reader admits: the package opens, the
    // table is listed, reading its rows is an error (for the API and for the C interface alike)
    for (bi, b) in bases.iter().enumerate() {
        for tname in ["Items", "T"] {
            let packed = crate::decode::pack_name(tname, true);
            let mut e = b.clone();
            if let Some(x) = e.iter_mut().find(|x| x.0 == packed) {
                x.1 = vec![0u8; 1 << 20];
                out.req("too_many_rows", format!("load {} {}", bi % 3, entries_tok(&e)));
                battery(out, &["Items", "T", "_Validation"]);
            }
        }
    }
    // a summary property set that declares no property at all, edited without adding one
    {
        use crate::decode::{write_propset, PropLayout};
        let pl = PropLayout { version: 0, os: 2, os_version: 10, section_gap: 0, table_order: vec![], value_order: vec![], gaps: vec![] };
        for (j, edit) in ["sum_clear title", "sum_clear uuid", "sum_set author 4a", "snapshot"].iter().enumerate() {
            let mut e = bases[0].clone();
            let data = write_propset(&[], &pl);
            match e.iter_mut().find(|x| x.0.starts_with('\u{5}')) {
                Some(x) => x.1 = data,
                None => e.push(("\u{5}SummaryInformation".to_string(), data)),
            }
            out.req("summary_empty", format!("load {} {}", j % 3, entries_tok(&e)));
            out.req("ffi", "@ffi_check".into());
            out.req("battery", "snapshot".into());
            out.req("battery", edit.to_string());
            out.req("battery", "flush".into());
            out.req("battery", "snapshot".into());
            out.req("battery", format!("reopen {}", crate::hist::CLOSE_MODES[j % 3]));
            out.req("battery", "snapshot".into());
        }
    }
    out.req("wrong_clsid", format!("load none {}", entries_tok(&bases[0])));
    out.req("battery", "snapshot".into());
    let n = if thorough { 60_000 } else { 1_200 };
    for _ in 0..n {
        let b = rng.pick(&bases);
        let (e, kind) = corrupt(rng, b);
        out.req(kind, format!("load {} {}", rng.below(3), entries_tok(&e)));
        battery(out, &["Items", "T", "_Validation"]);
    }
    // arbitrary bytes (and byte-level damage to whole files) straight into Package::open
    let whole = crate::session::build_container(Some(0), &bases[0]).unwrap();
    let m = if thorough { 40_000 } else { 1_500 };
    for i in 0..m {
        let mut f = whole.clone();
        match i % 5 {
            0 => {
                let len = rng.below(600) as usize;
                f = (0..len).map(|_| rng.below(256) as u8).collect();
            }
            1 => {
                let n = rng.below(f.len() as u64) as usize;
                f.truncate(n);
            }
            _ => {
                let k = 1 + rng.below(4);
                for _ in 0..k {
                    let region = if rng.chance(1, 2) { 512.min(f.len()) } else { f.len() };
                    let pos = rng.below(region as u64) as usize;
                    f[pos] = *rng.pick(&[0u8, 0xff, 0xfe, 1, 2, 0x80, 0x10]);
                }
            }
        }
        out.req("raw_bytes", format!("@open_bytes {}", hex_of_bytes(&f)));
        if i % 3 == 0 {
            out.req("ffi", "@ffi_check".into());
        }
    }
}

// ------------------------------------------------------------------------------------
// C02: databases written by the independent encoder

fn shuffled(rng: &mut Rng, n: usize) -> Vec<usize> {
    let mut v: Vec<usize> = (0..n).collect();
    for i in (1..n).rev() {
        let j = rng.below(i as u64 + 1) as usize;
        v.swap(i, j);
    }
    v
}

/// databases of another writer whose rows are not in key order (integer keys descending, text
/// keys in the order of their pool numbers): a condition on the key is true of the rows it is
/// true of, wherever they lie
fn gen_foreign_key_selects(out: &mut Out, n: usize) {
    use crate::decode::*;
    for case in 0..n {
        let mut k = ColDef::new("Key", CT::I16);
        k.key = true;
        let mut v = ColDef::new("Val", CT::I32);
        v.nullable = true;
        let numbered = EncTable { name: "Numbered".into(), cols: vec![k, v], rows: (1..=5).map(|i| vec![V::Int(i * (case as i32 + 1)), V::Int(i * 10)]).collect() };
        let mut nk = ColDef::new("Name", CT::Str(16));
        nk.key = true;
        let named = EncTable { name: "Named".into(), cols: vec![nk], rows: ["pear", "apple", "zebra", "mango"].iter().map(|s| vec![V::Str(s.to_string())]).collect() };
        let layout = EncLayout { long_refs: case % 2 == 1, cp_id: 65001, filler: vec![], overcount: 0, duplicate: false, with_validation: case % 3 != 0, reverse_rows: true, int16_size: 2 };
        let mut entries = encode_db(&layout, &[numbered.clone(), named.clone()]);
        let props: Vec<(u32, PVal)> = vec![(1, PVal::I2(65001u16 as i16)), (2, PVal::Str(b"Installation Database".to_vec()))];
        let pl = PropLayout { version: 0, os: 2, os_version: 10, section_gap: 0, table_order: vec![0, 1], value_order: vec![0, 1], gaps: vec![0, 0] };
        entries.push(("\u{5}SummaryInformation".to_string(), write_propset(&props, &pl)));
        out.req("load", format!("load 0 {}", entries_tok(&entries)));
        out.req("snapshot", "snapshot".into());
        for tb in [&numbered, &named] {
            for row in tb.rows.iter() {
                for flip in [false, true] {
                    let (a, b) = (E::Col(tb.cols[0].name.clone()), E::Lit(row[0].clone()));
                    let e = if flip { E::Bin("eq", Box::new(b), Box::new(a)) } else { E::Bin("eq", Box::new(a), Box::new(b)) };
                    out.req("key_select", format!("select SEL 0 {} T {}", e.to_line(), hex_of_str(&tb.name)));
                }
            }
        }
    }
}

/// databases of another writer as they are commonly stored: an empty table has no stream at all,
/// `_Validation` declares its name columns 32 wide.  Edited like any other database: deletes that
/// match nothing, a table emptied twice and filled again over sessions, tables created whose
/// names are longer than `_Validation` admits (refused with nothing changed)
fn gen_foreign_edit_sessions(out: &mut Out, n: usize) {
    use crate::decode::*;
    for case in 0..n {
        let mut k = ColDef::new("K", CT::I16);
        k.key = true;
        let mut v = ColDef::new("V", CT::Str(0));
        v.nullable = true;
        let item = EncTable { name: "Item".into(), cols: vec![k.clone(), v.clone()], rows: vec![vec![V::Int(1), V::Str("one".into())], vec![V::Int(2), V::Null]] };
        let empty = EncTable { name: "Empty".into(), cols: vec![k.clone(), v.clone()], rows: vec![] };
        let layout = EncLayout { long_refs: case % 2 == 1, cp_id: 65001, filler: if case % 3 == 1 { vec![("hole".into(), 0)] } else { vec![] }, overcount: (case % 2) as u16, duplicate: false, with_validation: case % 4 != 3, reverse_rows: true, int16_size: 2 };
        let mut entries = encode_db(&layout, &[item.clone(), empty.clone()]);
        // the empty table is stored without a stream
        let packed = pack_name("Empty", true);
        entries.retain(|e| e.0 != packed);
        let props: Vec<(u32, PVal)> = vec![(1, PVal::I2(65001u16 as i16)), (2, PVal::Str(b"Installation Database".to_vec()))];
        let pl = PropLayout { version: 0, os: 2, os_version: 10, section_gap: 0, table_order: vec![0, 1], value_order: vec![0, 1], gaps: vec![0, 0] };
        entries.push(("\u{5}SummaryInformation".to_string(), write_propset(&props, &pl)));
        out.req("load", format!("load {} {}", case % 3, entries_tok(&entries)));
        out.req("snapshot", "snapshot".into());
        let (e, it, kc) = (hex_of_str("Empty"), hex_of_str("Item"), hex_of_str("K"));
        out.req("foreign_edit", format!("select SEL 0 - T {e}"));
        out.req("foreign_edit", format!("delete {e} eq C{kc} I1"));
        out.req("foreign_edit", format!("delete {e} -"));
        out.req("foreign_edit", format!("update {e} 1 {} S78 -", hex_of_str("V")));
        out.req("snapshot", "snapshot".into());
        out.req("foreign_edit", format!("insert {e} 2 2 I5 S66697665 2 I3 N"));
        out.req("foreign_edit", format!("delete {e} -"));
        out.req("foreign_edit", format!("delete {e} -"));
        out.req("foreign_edit", format!("delete {it} -"));
        out.req("foreign_edit", format!("delete {it} gt C{kc} I0"));
        out.req("snapshot", "snapshot".into());
        out.req("reopen", format!("reopen {}", crate::hist::CLOSE_MODES[case % 3]));
        out.req("snapshot", "snapshot".into());
        out.req("foreign_edit", format!("delete {e} -"));
        out.req("foreign_edit", format!("delete {it} eq C{kc} I9"));
        out.req("foreign_edit", format!("insert {e} 1 2 I7 S736576656e"));
        out.req("foreign_edit", format!("insert {it} 1 2 I7 N"));
        out.req("snapshot", "snapshot".into());
        // names beyond what `_Validation` of this file admits (32), within what `_Tables` and
        // `_Columns` admit (64), and beyond both
        for (ti, len) in [33usize, 64, 65, 32].iter().enumerate() {
            let tname = format!("L{}", "t".repeat(len - 1));
            out.req("foreign_long_name", format!("create_table {} 4b:i16:K:-:-:-:-", hex_of_str(&tname)));
            out.req("snapshot", "snapshot".into());
            let cname = format!("c{}", "n".repeat(len - 1));
            out.req("foreign_long_name", format!("create_table {} 4b:i16:K:-:-:-:- {}:s8:N:-:-:-:-", hex_of_str(&format!("W{ti}")), hex_of_str(&cname)));
            out.req("snapshot", "snapshot".into());
        }
        // a column of every category: the names the library writes into `_Validation` are the ones
        // this file's own `_Validation` lists as permitted
        if case % 2 == 0 {
            for (ci, cat) in CATEGORIES.iter().enumerate() {
                let mut kk = ColDef::new("K", CT::I16);
                kk.key = true;
                let mut vv = ColDef::new("V", CT::Str(38));
                vv.nullable = true;
                vv.cat = Some(cat.0);
                out.req("foreign_category", format!("create_table {} {} {}", hex_of_str(&format!("Cat{ci}")), kk.tok(), vv.tok()));
            }
            out.req("snapshot", "snapshot".into());
        }
        out.req("reopen", format!("reopen {}", crate::hist::CLOSE_MODES[(case + 1) % 3]));
        out.req("snapshot", "snapshot".into());
    }
}

fn gen_c02(out: &mut Out, rng: &mut Rng, thorough: bool) {
    gen_foreign_key_selects(out, if thorough { 12 } else { 3 });
    gen_foreign_edit_sessions(out, if thorough { 24 } else { 4 });
    use crate::decode::*;
    use crate::exec::ALL_CP;
    // the database code page is changed on a file whose summary uses the same page and holds text
    // the new page lacks: the summary (its own code page, its strings) is none of that call's
    // business (the tables hold ASCII text only, so nothing of theirs is lost either)
    for (ci, (cp_id, text, target)) in [(1252u32, "Ann\u{e9}", "Windows1251"), (65001, "\u{65e5}\u{672c}", "Windows1252"), (1251, "\u{416}\u{43f}", "Windows1252"), (65001, "Ann\u{e9}", "Windows932")].iter().enumerate() {
        let mut k = ColDef::new("K", CT::I16);
        k.key = true;
        let mut v = ColDef::new("V", CT::Str(0));
        v.nullable = true;
        let tables = vec![EncTable { name: "Plain".into(), cols: vec![k, v], rows: vec![vec![V::Int(1), V::Str("ascii only".into())], vec![V::Int(2), V::Null]] }];
        let layout = EncLayout { long_refs: false, cp_id: *cp_id, filler: vec![], overcount: 0, duplicate: false, with_validation: ci % 2 == 0, reverse_rows: false, int16_size: 2 };
        let mut entries = encode_db(&layout, &tables);
        let enc: Vec<u8> = match *cp_id {
            65001 => text.as_bytes().to_vec(),
            1252 => text.chars().map(|c| c as u32 as u8).collect(),
            _ => text.chars().map(|c| (c as u32 - 0x410 + 0xc0) as u8).collect(),
        };
        let props: Vec<(u32, PVal)> = vec![(1, PVal::I2(*cp_id as u16 as i16)), (2, PVal::Str(b"Installation Database".to_vec())), (4, PVal::Str(enc))];
        let pl = PropLayout { version: 0, os: 2, os_version: 10, section_gap: 0, table_order: vec![0, 1, 2], value_order: vec![0, 1, 2], gaps: vec![0, 0, 0] };
        entries.push(("\u{5}SummaryInformation".to_string(), write_propset(&props, &pl)));
        out.req("load", format!("load {} {}", ci % 3, entries_tok(&entries)));
        out.req("snapshot", "snapshot".into());
        out.req("set_db_cp", format!("set_db_cp {target}"));
        out.req("snapshot", "snapshot".into());
        out.req("insert", format!("insert {} 1 2 I3 S{}", hex_of_str("Plain"), hex_of_str("more ascii")));
        out.req("snapshot", "snapshot".into());
        out.req("reopen", format!("reopen {}", crate::hist::CLOSE_MODES[ci % 3]));
        out.req("snapshot", "snapshot".into());
    }
    let n = if thorough { 10_000 } else { 350 };
    for case in 0..n {
        // code page: every supported id including 0; non-ASCII text only under UTF-8 / id 0
        let cp_id: u32 = match rng.below(4) {
            0 => 0,
            1 => 65001,
            _ => ALL_CP[rng.below(ALL_CP.len() as u64) as usize].1.id() as u32,
        };
        let unicode_ok = cp_id == 0 || cp_id == 65001;
        let long_refs = rng.chance(1, 3);
        let ntab = 1 + rng.below(3) as usize;
        let mut tables: Vec<EncTable> = vec![];
        for ti in 0..ntab {
            let ncols = match rng.below(10) {
                0 => 32,
                1 => 17,
                _ => 1 + rng.below(5) as usize,
            };
            let mut cols = vec![];
            for j in 0..ncols {
                let ct = match rng.below(4) {
                    0 => CT::I16,
                    1 => CT::I32,
                    _ => CT::Str(*rng.pick(&[0usize, 8, 72, 255])),
                };
                let mut c = ColDef::new(&format!("c{j}"), ct);
                c.key = j == 0 || rng.chance(1, 7);
                c.nullable = !c.key && rng.chance(2, 3);
                c.localizable = rng.chance(1, 6);
                cols.push(c);
            }
            if ncols > 1 && rng.chance(1, 3) {
                let k = 1 + rng.below(ncols as u64 - 1) as usize;
                cols.swap(0, k);
            }
            let nrows = rng.below(7) as usize;
            let mut rows = vec![];
            for r in 0..nrows {
                let row: Vec<V> = cols
                    .iter()
                    .map(|c| {
                        if c.nullable && rng.chance(1, 4) {
                            return V::Null;
                        }
                        match c.ct {
                            CT::I16 => V::Int(if c.key { r as i32 * 3 - 5 } else { *rng.pick(&[-32767, 32767, 0, 1, -1, 12]) }),
                            CT::I32 => V::Int(if c.key { r as i32 * 70000 - 100000 } else { *rng.pick(&[i32::MIN + 1, i32::MAX, 0, 65536, -65537]) }),
                            CT::Str(_) => {
                                let base = if c.key { format!("k{r}") } else { rng.pick(&["shared", "x", "two words", "Zed"]).to_string() };
                                if unicode_ok && rng.chance(1, 12) {
                                    // beyond the encoder's 1 KiB chunk, a multi-byte character across a chunk boundary
                                    let pad = 1023usize.saturating_sub(base.len()) + 1024 * rng.below(3) as usize - rng.below(3) as usize;
                                    V::Str(format!("{base}{}\u{e9}{}\u{65e5}\u{672c}tail", "p".repeat(pad), "q".repeat(1021 + rng.below(4) as usize)))
                                } else if unicode_ok && rng.chance(1, 6) {
                                    V::Str(format!("{base}\u{e9}\u{65e5}"))
                                } else if rng.chance(1, if case < 350 { 25 } else { 700 }) {
                                    // beyond 64 KiB: any length, and lengths whose low 16 bits are zero or all ones
                                    // (rarer in the long runs: each one is megabytes of protocol text)
                                    let target = *rng.pick(&[66000usize + base.len(), 65536, 131072, 65535, 65537, 196608]);
                                    V::Str(format!("{base}{}", "L".repeat(target - base.len())))
                                } else {
                                    V::Str(base)
                                }
                            }
                        }
                    })
                    .collect();
                rows.push(row);
            }
            tables.push(EncTable { name: format!("Tab{ti}"), cols, rows });
        }
        let layout = EncLayout {
            long_refs,
            cp_id,
            filler: match rng.below(4) {
                0 => vec![],
                1 => vec![("".into(), 0), ("".into(), 0)],
                2 => vec![("unused text".into(), 0), ("x".into(), 3)],
                _ => vec![("".into(), 0), ("shared".into(), 2), ("".into(), 0)],
            },
            overcount: if rng.chance(1, 4) { 1 + rng.below(3) as u16 } else { 0 },
            duplicate: rng.chance(1, 4),
            with_validation: rng.chance(2, 3),
            reverse_rows: rng.chance(1, 3),
            int16_size: if rng.chance(1, 5) { 1 } else { 2 },
        };
        let mut entries = encode_db(&layout, &tables);
        // summary information by the independent property-set writer
        let sum_cp: u16 = if rng.chance(1, 2) { 65001 } else { *rng.pick(&[1252u16, 0, 932, 20127]) };
        let enc_sum = |s: &str| -> Vec<u8> {
            // 1252 agrees with Latin-1 on U+00A0..U+00FF; everything else generated here is ASCII
            if sum_cp == 65001 || sum_cp == 0 { s.as_bytes().to_vec() } else { s.chars().map(|c| c as u32 as u8).collect() }
        };
        let mut props: Vec<(u32, PVal)> = vec![(1, PVal::I2(sum_cp as i16))];
        for (id, text) in [(2u32, "Installation Database"), (3, "Subject x"), (4, "Ann"), (6, "c"), (18, "tool 1.0"), (7, "x64;1033,1041"), (9, "{34AB5C53-9B30-4E14-AEF0-2C1C7BA826C0}")] {
            if rng.chance(2, 3) {
                // non-ASCII text under UTF-8 and under 1252 (the code page entry may come after the strings it governs)
                let t = if (sum_cp == 65001 || sum_cp == 1252) && rng.chance(1, 4) { format!("{text}\u{e9}") } else { text.to_string() };
                props.push((id, PVal::Str(enc_sum(&t))));
            }
        }
        if rng.chance(1, 2) {
            props.push((15, PVal::I4(*rng.pick(&[0, 2, -1, i32::MAX]))));
        }
        if rng.chance(1, 2) {
            props.push((12, PVal::Time(rng.next())));
        }
        if rng.chance(1, 5) {
            props.push((*rng.pick(&[5u32, 8, 14, 19, 100]), rng.pick(&[PVal::Empty, PVal::Null, PVal::I2(7), PVal::I4(9), PVal::I1(-3)]).clone()));
        }
        let has_i1 = props.iter().any(|p| matches!(p.1, PVal::I1(_)));
        let np = props.len();
        let pl = PropLayout {
            version: if has_i1 { 1 } else { rng.below(2) as u16 },
            os: rng.below(3) as u16,
            os_version: *rng.pick(&[10u16, 0, 6, 0xffff]),
            section_gap: *rng.pick(&[0usize, 0, 4, 16]),
            table_order: shuffled(rng, np),
            value_order: shuffled(rng, np),
            gaps: (0..np).map(|_| if rng.chance(1, 5) { 4 * rng.below(3) as usize } else { 0 }).collect(),
        };
        entries.push(("\u{5}SummaryInformation".to_string(), write_propset(&props, &pl)));
        // a couple of binary streams
        // (names whose packable runs start at odd and at even offsets, after characters that are not packed)
        for sname in ["logo", "Bin.2", "read-me.txt", "My App.exe", "note-2.txt", "x-ray.png", "a b c", "#1 (x86).cab", "ab--cd", "\u{65e5}\u{672c}-ab.c", "a-bcd", "-abcd"] {
            if rng.chance(1, 4) {
                entries.push((pack_name(sname, false), (0..rng.below(300)).map(|i| i as u8).collect()));
            }
        }
        let pt = rng.below(3);
        out.req("load", format!("load {pt} {}", entries_tok(&entries)));
        out.req("snapshot", "snapshot".into());
        if case % 2 == 0 {
            out.req("ffi", "@ffi_check".into());
        }
        // rows of a foreign file keep their file order (here often reversed): a condition on the
        // key picks the rows it is true for, wherever they lie
        for (ti, tb) in tables.iter().enumerate().take(2) {
            let keys: Vec<usize> = tb.cols.iter().enumerate().filter(|(_, c)| c.key).map(|(i, _)| i).collect();
            if keys.len() == 1 && (case + ti) % 2 == 0 {
                let ki = keys[0];
                for row in tb.rows.iter().take(4) {
                    let e = E::Bin("eq", Box::new(E::Col(tb.cols[ki].name.clone())), Box::new(E::Lit(row[ki].clone())));
                    out.req("key_select", format!("select SEL 0 {} T {}", e.to_line(), hex_of_str(&tb.name)));
                    let e2 = E::Bin("eq", Box::new(E::Lit(row[ki].clone())), Box::new(E::Col(tb.cols[ki].name.clone())));
                    out.req("key_select", format!("select SEL 0 {} T {}", e2.to_line(), hex_of_str(&tb.name)));
                }
            }
        }
        if case % 5 == 2 {
            // table creation and removal on a database that may have no `_Validation` table
            // (fix D24): refused with nothing changed / carried out completely
            out.req("create_table", format!("create_table {} {}:i16:K:-:-:-:- {}:s8:N:-:-:-:-", hex_of_str("Made"), hex_of_str("K"), hex_of_str("V")));
            out.req("snapshot", "snapshot".into());
            out.req("drop_table", format!("drop_table {}", hex_of_str("Tab0")));
            out.req("snapshot", "snapshot".into());
            out.req("reopen", format!("reopen {}", rng.pick(&crate::hist::CLOSE_MODES)));
            out.req("snapshot", "snapshot".into());
        }
        // read-only close must not disturb anything; then edits through the API
        if case % 3 == 0 {
            out.req("reopen", format!("reopen {}", rng.pick(&crate::hist::CLOSE_MODES)));
            out.req("snapshot", "snapshot".into());
        }
        let t0 = &tables[0];
        let ki = t0.cols.iter().position(|c| c.key).unwrap_or(0);
        let mut row: Vec<V> = t0
            .cols
            .iter()
            .map(|c| match c.ct {
                CT::I16 => V::Int(1234),
                CT::I32 => V::Int(987654),
                CT::Str(_) => V::Str("added".into()),
            })
            .collect();
        if let CT::Str(_) = t0.cols[ki].ct {
            row[ki] = V::Str("zz_new".into());
        }
        let mut parts = vec!["1".to_string(), row.len().to_string()];
        for v in &row {
            parts.push(v.tok());
        }
        out.req("edit_insert", format!("insert {} {}", hex_of_str(&t0.name), parts.join(" ")));
        out.req("snapshot", "snapshot".into());
        if let Some(c) = t0.cols.iter().find(|c| !c.key) {
            let v = match c.ct {
                CT::Str(_) => V::Str("upd".into()),
                _ => V::Int(7),
            };
            out.req("edit_update", format!("update {} 1 {} {} -", hex_of_str(&t0.name), hex_of_str(&c.name), v.tok()));
            out.req("snapshot", "snapshot".into());
        }
        if rng.chance(1, 2) {
            out.req("edit_delete", format!("delete {} eq C{} {}", hex_of_str(&t0.name), hex_of_str(&t0.cols[ki].name), row[ki].tok()));
            out.req("snapshot", "snapshot".into());
        }
        if rng.chance(1, 3) {
            out.req("edit_stream", format!("stream_write {} 0a0b0c", hex_of_str("added.bin")));
        }
        if rng.chance(1, 3) {
            out.req("edit_summary", format!("sum_set author {}", hex_of_str("Bob")));
        }
        out.req("flush", "flush".into());
        out.req("snapshot", "snapshot".into());
        out.req("raw", "raw".into());
        out.req("reopen", format!("reopen {}", rng.pick(&crate::hist::CLOSE_MODES)));
        out.req("snapshot", "snapshot".into());
    }
}
