//! Interpreter of the request protocol on the REAL crate (built from /repo's working tree).

use crate::expr::*;
use crate::util::*;
use std::fs;
use std::io::{BufRead, BufReader, BufWriter, Write};
use std::panic::{catch_unwind, AssertUnwindSafe};

use std::io::Cursor;
use std::time::{Duration, SystemTime, UNIX_EPOCH};

pub type Pkg = msi::Package<Cursor<Vec<u8>>>;

pub struct Session {
    /// scratch package used by the in-memory summary-information requests
    pub scratch: Option<Pkg>,
}

impl Session {
    pub fn new() -> Session {
        Session { scratch: None }
    }
    pub fn scratch(&mut self) -> &mut Pkg {
        if self.scratch.is_none() {
            self.scratch = Some(
                msi::Package::create(msi::PackageType::Installer, Cursor::new(Vec::new()))
                    .expect("create scratch package"),
            );
        }
        self.scratch.as_mut().unwrap()
    }
}

/// (secs, nanos) with nanos in 0..10^9, relative to the Unix epoch -> SystemTime
pub fn systime_of(secs: i64, nanos: u32) -> Option<SystemTime> {
    if secs >= 0 {
        UNIX_EPOCH.checked_add(Duration::new(secs as u64, nanos))
    } else {
        UNIX_EPOCH
            .checked_sub(Duration::new(secs.unsigned_abs(), 0))?
            .checked_add(Duration::new(0, nanos))
    }
}

pub fn secs_nanos_of(t: SystemTime) -> (i64, u32) {
    match t.duration_since(UNIX_EPOCH) {
        Ok(d) => (d.as_secs() as i64, d.subsec_nanos()),
        Err(e) => {
            let d = e.duration();
            if d.subsec_nanos() == 0 {
                ((d.as_secs() as i128).wrapping_neg() as i64, 0)
            } else {
                ((-(d.as_secs() as i128) - 1) as i64, 1_000_000_000 - d.subsec_nanos())
            }
        }
    }
}

fn guarded<F: FnOnce() -> String>(f: F) -> String {
    match catch_unwind(AssertUnwindSafe(f)) {
        Ok(s) => s,
        Err(_) => "panic".to_string(),
    }
}

pub fn exec_line(sess: &mut Session, line: &str) -> String {
    let toks: Vec<&str> = line.split_ascii_whitespace().collect();
    if toks.is_empty() {
        return String::new();
    }
    guarded(|| match toks[0] {
        "lang_tag" => {
            let code: u16 = toks[1].parse().unwrap();
            hex_of_str(msi::Language::from_code(code).tag())
        }
        "lang_from_tag" => {
            let tag = str_of_hex(toks[1]).unwrap();
            msi::Language::from_tag(&tag).code().to_string()
        }
        "lang_rt" => {
            // tag, code of from_tag(tag), tag of that, code()
            let code: u16 = toks[1].parse().unwrap();
            let lang = msi::Language::from_code(code);
            let tag = lang.tag().to_string();
            let back = msi::Language::from_tag(&tag);
            format!(
                "{} {} {} {}",
                hex_of_str(&tag),
                back.code(),
                hex_of_str(back.tag()),
                lang.code()
            )
        }
        "lang_from_tag_rt" => {
            let tag = str_of_hex(toks[1]).unwrap();
            let lang = msi::Language::from_tag(&tag);
            format!("{} {}", lang.code(), hex_of_str(lang.tag()))
        }
        "eval" => {
            // eval <row> <expr>: build through the public constructors, evaluate on a row
            let (row, n) = parse_row(&toks[1..]).unwrap();
            let (e, _) = E::parse(&toks[1 + n..]).unwrap();
            let cols: Vec<msi::Column> = row
                .iter()
                .map(|(name, v)| match v {
                    V::Str(_) => msi::Column::build(name.as_str()).nullable().string(0),
                    _ => msi::Column::build(name.as_str()).nullable().int32(),
                })
                .collect();
            let vals: Vec<msi::Value> = row.iter().map(|(_, v)| v.to_msi()).collect();
            let r = msi::verif::make_row(cols, vals);
            let x = e.to_msi();
            V::of_msi(&x.eval(&r)).tok()
        }
        "fmt" => {
            let (e, _) = E::parse(&toks[1..]).unwrap();
            hex_of_str(&e.to_msi().to_string())
        }
        "ts_rt" => {
            let secs: i64 = toks[1].parse().unwrap();
            let nanos: u32 = toks[2].parse().unwrap();
            let t = match systime_of(secs, nanos) {
                Some(t) => t,
                None => return "unrepresentable".to_string(),
            };
            let pkg = sess.scratch();
            pkg.summary_info_mut().set_creation_time(t);
            let r = pkg.summary_info().creation_time().unwrap();
            pkg.summary_info_mut().set_creation_time(r);
            let r2 = pkg.summary_info().creation_time().unwrap();
            let (a, b) = secs_nanos_of(r);
            let (c, d) = secs_nanos_of(r2);
            format!("{a} {b} {c} {d}")
        }
        "ts_save" => {
            let secs: i64 = toks[1].parse().unwrap();
            let nanos: u32 = toks[2].parse().unwrap();
            let t = match systime_of(secs, nanos) {
                Some(t) => t,
                None => return "unrepresentable".to_string(),
            };
            let mut pkg =
                msi::Package::create(msi::PackageType::Installer, Cursor::new(Vec::new()))
                    .unwrap();
            pkg.summary_info_mut().set_creation_time(t);
            let cur = pkg.into_inner().unwrap();
            let pkg = msi::Package::open(cur).unwrap();
            let r = pkg.summary_info().creation_time().unwrap();
            let (a, b) = secs_nanos_of(r);
            format!("{a} {b}")
        }
        _ => "bad-request".to_string(),
    })
}

pub fn exec_file(req: &str, out: &str) {
    let f = BufReader::new(fs::File::open(req).expect("open requests"));
    let mut w = BufWriter::new(fs::File::create(out).expect("create replies"));
    let mut sess = Session::new();
    for line in f.lines() {
        let line = line.expect("read line");
        let r = exec_line(&mut sess, &line);
        writeln!(w, "{}", r).unwrap();
    }
    w.flush().unwrap();
}
