//! Interpreter of the request protocol on the REAL crate (built from /repo's working tree).

use crate::util::*;
use std::fs;
use std::io::{BufRead, BufReader, BufWriter, Write};
use std::panic::{catch_unwind, AssertUnwindSafe};

pub struct Session {}

impl Session {
    pub fn new() -> Session {
        Session {}
    }
}

fn guarded<F: FnOnce() -> String>(f: F) -> String {
    match catch_unwind(AssertUnwindSafe(f)) {
        Ok(s) => s,
        Err(_) => "panic".to_string(),
    }
}

pub fn exec_line(sess: &mut Session, line: &str) -> String {
    let toks: Vec<&str> = line.split_ascii_whitespace().collect();
    if toks.is_empty() {
        return String::new();
    }
    let _ = sess;
    guarded(|| match toks[0] {
        "lang_tag" => {
            let code: u16 = toks[1].parse().unwrap();
            hex_of_str(msi::Language::from_code(code).tag())
        }
        "lang_from_tag" => {
            let tag = str_of_hex(toks[1]).unwrap();
            msi::Language::from_tag(&tag).code().to_string()
        }
        "lang_rt" => {
            // tag, code of from_tag(tag), tag of that, code()
            let code: u16 = toks[1].parse().unwrap();
            let lang = msi::Language::from_code(code);
            let tag = lang.tag().to_string();
            let back = msi::Language::from_tag(&tag);
            format!(
                "{} {} {} {}",
                hex_of_str(&tag),
                back.code(),
                hex_of_str(back.tag()),
                lang.code()
            )
        }
        "lang_from_tag_rt" => {
            let tag = str_of_hex(toks[1]).unwrap();
            let lang = msi::Language::from_tag(&tag);
            format!("{} {}", lang.code(), hex_of_str(lang.tag()))
        }
        _ => "bad-request".to_string(),
    })
}

pub fn exec_file(req: &str, out: &str) {
    let f = BufReader::new(fs::File::open(req).expect("open requests"));
    let mut w = BufWriter::new(fs::File::create(out).expect("create replies"));
    let mut sess = Session::new();
    for line in f.lines() {
        let line = line.expect("read line");
        let r = exec_line(&mut sess, &line);
        writeln!(w, "{}", r).unwrap();
    }
    w.flush().unwrap();
}
