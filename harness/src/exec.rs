//! Interpreter of the request protocol on the REAL crate (built from /repo's working tree).

use crate::colfmt::*;
use crate::expr::*;
use crate::util::*;
use std::fs;
use std::io::{BufRead, BufReader, BufWriter, Write};
use std::panic::{catch_unwind, AssertUnwindSafe};

use std::io::Cursor;
use std::time::{Duration, SystemTime, UNIX_EPOCH};

pub type Pkg = msi::Package<Cursor<Vec<u8>>>;

pub struct Session {
    /// scratch package used by the in-memory summary-information requests
    pub scratch: Option<Pkg>,
    /// the package of the current session and its shared medium
    pub pkg: Option<crate::session::Pkg>,
    pub medium: Option<crate::session::Medium>,
    /// the bytes of the medium when the current package was opened (C16)
    pub open_bytes: Vec<u8>,
}

impl Session {
    pub fn new() -> Session {
        Session { scratch: None, pkg: None, medium: None, open_bytes: vec![] }
    }
    pub fn scratch(&mut self) -> &mut Pkg {
        if self.scratch.is_none() {
            self.scratch = Some(
                msi::Package::create(msi::PackageType::Installer, Cursor::new(Vec::new()))
                    .expect("create scratch package"),
            );
        }
        self.scratch.as_mut().unwrap()
    }
}

pub const ALL_CP: &[(&str, msi::CodePage)] = &[
    ("Windows932", msi::CodePage::Windows932), ("Windows936", msi::CodePage::Windows936),
    ("Windows949", msi::CodePage::Windows949), ("Windows950", msi::CodePage::Windows950),
    ("Windows951", msi::CodePage::Windows951), ("Windows1250", msi::CodePage::Windows1250),
    ("Windows1251", msi::CodePage::Windows1251), ("Windows1252", msi::CodePage::Windows1252),
    ("Windows1253", msi::CodePage::Windows1253), ("Windows1254", msi::CodePage::Windows1254),
    ("Windows1255", msi::CodePage::Windows1255), ("Windows1256", msi::CodePage::Windows1256),
    ("Windows1257", msi::CodePage::Windows1257), ("Windows1258", msi::CodePage::Windows1258),
    ("MacintoshRoman", msi::CodePage::MacintoshRoman),
    ("MacintoshCyrillic", msi::CodePage::MacintoshCyrillic), ("UsAscii", msi::CodePage::UsAscii),
    ("Iso88591", msi::CodePage::Iso88591), ("Iso88592", msi::CodePage::Iso88592),
    ("Iso88593", msi::CodePage::Iso88593), ("Iso88594", msi::CodePage::Iso88594),
    ("Iso88595", msi::CodePage::Iso88595), ("Iso88596", msi::CodePage::Iso88596),
    ("Iso88597", msi::CodePage::Iso88597), ("Iso88598", msi::CodePage::Iso88598),
    ("Utf8", msi::CodePage::Utf8),
];

pub fn cp_by_name(name: &str) -> Option<msi::CodePage> {
    ALL_CP.iter().find(|p| p.0 == name).map(|p| p.1)
}

pub fn cp_name(cp: msi::CodePage) -> &'static str {
    ALL_CP.iter().find(|p| p.1 == cp).map(|p| p.0).unwrap_or("?")
}

/// the encoding the documentation name of each code page promises (None: handled without encoding_rs)
pub fn expected_encoding(name: &str) -> Option<&'static encoding_rs::Encoding> {
    use encoding_rs::*;
    Some(match name {
        "Windows932" => SHIFT_JIS,
        "Windows936" => GBK,
        "Windows949" => EUC_KR,
        "Windows950" | "Windows951" => BIG5,
        "Windows1250" => WINDOWS_1250,
        "Windows1251" => WINDOWS_1251,
        "Windows1252" => WINDOWS_1252,
        "Windows1253" => WINDOWS_1253,
        "Windows1254" => WINDOWS_1254,
        "Windows1255" => WINDOWS_1255,
        "Windows1256" => WINDOWS_1256,
        "Windows1257" => WINDOWS_1257,
        "Windows1258" => WINDOWS_1258,
        "MacintoshRoman" => MACINTOSH,
        "MacintoshCyrillic" => X_MAC_CYRILLIC,
        "Iso88591" => WINDOWS_1252,
        "Iso88592" => ISO_8859_2,
        "Iso88593" => ISO_8859_3,
        "Iso88594" => ISO_8859_4,
        "Iso88595" => ISO_8859_5,
        "Iso88596" => ISO_8859_6,
        "Iso88597" => ISO_8859_7,
        "Iso88598" => ISO_8859_8,
        "Utf8" => UTF_8,
        _ => return None,
    })
}

/// per-character code with the dependency used directly: None = unmappable
pub fn expected_char(enc: &'static encoding_rs::Encoding, c: char) -> Option<Vec<u8>> {
    let mut e = enc.new_encoder();
    let mut buf = [0u8; 16];
    let mut s = [0u8; 4];
    let st = c.encode_utf8(&mut s);
    let (res, _, written) = e.encode_from_utf8_without_replacement(st, &mut buf, true);
    match res {
        encoding_rs::EncoderResult::InputEmpty => Some(buf[..written].to_vec()),
        _ => None,
    }
}

/// (secs, nanos) with nanos in 0..10^9, relative to the Unix epoch -> SystemTime
pub fn systime_of(secs: i64, nanos: u32) -> Option<SystemTime> {
    if secs >= 0 {
        UNIX_EPOCH.checked_add(Duration::new(secs as u64, nanos))
    } else {
        UNIX_EPOCH
            .checked_sub(Duration::new(secs.unsigned_abs(), 0))?
            .checked_add(Duration::new(0, nanos))
    }
}

pub fn secs_nanos_of(t: SystemTime) -> (i64, u32) {
    match t.duration_since(UNIX_EPOCH) {
        Ok(d) => (d.as_secs() as i64, d.subsec_nanos()),
        Err(e) => {
            let d = e.duration();
            if d.subsec_nanos() == 0 {
                ((d.as_secs() as i128).wrapping_neg() as i64, 0)
            } else {
                ((-(d.as_secs() as i128) - 1) as i64, 1_000_000_000 - d.subsec_nanos())
            }
        }
    }
}

fn guarded<F: FnOnce() -> String>(f: F) -> String {
    match catch_unwind(AssertUnwindSafe(f)) {
        Ok(s) => s,
        Err(_) => "panic".to_string(),
    }
}

fn parse_cond(toks: &[&str]) -> Option<(Option<E>, usize)> {
    if *toks.first()? == "-" {
        Some((None, 1))
    } else {
        let (e, n) = E::parse(toks)?;
        Some((Some(e), n))
    }
}

/// package-level requests; None = not a session request
fn exec_session(sess: &mut Session, toks: &[&str]) -> Option<String> {
    use crate::session::*;
    use std::io::{Read, Write};
    let cmd = toks[0];
    match cmd {
        "new" => {
            let p: usize = toks[1].parse().unwrap();
            sess.pkg = None;
            let m = crate::session::Medium::new(Vec::new());
            sess.medium = Some(m.clone());
            return Some(match msi::Package::create(ptype_of(p), m) {
                Ok(pkg) => {
                    sess.pkg = Some(pkg);
                    "ok".into()
                }
                Err(e) => format!("err {}", kind_name(&e)),
            });
        }
        "load" => {
            sess.pkg = None;
            let pt = if toks[1] == "none" { None } else { Some(toks[1].parse::<usize>().unwrap()) };
            let entries = parse_entries(toks[2]).unwrap();
            let bytes = match build_container(pt, &entries) {
                Ok(b) => b,
                Err(e) => return Some(format!("build-err {}", kind_name(&e))),
            };
            let m = Medium::new(bytes);
            sess.open_bytes = m.snapshot_bytes();
            sess.medium = Some(m.clone());
            return Some(match msi::Package::open(m) {
                Ok(pkg) => {
                    sess.pkg = Some(pkg);
                    "ok".into()
                }
                Err(e) => format!("err {}", kind_name(&e)),
            });
        }
        "create_table" | "drop_table" | "insert" | "update" | "delete" | "select" | "stream_write"
        | "stream_read" | "stream_remove" | "has_stream" | "streams" | "has_sig" | "remove_sig"
        | "sum_set" | "sum_clear" | "set_db_cp" | "flush" | "reopen" | "snapshot" | "raw" => {}
        _ => return None,
    }
    if sess.pkg.is_none() {
        return Some("no-package".into());
    }
    if cmd == "reopen" {
        let mode = toks[1];
        let pkg = sess.pkg.take().unwrap();
        let medium = sess.medium.clone().unwrap();
        let closed: Result<(), String> = match mode {
            "flush" => {
                let mut pkg = pkg;
                match pkg.flush() {
                    // crash right after a successful flush: the bytes on the medium now,
                    // without running any destructor of the package
                    Ok(()) => {
                        let bytes = medium.snapshot_bytes();
                        std::mem::forget(pkg);
                        sess.medium = Some(Medium::new(bytes));
                        Ok(())
                    }
                    Err(e) => {
                        sess.pkg = Some(pkg);
                        Err(format!("close-err {}", kind_name(&e)))
                    }
                }
            }
            "into_inner" => match pkg.into_inner() {
                Ok(m) => {
                    sess.medium = Some(Medium::new(m.snapshot_bytes()));
                    Ok(())
                }
                Err(e) => Err(format!("close-err {}", kind_name(&e))),
            },
            _ => {
                drop(pkg);
                sess.medium = Some(Medium::new(medium.snapshot_bytes()));
                Ok(())
            }
        };
        if let Err(msg) = closed {
            return Some(msg);
        }
        let m = sess.medium.clone().unwrap();
        sess.open_bytes = m.snapshot_bytes();
        return Some(match msi::Package::open(m) {
            Ok(pkg) => {
                sess.pkg = Some(pkg);
                "ok".into()
            }
            Err(e) => format!("err {}", kind_name(&e)),
        });
    }
    let medium = sess.medium.clone().unwrap();
    let pkg = sess.pkg.as_mut().unwrap();
    Some(match cmd {
        "create_table" => {
            let name = str_of_hex(toks[1]).unwrap();
            let cols: Vec<msi::Column> =
                toks[2..].iter().map(|t| ColDef::parse(t).unwrap().to_msi()).collect();
            res_unit(pkg.create_table(name, cols))
        }
        "drop_table" => res_unit(pkg.drop_table(&str_of_hex(toks[1]).unwrap())),
        "insert" => {
            let t = str_of_hex(toks[1]).unwrap();
            let k: usize = toks[2].parse().unwrap();
            let mut pos = 3;
            let mut q = msi::Insert::into(t);
            for _ in 0..k {
                let n: usize = toks[pos].parse().unwrap();
                let vals: Vec<msi::Value> =
                    toks[pos + 1..pos + 1 + n].iter().map(|v| V::parse(v).unwrap().to_msi()).collect();
                pos += 1 + n;
                q = q.row(vals);
            }
            res_unit(pkg.insert_rows(q))
        }
        "update" => {
            let t = str_of_hex(toks[1]).unwrap();
            let k: usize = toks[2].parse().unwrap();
            let mut q = msi::Update::table(t);
            for i in 0..k {
                q = q.set(str_of_hex(toks[3 + 2 * i]).unwrap(), V::parse(toks[4 + 2 * i]).unwrap().to_msi());
            }
            let (cond, _) = parse_cond(&toks[3 + 2 * k..]).unwrap();
            // (a top-level AND is handed over in two `with()` calls: the restrictions are AND-ed)
            match cond {
                Some(E::Bin("and", a, b)) => q = q.with(a.to_msi()).with(b.to_msi()),
                Some(e) => q = q.with(e.to_msi()),
                None => {}
            }
            res_unit(pkg.update_rows(q))
        }
        "delete" => {
            let mut q = msi::Delete::from(str_of_hex(toks[1]).unwrap());
            let (cond, _) = parse_cond(&toks[2..]).unwrap();
            match cond {
                Some(E::Bin("and", a, b)) => q = q.with(a.to_msi()).with(b.to_msi()),
                Some(e) => q = q.with(e.to_msi()),
                None => {}
            }
            res_unit(pkg.delete_rows(q))
        }
        "select" => {
            let (q, _) = parse_select(&toks[1..]).unwrap();
            match pkg.select_rows(q) {
                Ok(rows) => rows_reply(rows),
                Err(e) => format!("err {}", kind_name(&e)),
            }
        }
        "stream_write" => {
            let name = str_of_hex(toks[1]).unwrap();
            let data = bytes_of_hex(toks[2]).unwrap();
            match pkg.write_stream(&name) {
                Ok(mut w) => {
                    if data.len() % 2 == 0 && data.len() >= 4 {
                        // handed over as a header, a body and a trailer in vectored writes, advancing
                        // by the count each call returns (what `write_all_vectored` does)
                        res_unit(write_vectored_all(&mut w, &data).and_then(|_| w.flush()))
                    } else {
                        res_unit(w.write_all(&data).and_then(|_| w.flush()))
                    }
                }
                Err(e) => format!("err {}", kind_name(&e)),
            }
        }
        "stream_read" => match read_stream_checked(pkg, &str_of_hex(toks[1]).unwrap()) {
            Ok(data) => hex_of_bytes(&data),
            Err(e) => e,
        },
        "stream_remove" => res_unit(pkg.remove_stream(&str_of_hex(toks[1]).unwrap())),
        "has_stream" => (pkg.has_stream(&str_of_hex(toks[1]).unwrap()) as i32).to_string(),
        "streams" => {
            let mut v: Vec<String> = pkg.streams().map(|n| hex_of_str(&n)).collect();
            v.sort();
            v.join(",")
        }
        "has_sig" => (pkg.has_digital_signature() as i32).to_string(),
        "remove_sig" => res_unit(pkg.remove_digital_signature()),
        "sum_set" => {
            let arg = toks[2];
            let si = pkg.summary_info_mut();
            match toks[1] {
                "title" => si.set_title(str_of_hex(arg).unwrap()),
                "subject" => si.set_subject(str_of_hex(arg).unwrap()),
                "author" => si.set_author(str_of_hex(arg).unwrap()),
                "comments" => si.set_comments(str_of_hex(arg).unwrap()),
                "app" => si.set_creating_application(str_of_hex(arg).unwrap()),
                "arch" => si.set_arch(str_of_hex(arg).unwrap()),
                "langs" => {
                    let ls: Vec<msi::Language> = if arg == "-" {
                        vec![]
                    } else {
                        arg.split(',').map(|c| msi::Language::from_code(c.parse().unwrap())).collect()
                    };
                    si.set_languages(&ls)
                }
                "wc" => si.set_word_count(arg.parse().unwrap()),
                "uuid" => si.set_uuid(uuid::Uuid::parse_str(arg).unwrap()),
                "ctime" => {
                    let (a, b) = arg.split_once('.').unwrap();
                    si.set_creation_time(systime_of(a.parse().unwrap(), b.parse().unwrap()).unwrap())
                }
                "cp" => si.set_codepage(cp_by_name(arg).unwrap()),
                _ => return Some("bad-request".into()),
            }
            "ok".into()
        }
        "sum_clear" => {
            let si = pkg.summary_info_mut();
            match toks[1] {
                "title" => si.clear_title(),
                "subject" => si.clear_subject(),
                "author" => si.clear_author(),
                "comments" => si.clear_comments(),
                "app" => si.clear_creating_application(),
                "arch" => si.clear_arch(),
                "langs" => si.clear_languages(),
                "wc" => si.clear_word_count(),
                "uuid" => si.clear_uuid(),
                "ctime" => si.clear_creation_time(),
                _ => return Some("bad-request".into()),
            }
            "ok".into()
        }
        "set_db_cp" => {
            pkg.set_database_codepage(cp_by_name(toks[1]).unwrap());
            "ok".into()
        }
        "flush" => res_unit(pkg.flush()),
        "snapshot" => snapshot(pkg),
        "raw" => raw_tok(&medium.snapshot_bytes()),
        _ => "bad-request".into(),
    })
}

pub fn exec_line(sess: &mut Session, line: &str) -> String {
    let toks: Vec<&str> = line.split_ascii_whitespace().collect();
    if toks.is_empty() {
        return String::new();
    }
    {
        let t = toks.clone();
        let r = catch_unwind(AssertUnwindSafe(|| exec_session(sess, &t)));
        match r {
            Ok(Some(s)) => return s,
            Ok(None) => {}
            Err(_) => return "panic".to_string(),
        }
    }
    guarded(|| match toks[0] {
        "lang_tag" => {
            let code: u16 = toks[1].parse().unwrap();
            hex_of_str(msi::Language::from_code(code).tag())
        }
        "lang_from_tag" => {
            let tag = str_of_hex(toks[1]).unwrap();
            msi::Language::from_tag(&tag).code().to_string()
        }
        "lang_rt" => {
            // tag, code of from_tag(tag), tag of that, code()
            let code: u16 = toks[1].parse().unwrap();
            let lang = msi::Language::from_code(code);
            let tag = lang.tag().to_string();
            let back = msi::Language::from_tag(&tag);
            format!(
                "{} {} {} {}",
                hex_of_str(&tag),
                back.code(),
                hex_of_str(back.tag()),
                lang.code()
            )
        }
        "lang_from_tag_rt" => {
            let tag = str_of_hex(toks[1]).unwrap();
            let lang = msi::Language::from_tag(&tag);
            format!("{} {}", lang.code(), hex_of_str(lang.tag()))
        }
        "eval" => {
            // eval <row> <expr>: build through the public constructors, evaluate on a row
            let (row, n) = parse_row(&toks[1..]).unwrap();
            let (e, _) = E::parse(&toks[1 + n..]).unwrap();
            let cols: Vec<msi::Column> = row
                .iter()
                .map(|(name, v)| match v {
                    V::Str(_) => msi::Column::build(name.as_str()).nullable().string(0),
                    _ => msi::Column::build(name.as_str()).nullable().int32(),
                })
                .collect();
            let vals: Vec<msi::Value> = row.iter().map(|(_, v)| v.to_msi()).collect();
            let r = msi::verif::make_row(cols, vals);
            let x = e.to_msi();
            V::of_msi(&x.eval(&r)).tok()
        }
        "eval2" => {
            // eval2 <row1> <row2> <expr>: ONE expression object, evaluated on one row, then on another
            let (row1, n1) = parse_row(&toks[1..]).unwrap();
            let (row2, n2) = parse_row(&toks[1 + n1..]).unwrap();
            let (e, _) = E::parse(&toks[1 + n1 + n2..]).unwrap();
            let mk = |row: &Vec<(String, V)>| {
                let cols: Vec<msi::Column> = row
                    .iter()
                    .map(|(name, v)| match v {
                        V::Str(_) => msi::Column::build(name.as_str()).nullable().string(0),
                        _ => msi::Column::build(name.as_str()).nullable().int32(),
                    })
                    .collect();
                let vals: Vec<msi::Value> = row.iter().map(|(_, v)| v.to_msi()).collect();
                msi::verif::make_row(cols, vals)
            };
            let (r1, r2) = (mk(&row1), mk(&row2));
            let x = e.to_msi();
            let a = V::of_msi(&x.eval(&r1)).tok();
            let b = V::of_msi(&x.eval(&r2)).tok();
            let c = V::of_msi(&x.eval(&r1)).tok();
            format!("{a} {b} {c}")
        }
        "fmt" => {
            let (e, _) = E::parse(&toks[1..]).unwrap();
            hex_of_str(&e.to_msi().to_string())
        }
        "fmtq" => match toks[1] {
            "select" => {
                let (q, _) = crate::session::parse_select(&toks[2..]).unwrap();
                hex_of_str(&q.to_string())
            }
            "insert" => {
                let t = str_of_hex(toks[2]).unwrap();
                let k: usize = toks[3].parse().unwrap();
                let mut pos = 4;
                let mut q = msi::Insert::into(t);
                for _ in 0..k {
                    let n: usize = toks[pos].parse().unwrap();
                    let vals: Vec<msi::Value> =
                        toks[pos + 1..pos + 1 + n].iter().map(|v| V::parse(v).unwrap().to_msi()).collect();
                    pos += 1 + n;
                    q = q.row(vals);
                }
                hex_of_str(&q.to_string())
            }
            "update" => {
                let t = str_of_hex(toks[2]).unwrap();
                let k: usize = toks[3].parse().unwrap();
                let mut q = msi::Update::table(t);
                for i in 0..k {
                    q = q.set(str_of_hex(toks[4 + 2 * i]).unwrap(), V::parse(toks[5 + 2 * i]).unwrap().to_msi());
                }
                let (cond, _) = parse_cond(&toks[4 + 2 * k..]).unwrap();
                if let Some(e) = cond {
                    q = q.with(e.to_msi());
                }
                hex_of_str(&q.to_string())
            }
            "deletew" => {
                // `with()` once per condition
                let mut q = msi::Delete::from(str_of_hex(toks[2]).unwrap());
                let n: usize = toks[3].parse().unwrap();
                let mut pos = 4;
                for _ in 0..n {
                    let (e, used) = E::parse(&toks[pos..]).unwrap();
                    pos += used;
                    q = q.with(e.to_msi());
                }
                hex_of_str(&q.to_string())
            }
            "updatew" => {
                let t = str_of_hex(toks[2]).unwrap();
                let k: usize = toks[3].parse().unwrap();
                let mut q = msi::Update::table(t);
                for i in 0..k {
                    q = q.set(str_of_hex(toks[4 + 2 * i]).unwrap(), V::parse(toks[5 + 2 * i]).unwrap().to_msi());
                }
                let mut pos = 4 + 2 * k;
                let n: usize = toks[pos].parse().unwrap();
                pos += 1;
                for _ in 0..n {
                    let (e, used) = E::parse(&toks[pos..]).unwrap();
                    pos += used;
                    q = q.with(e.to_msi());
                }
                hex_of_str(&q.to_string())
            }
            _ => {
                let mut q = msi::Delete::from(str_of_hex(toks[2]).unwrap());
                let (cond, _) = parse_cond(&toks[3..]).unwrap();
                if let Some(e) = cond {
                    q = q.with(e.to_msi());
                }
                hex_of_str(&q.to_string())
            }
        },
        "validate" => {
            let cat = cat_by_name(toks[1]).unwrap().1;
            let st = str_of_hex(toks[2]).unwrap();
            (cat.validate(&st) as i32).to_string()
        }
        "is_valid" => {
            let col = ColDef::parse(toks[1]).unwrap().to_msi();
            let v = V::parse(toks[2]).unwrap().to_msi();
            (col.is_valid_value(&v) as i32).to_string()
        }
        "guid_value" => {
            let u = uuid::Uuid::parse_str(toks[1]).unwrap();
            let v = msi::Value::from(u);
            let ok = msi::Category::Guid.validate(v.as_str().unwrap());
            format!("{} {}", V::of_msi(&v).tok(), ok as i32)
        }
        "langs_value" => {
            let langs: Vec<msi::Language> = toks[1]
                .split(',')
                .map(|c| msi::Language::from_code(c.parse().unwrap()))
                .collect();
            // (a single language goes through its own conversion: the same text as a list of one)
            let v = if langs.len() == 1 && toks[1].len() % 2 == 0 { msi::Value::from(langs[0]) } else { msi::Value::from(&langs[..]) };
            let ok = msi::Category::Language.validate(v.as_str().unwrap());
            format!("{} {}", V::of_msi(&v).tok(), ok as i32)
        }
        "sn_encode" => {
            let n = str_of_hex(toks[1]).unwrap();
            hex_of_str(&msi::verif::streamname::encode(&n, toks[2] == "1"))
        }
        "sn_decode" => {
            let n = str_of_hex(toks[1]).unwrap();
            let (d, t) = msi::verif::streamname::decode(&n);
            format!("{} {}", hex_of_str(&d), t as i32)
        }
        "sn_valid" => {
            let n = str_of_hex(toks[1]).unwrap();
            (msi::verif::streamname::is_valid(&n, toks[2] == "1") as i32).to_string()
        }
        "cp_id" => match cp_by_name(toks[1]) {
            Some(cp) => cp.id().to_string(),
            None => "bad-request".to_string(),
        },
        "cp_from_id" => {
            let n: i32 = toks[1].parse().unwrap();
            match msi::CodePage::from_id(n) {
                Some(cp) => cp_name(cp).to_string(),
                None => "none".to_string(),
            }
        }
        "cp_encode" => {
            let cp = cp_by_name(toks[1]).unwrap();
            hex_of_bytes(&cp.encode(&str_of_hex(toks[2]).unwrap()))
        }
        "cp_decode" => {
            let cp = cp_by_name(toks[1]).unwrap();
            hex_of_str(&cp.decode(&bytes_of_hex(toks[2]).unwrap()))
        }
        "enc_loop" => {
            // enc_loop <cp> <string> <per-char codes> : the real whole-string encoding
            let cp = cp_by_name(toks[1]).unwrap();
            hex_of_bytes(&cp.encode(&str_of_hex(toks[2]).unwrap()))
        }
        "@open_bytes" => {
            // arbitrary bytes into Package::open, then the read API on whatever opens
            let bytes = bytes_of_hex(toks[1]).unwrap();
            sess.pkg = None;
            sess.medium = Some(crate::session::Medium::new(bytes.clone()));
            match msi::Package::open(crate::session::Medium::new(bytes)) {
                Ok(mut pkg) => {
                    let _ = crate::session::snapshot(&mut pkg);
                    "opened".to_string()
                }
                Err(e) => format!("err {}", crate::session::kind_name(&e)),
            }
        }
        "@fault_sweep" => crate::faults::sweep(toks[1].parse().unwrap(), toks[2], toks[3]),
        "oracle_only_session" => "ok".to_string(),
        "@readonly_file_mutation" => match catch_unwind(AssertUnwindSafe(|| readonly_file_mutation(toks[1].parse().unwrap()))) {
            Ok(r) => r,
            Err(_) => "panic".to_string(),
        },
        "@ctime_now" => {
            // `set_creation_time_to_now` stores the moment of the call: between a clock reading taken
            // before and one taken after (down to the format's 100 ns)
            let m = crate::session::Medium::new(Vec::new());
            match msi::Package::create(msi::PackageType::Installer, m) {
                Ok(mut p) => {
                    let mut bad = vec![];
                    for _ in 0..4 {
                        let before = SystemTime::now();
                        p.summary_info_mut().set_creation_time_to_now();
                        let after = SystemTime::now();
                        match p.summary_info().creation_time() {
                            Some(t) if t + Duration::from_nanos(100) > before && t <= after => {}
                            other => bad.push(format!("stored={:?}_before={:?}_after={:?}", other, before, after)),
                        }
                        std::thread::sleep(Duration::from_millis(3));
                    }
                    if bad.is_empty() { "ok".to_string() } else { format!("drift:{}", bad[0].replace(' ', "")) }
                }
                Err(e) => format!("err {}", crate::session::kind_name(&e)),
            }
        }
        "@file_edit" => match catch_unwind(AssertUnwindSafe(|| file_edit(toks[1].parse().unwrap()))) {
            Ok(r) => r,
            Err(_) => "panic".to_string(),
        },
        "@ffi_check" => {
            // the C interface on the bytes of the medium as they are now: it must not abort, and
            // must report what the Rust API reports
            let m = match &sess.medium {
                Some(m) => m.clone(),
                None => return "no-package".to_string(),
            };
            let path = std::env::temp_dir().join(format!("msi_verif_ffi_{}.msi", std::process::id()));
            if std::fs::write(&path, m.snapshot_bytes()).is_err() {
                return "io-error".to_string();
            }
            let p = path.to_string_lossy().to_string();
            let child = std::process::Command::new(std::env::current_exe().unwrap()).arg("ffi").arg(&p).output();
            let exp = std::panic::catch_unwind(|| crate::ffi::expected(&p)).unwrap_or(None).unwrap_or_else(|| {
                let e = hex_of_str("");
                let mut d: Vec<String> = vec![format!("arch {e}"), format!("author {e}"), format!("comments {e}"), format!("app {e}"), "time-set false".into(), "languages ".into(), format!("subject {e}"), format!("title {e}"), format!("uuid {e}"), "words 0".into(), "sig false".into(), "tables ".into()];
                d.push(format!("table {} ", hex_of_str("No such table")));
                d
            });
            let _ = std::fs::remove_file(&path);
            match child {
                Ok(o) if o.status.success() => {
                    let got: Vec<String> = String::from_utf8_lossy(&o.stdout).lines().map(|l| l.to_string()).collect();
                    if got == exp {
                        format!("ok lines={}", got.len())
                    } else {
                        let k = got.iter().zip(exp.iter()).position(|(a, b)| a != b).unwrap_or(got.len().min(exp.len()));
                        format!("mismatch at {k}: C interface `{}` API `{}`", got.get(k).map(|s| &s[..s.len().min(120)]).unwrap_or("-"), exp.get(k).map(|s| &s[..s.len().min(120)]).unwrap_or("-"))
                    }
                }
                Ok(o) => format!("abort {:?}", o.status),
                Err(_) => "spawn-error".to_string(),
            }
        }
        "@readonly_close" => {
            // close the current package (which was only read since it was opened) and report
            // how many writes reached the medium since the open and whether its bytes changed
            let pkg = match sess.pkg.take() {
                Some(p) => p,
                None => return "no-package".to_string(),
            };
            let medium = sess.medium.clone().unwrap();
            let mut pkg = pkg;
            // "ff:<mode>": the caller first calls flush() and the medium's own flush fails (a
            // transient error); the session is still one that only read
            let mode = match toks[1].strip_prefix("ff:") {
                Some(m) => {
                    let at = medium.stats.borrow().flushes;
                    medium.stats.borrow_mut().fail_flush_at = Some(at);
                    let _ = pkg.flush();
                    medium.stats.borrow_mut().fail_flush_at = None;
                    m
                }
                None => toks[1],
            };
            let res = match mode {
                "flush" => {
                    let mut pkg = pkg;
                    let r = pkg.flush();
                    drop(pkg);
                    crate::session::res_unit(r)
                }
                "into_inner" => match pkg.into_inner() {
                    Ok(_) => "ok".to_string(),
                    Err(e) => format!("err {}", crate::session::kind_name(&e)),
                },
                _ => {
                    drop(pkg);
                    "ok".to_string()
                }
            };
            let st = medium.stats.borrow().clone();
            // the same read-only session through the path-based entry points (`msi::open`,
            // `msi::open_rw`) on a file holding the bytes the package was opened from
            let file_same = {
                let path = std::env::temp_dir().join(format!("msi_verif_ro_{}.msi", std::process::id()));
                let mut same = true;
                for rw in [false, true] {
                    if std::fs::write(&path, &sess.open_bytes).is_err() {
                        same = false;
                        break;
                    }
                    let opened = if rw { msi::open_rw(&path) } else { msi::open(&path) };
                    if let Ok(mut p) = opened {
                        let names: Vec<String> = p.tables().map(|t| t.name().to_string()).collect();
                        for n in names {
                            if let Ok(rows) = p.select_rows(msi::Select::table(n.as_str())) {
                                let _ = rows.count();
                            }
                        }
                        let _ = p.summary_info().author().map(|s| s.len());
                        match mode {
                            "flush" if rw => {
                                let _ = p.flush();
                                drop(p);
                            }
                            "into_inner" => {
                                let _ = p.into_inner();
                            }
                            _ => drop(p),
                        }
                    }
                    if std::fs::read(&path).map(|b| b != sess.open_bytes).unwrap_or(true) {
                        same = false;
                    }
                }
                let _ = std::fs::remove_file(&path);
                same
            };
            format!("{res} writes={} same={} file-same={}", st.writes, (medium.snapshot_bytes() == sess.open_bytes) as i32, file_same as i32)
        }
        "@summary_raw" => {
            // the raw bytes of the summary stream on the medium right now (cfb only)
            let m = match &sess.medium {
                Some(m) => m.clone(),
                None => return "no-package".to_string(),
            };
            match crate::session::raw_streams(&m.snapshot_bytes()) {
                Ok(list) => match list.iter().find(|(n, _)| n == "\u{5}SummaryInformation") {
                    Some((_, d)) => hex_of_bytes(d),
                    None => "missing".to_string(),
                },
                Err(e) => format!("raw-err {}", crate::session::kind_name(&e)),
            }
        }
        "@rows_limit" => {
            // batches of fresh rows into one table: result of each insert, the row count the
            // API reports, the count after reopening, then delete some rows and refill
            let batches: Vec<usize> = toks[1..].iter().map(|t| t.parse().unwrap()).collect();
            let medium = crate::session::Medium::new(Vec::new());
            let mut pkg = msi::Package::create(msi::PackageType::Installer, medium.clone()).unwrap();
            pkg.create_table("R", vec![msi::Column::build("K").primary_key().int32()]).unwrap();
            let mut out: Vec<String> = vec![];
            let mut next: i32 = -40000;
            let mut accepted: usize = 0;
            let count = |pkg: &mut crate::session::Pkg| -> String {
                match pkg.select_rows(msi::Select::table("R")) {
                    Ok(rows) => rows.len().to_string(),
                    Err(e) => format!("ERR:{}", crate::session::kind_name(&e)),
                }
            };
            for b in &batches {
                let rows: Vec<Vec<msi::Value>> = (0..*b).map(|i| vec![msi::Value::Int(next + i as i32)]).collect();
                next += *b as i32;
                match pkg.insert_rows(msi::Insert::into("R").rows(rows)) {
                    Ok(()) => {
                        accepted += b;
                        out.push("ok".into());
                    }
                    Err(e) => out.push(format!("err:{}", crate::session::kind_name(&e))),
                }
            }
            out.push(format!("accepted={accepted} count={}", count(&mut pkg)));
            match pkg.into_inner() {
                Ok(m) => match msi::Package::open(crate::session::Medium::new(m.snapshot_bytes())) {
                    Ok(mut p2) => {
                        out.push(format!("reopen-count={}", count(&mut p2)));
                        // free capacity and refill up to the limit again
                        let r = p2.delete_rows(msi::Delete::from("R").with(msi::Expr::col("K").lt(msi::Expr::integer(-39990))));
                        out.push(format!("delete:{}", if r.is_ok() { "ok" } else { "err" }));
                        let rows: Vec<Vec<msi::Value>> = (0..10).map(|i| vec![msi::Value::Int(100000 + i)]).collect();
                        let r = p2.insert_rows(msi::Insert::into("R").rows(rows));
                        out.push(format!("refill:{}", if r.is_ok() { "ok" } else { "err" }));
                        out.push(format!("count={}", count(&mut p2)));
                    }
                    Err(e) => out.push(format!("reopen-err:{}", crate::session::kind_name(&e))),
                },
                Err(e) => out.push(format!("close-err:{}", crate::session::kind_name(&e))),
            }
            out.join(" ")
        }
        "@catalog_limit" => {
            // fill `_Columns` / `_Validation` (one row per column of every table) to within fewer
            // rows of the limit than a table of `per` columns needs, then: a create_table one
            // column too big, one that fits exactly, a one-column table, a drop and another table
            let per: usize = toks[1].parse().unwrap();
            let cols = |n: usize| -> Vec<msi::Column> {
                (0..n).map(|i| {
                    let name = format!("C{:02}", i + 1);
                    if i == 0 { msi::Column::build(name).primary_key().int32() } else { msi::Column::build(name).nullable().int16() }
                }).collect()
            };
            let count = |pkg: &mut crate::session::Pkg, t: &str| -> i64 {
                match pkg.select_rows(msi::Select::table(t)) { Ok(r) => r.len() as i64, Err(_) => -1 }
            };
            let names = |pkg: &crate::session::Pkg| -> Vec<String> {
                let mut v: Vec<String> = pkg.tables().map(|t| t.name().to_string()).collect();
                v.sort();
                v
            };
            let reopen = |pkg: crate::session::Pkg| -> Result<crate::session::Pkg, String> {
                let m = pkg.into_inner().map_err(|e| format!("close-err:{}", crate::session::kind_name(&e)))?;
                msi::Package::open(crate::session::Medium::new(m.snapshot_bytes())).map_err(|e| format!("reopen-err:{}", crate::session::kind_name(&e)))
            };
            let mut out: Vec<String> = vec![];
            let run = |out: &mut Vec<String>| -> Result<(), String> {
                let medium = crate::session::Medium::new(Vec::new());
                let mut pkg = msi::Package::create(msi::PackageType::Installer, medium).map_err(|_| "create-err".to_string())?;
                pkg.create_table("T0000", cols(per)).map_err(|_| "pattern-err".to_string())?;
                let pat = |pkg: &mut crate::session::Pkg, cat: &str| -> Vec<Vec<msi::Value>> {
                    pkg.select_rows(msi::Select::table(cat).with(msi::Expr::col("Table").eq(msi::Expr::string("T0000"))))
                        .unwrap().map(|row| (0..row.len()).map(|i| row[i].clone()).collect()).collect()
                };
                let pc = pat(&mut pkg, "_Columns");
                let pv = pat(&mut pkg, "_Validation");
                let sofar = count(&mut pkg, "_Columns") as usize;
                // leave room for fewer than `per` rows (at least one)
                let bulk = (65536 - sofar - 1) / per;
                let (mut tr, mut cr, mut vr) = (vec![], vec![], vec![]);
                for n in 1..=bulk {
                    let name = format!("T{:04}", n);
                    tr.push(vec![msi::Value::Str(name.clone())]);
                    for r in &pc { let mut r = r.clone(); r[0] = msi::Value::Str(name.clone()); cr.push(r); }
                    for r in &pv { let mut r = r.clone(); r[0] = msi::Value::Str(name.clone()); vr.push(r); }
                }
                pkg.insert_rows(msi::Insert::into("_Tables").rows(tr)).map_err(|_| "fill-err".to_string())?;
                pkg.insert_rows(msi::Insert::into("_Columns").rows(cr)).map_err(|_| "fill-err".to_string())?;
                pkg.insert_rows(msi::Insert::into("_Validation").rows(vr)).map_err(|_| "fill-err".to_string())?;
                let mut pkg = reopen(pkg)?;
                let room = 65536 - count(&mut pkg, "_Columns") as usize;
                out.push(format!("room={room}"));
                let before = (names(&pkg), count(&mut pkg, "_Tables"), count(&mut pkg, "_Columns"), count(&mut pkg, "_Validation"));
                // one column too many
                let r = pkg.create_table("Over", cols(room + 1));
                out.push(format!("over:{}", if r.is_ok() { "ok" } else { "err" }));
                let after = (names(&pkg), count(&mut pkg, "_Tables"), count(&mut pkg, "_Columns"), count(&mut pkg, "_Validation"));
                out.push(format!("over-unchanged={}", before == after));
                let mut pkg = reopen(pkg)?;
                let after2 = (names(&pkg), count(&mut pkg, "_Tables"), count(&mut pkg, "_Columns"), count(&mut pkg, "_Validation"));
                out.push(format!("over-reopen-unchanged={}", before == after2));
                // exactly as many columns as there is room for
                let r = pkg.create_table("Exact", cols(room));
                out.push(format!("exact:{}", if r.is_ok() { "ok" } else { "err" }));
                let mut pkg = reopen(pkg)?;
                out.push(format!("exact-listed={} columns={}", pkg.has_table("Exact"), count(&mut pkg, "_Columns")));
                // no room at all now
                let before = (names(&pkg), count(&mut pkg, "_Tables"), count(&mut pkg, "_Columns"), count(&mut pkg, "_Validation"));
                let r = pkg.create_table("Tiny", cols(1));
                out.push(format!("tiny:{}", if r.is_ok() { "ok" } else { "err" }));
                let after = (names(&pkg), count(&mut pkg, "_Tables"), count(&mut pkg, "_Columns"), count(&mut pkg, "_Validation"));
                out.push(format!("tiny-unchanged={}", before == after));
                // dropping a table frees room again
                let r = pkg.drop_table("Exact");
                out.push(format!("drop:{}", if r.is_ok() { "ok" } else { "err" }));
                let r = pkg.create_table("Again", cols(room));
                out.push(format!("again:{}", if r.is_ok() { "ok" } else { "err" }));
                let mut pkg = reopen(pkg)?;
                out.push(format!("again-listed={} columns={}", pkg.has_table("Again"), count(&mut pkg, "_Columns")));
                Ok(())
            };
            let res = std::panic::catch_unwind(std::panic::AssertUnwindSafe(|| {
                let mut o: Vec<String> = vec![];
                let r = run(&mut o);
                (o, r)
            }));
            match res {
                Ok((o, r)) => {
                    out.extend(o);
                    if let Err(e) = r { out.push(e); }
                }
                Err(_) => out.push("panic".into()),
            }
            out.join(" ")
        }
        "@two_full_tables" => {
            // the row limit and the 16-bit reference count of one pool entry meet: two tables of
            // 65,536 rows whose every row holds the same text (the second filled in two batches,
            // with a reopen in between); then a third table and a new text still fit
            let res = std::panic::catch_unwind(std::panic::AssertUnwindSafe(|| -> Vec<String> {
                let mut out: Vec<String> = vec![];
                let medium = crate::session::Medium::new(Vec::new());
                let mut pkg = msi::Package::create(msi::PackageType::Installer, medium.clone()).unwrap();
                let cols = || vec![msi::Column::build("K").primary_key().int32(), msi::Column::build("S").nullable().string(16)];
                let rows = |from: i32, n: i32| -> Vec<Vec<msi::Value>> { (from..from + n).map(|i| vec![msi::Value::Int(i), msi::Value::Str("Installed".into())]).collect() };
                pkg.create_table("First", cols()).unwrap();
                out.push(format!("first:{}", crate::session::res_unit(pkg.insert_rows(msi::Insert::into("First").rows(rows(0, 65536)))).replace(' ', "_")));
                pkg.create_table("Second", cols()).unwrap();
                out.push(format!("second-a:{}", crate::session::res_unit(pkg.insert_rows(msi::Insert::into("Second").rows(rows(0, 40000)))).replace(' ', "_")));
                let bytes = pkg.into_inner().map(|m| m.snapshot_bytes());
                let mut pkg = match bytes.and_then(|b| msi::Package::open(crate::session::Medium::new(b))) {
                    Ok(p) => p,
                    Err(e) => {
                        out.push(format!("reopen-err:{}", crate::session::kind_name(&e)));
                        return out;
                    }
                };
                out.push(format!("second-b:{}", crate::session::res_unit(pkg.insert_rows(msi::Insert::into("Second").rows(rows(40000, 25536)))).replace(' ', "_")));
                pkg.create_table("Third", cols()).unwrap();
                out.push(format!("third:{}", crate::session::res_unit(pkg.insert_rows(msi::Insert::into("Third").row(vec![msi::Value::Int(1), msi::Value::Str("a new text".into())]))).replace(' ', "_")));
                let count = |pkg: &mut crate::session::Pkg, t: &str| -> String {
                    match pkg.select_rows(msi::Select::table(t)) {
                        Ok(rows) => rows.filter(|r| r[1] == msi::Value::Str("Installed".into())).count().to_string(),
                        Err(e) => format!("ERR:{}", crate::session::kind_name(&e)),
                    }
                };
                out.push(format!("counts={},{}", count(&mut pkg, "First"), count(&mut pkg, "Second")));
                out
            }));
            match res {
                Ok(o) => o.join(" "),
                Err(_) => "panic".to_string(),
            }
        }
        "@catalog_hand_limit" => {
            // `_Validation` (or `_Columns`) brought to within `room` rows of the limit by ordinary
            // inserts of rows that describe no table; then a create_table that needs one row more
            // (refused, nothing changed), one that fits exactly (accepted)
            let which = toks[1];
            let room: usize = toks[2].parse().unwrap();
            let cols = |n: usize| -> Vec<msi::Column> {
                (0..n).map(|i| {
                    let name = format!("C{:02}", i + 1);
                    if i == 0 { msi::Column::build(name).primary_key().int32() } else { msi::Column::build(name).nullable().int16() }
                }).collect()
            };
            let count = |pkg: &mut crate::session::Pkg, t: &str| -> i64 {
                match pkg.select_rows(msi::Select::table(t)) { Ok(r) => r.len() as i64, Err(_) => -1 }
            };
            let names = |pkg: &crate::session::Pkg| -> Vec<String> {
                let mut v: Vec<String> = pkg.tables().map(|t| t.name().to_string()).collect();
                v.sort();
                v
            };
            let res = std::panic::catch_unwind(std::panic::AssertUnwindSafe(|| -> Vec<String> {
                let mut out: Vec<String> = vec![];
                let medium = crate::session::Medium::new(Vec::new());
                let mut pkg = msi::Package::create(msi::PackageType::Installer, medium.clone()).unwrap();
                let have = count(&mut pkg, which) as usize;
                let fill = 65536 - have - room;
                let rows: Vec<Vec<msi::Value>> = (0..fill).map(|i| {
                    if which == "_Validation" {
                        let mut r = vec![msi::Value::Str(format!("Ghost{}", i / 30)), msi::Value::Str(format!("C{}", i % 30)), msi::Value::Str("N".into())];
                        r.extend((0..7).map(|_| msi::Value::Null));
                        r
                    } else {
                        vec![msi::Value::Str(format!("Ghost{}", i / 30)), msi::Value::Int((i % 30) as i32 + 1), msi::Value::Str(format!("C{}", i % 30)), msi::Value::Int(9474)]
                    }
                }).collect();
                out.push(format!("fill:{}", crate::session::res_unit(pkg.insert_rows(msi::Insert::into(which).rows(rows))).replace(' ', "_")));
                let before = (names(&pkg), count(&mut pkg, "_Tables"), count(&mut pkg, "_Columns"), count(&mut pkg, "_Validation"));
                let r = pkg.create_table("Extra", cols(room + 1));
                out.push(format!("hand-over:{}", if r.is_ok() { "ok" } else { "err" }));
                let after = (names(&pkg), count(&mut pkg, "_Tables"), count(&mut pkg, "_Columns"), count(&mut pkg, "_Validation"));
                out.push(format!("hand-over-unchanged={}", before == after));
                let r = pkg.create_table("Fits", cols(room));
                out.push(format!("hand-exact:{}", if r.is_ok() { "ok" } else { "err" }));
                out.push(format!("hand-exact-listed={}", pkg.has_table("Fits") && !pkg.has_table("Extra")));
                out.push(format!("flush:{}", crate::session::res_unit(pkg.flush()).replace(' ', "_")));
                out
            }));
            match res {
                Ok(o) => o.join(" "),
                Err(_) => "panic".to_string(),
            }
        }
        "@refcount_saturation" => {
            // `n` cells hold one text; then a table and a column of that very name are created
            // (their catalog rows refer to the same text): around n = 65,533 the 16-bit reference
            // count of the pool entry fills up and a second entry with the same text begins.
            // Reported: schema of the new table before and after save and reopen, rows readable.
            let n: usize = toks[1].parse().unwrap();
            let medium = crate::session::Medium::new(Vec::new());
            let mut pkg = msi::Package::create(msi::PackageType::Installer, medium.clone()).unwrap();
            pkg.create_table("Fill", vec![msi::Column::build("K").primary_key().int32(), msi::Column::build("S").nullable().string(0)]).unwrap();
            let rows: Vec<Vec<msi::Value>> = (0..n).map(|i| vec![msi::Value::Int(i as i32 + 1), msi::Value::Str("Marker".into())]).collect();
            let mut out: Vec<String> = vec![];
            if n > 0 {
                out.push(crate::session::res_unit(pkg.insert_rows(msi::Insert::into("Fill").rows(rows))));
            }
            let r = pkg.create_table(
                "Marker",
                vec![
                    msi::Column::build("Marker").primary_key().category(msi::Category::Identifier).string(32),
                    msi::Column::build("Other").nullable().range(1, 9).int16(),
                ],
            );
            out.push(format!("create:{}", crate::session::res_unit(r).replace(' ', "_")));
            let _ = pkg.insert_rows(msi::Insert::into("Marker").row(vec![msi::Value::Str("Marker".into()), msi::Value::Int(3)]));
            let describe = |pkg: &mut crate::session::Pkg| -> String {
                let cols = match pkg.get_table("Marker") {
                    Some(t) => crate::session::cols_tok(t.columns()),
                    None => "absent".to_string(),
                };
                let rows = match pkg.select_rows(msi::Select::table("Marker")) {
                    Ok(rows) => rows.len().to_string(),
                    Err(e) => format!("ERR:{}", crate::session::kind_name(&e)),
                };
                let fill = match pkg.select_rows(msi::Select::table("Fill")) {
                    Ok(rows) => {
                        let total = rows.len();
                        let good = rows.filter(|r| r[1] == msi::Value::Str("Marker".into())).count();
                        format!("{good}/{total}")
                    }
                    Err(e) => format!("ERR:{}", crate::session::kind_name(&e)),
                };
                format!("cols={cols} rows={rows} fill={fill}")
            };
            let before = describe(&mut pkg);
            match pkg.flush() {
                Ok(()) => {
                    std::mem::forget(pkg);
                    match msi::Package::open(crate::session::Medium::new(medium.snapshot_bytes())) {
                        Ok(mut p2) => {
                            let after = describe(&mut p2);
                            out.push(format!("same={}", (before == after) as i32));
                            if before != after {
                                out.push(format!("before[{}]", before.replace(' ', "_")));
                                out.push(format!("after[{}]", after.replace(' ', "_")));
                            }
                            out.push(format!("fill={}", after.rsplit("fill=").next().unwrap_or("")));
                        }
                        Err(e) => out.push(format!("reopen-err:{}", crate::session::kind_name(&e))),
                    }
                }
                Err(e) => out.push(format!("flush-err:{}", crate::session::kind_name(&e))),
            }
            out.join(" ")
        }
        "@pool_limit" => {
            // a foreign database whose string pool holds `n` entries (two-byte references),
            // then inserts of fresh strings until past the capacity
            let n: usize = toks[1].parse().unwrap();
            use crate::decode::*;
            let mut k = ColDef::new("K", CT::I16);
            k.key = true;
            let mut v = ColDef::new("V", CT::Str(0));
            v.nullable = true;
            let tables = vec![EncTable { name: "T".into(), cols: vec![k, v], rows: vec![] }];
            let mut layout = EncLayout {
                long_refs: false, cp_id: 65001, filler: vec![], overcount: 0, duplicate: false,
                with_validation: false, reverse_rows: false, int16_size: 2,
            };
            let base = decode(&encode_db(&layout, &tables)).unwrap().pool.len();
            layout.filler = (0..n.saturating_sub(base)).map(|i| (format!("f{i}"), 1u16)).collect();
            let mut entries = encode_db(&layout, &tables);
            // a minimal summary stream: written by the library for a fresh package
            let fresh = msi::Package::create(msi::PackageType::Installer, std::io::Cursor::new(Vec::new())).unwrap();
            let bytes = fresh.into_inner().unwrap().into_inner();
            let sum = crate::session::raw_streams(&bytes).unwrap().into_iter().find(|(n, _)| n.starts_with('\u{5}')).unwrap();
            entries.push(sum);
            let file = crate::session::build_container(Some(0), &entries).unwrap();
            let medium = crate::session::Medium::new(file);
            let mut out: Vec<String> = vec![];
            match msi::Package::open(medium.clone()) {
                Err(e) => out.push(format!("open-err {}", crate::session::kind_name(&e))),
                Ok(mut pkg) => {
                    out.push("open".into());
                    for i in 0..3 {
                        let q = msi::Insert::into("T").row(vec![msi::Value::Int(i + 1), msi::Value::Str(format!("fresh{i}"))]);
                        let r = catch_unwind(AssertUnwindSafe(|| pkg.insert_rows(q)));
                        match r {
                            Ok(Ok(())) => out.push("ok".into()),
                            Ok(Err(e)) => out.push(format!("err:{}", crate::session::kind_name(&e))),
                            Err(_) => {
                                out.push("panic".into());
                                break;
                            }
                        }
                    }
                    let r = catch_unwind(AssertUnwindSafe(|| pkg.flush()));
                    match r {
                        Ok(Ok(())) => {
                            std::mem::forget(pkg);
                            match msi::Package::open(crate::session::Medium::new(medium.snapshot_bytes())) {
                                Ok(mut p2) => match p2.select_rows(msi::Select::table("T")) {
                                    Ok(rows) => out.push(format!("reopen-rows={}", rows.len())),
                                    Err(e) => out.push(format!("reopen-select-err:{}", crate::session::kind_name(&e))),
                                },
                                Err(e) => out.push(format!("reopen-err:{}", crate::session::kind_name(&e))),
                            }
                        }
                        Ok(Err(e)) => {
                            out.push(format!("flush-err:{}", crate::session::kind_name(&e)));
                            std::mem::forget(pkg);
                        }
                        Err(_) => out.push("flush-panic".into()),
                    }
                }
            }
            out.join(" ")
        }
        "@cp_sweep" => {
            // complete enumeration of all scalar values for one code page, in-process
            let name = toks[1];
            let cp = cp_by_name(name).unwrap();
            let exp = expected_encoding(name);
            let mut lossy: Vec<String> = vec![];
            let mut wiring: Vec<String> = vec![];
            let mut mapped = 0u32;
            let mut replaced = 0u32;
            let mut buf = [0u8; 4];
            for u in 0..=0x10FFFFu32 {
                let c = match char::from_u32(u) {
                    Some(c) => c,
                    None => continue,
                };
                let st = c.encode_utf8(&mut buf);
                let enc = cp.encode(st);
                if enc == b"?" && c != '?' {
                    replaced += 1;
                } else {
                    mapped += 1;
                    let back = cp.decode(&enc);
                    if back != *st && lossy.len() < 64 {
                        lossy.push(format!("{:04X}", u));
                    }
                }
                if let Some(e) = exp {
                    let want = expected_char(e, c).unwrap_or_else(|| vec![b'?']);
                    if want != enc && wiring.len() < 8 {
                        wiring.push(format!("{:04X}", u));
                    }
                }
            }
            format!(
                "mapped={mapped} replaced={replaced} lossy=[{}] wiring=[{}]",
                lossy.join(","),
                wiring.join(",")
            )
        }
        "@cp_decode_sweep" => {
            // every 1- and 2-byte sequence decodes without panicking
            let cp = cp_by_name(toks[1]).unwrap();
            let mut n = 0u32;
            for a in 0..=255u8 {
                let _ = cp.decode(&[a]);
                n += 1;
                for b in 0..=255u8 {
                    let _ = cp.decode(&[a, b]);
                    n += 1;
                }
            }
            format!("decoded={n}")
        }
        "ts_rt" => {
            let secs: i64 = toks[1].parse().unwrap();
            let nanos: u32 = toks[2].parse().unwrap();
            let t = match systime_of(secs, nanos) {
                Some(t) => t,
                None => return "unrepresentable".to_string(),
            };
            let pkg = sess.scratch();
            pkg.summary_info_mut().set_creation_time(t);
            let r = pkg.summary_info().creation_time().unwrap();
            pkg.summary_info_mut().set_creation_time(r);
            let r2 = pkg.summary_info().creation_time().unwrap();
            let (a, b) = secs_nanos_of(r);
            let (c, d) = secs_nanos_of(r2);
            format!("{a} {b} {c} {d}")
        }
        "ts_save" => {
            let secs: i64 = toks[1].parse().unwrap();
            let nanos: u32 = toks[2].parse().unwrap();
            let t = match systime_of(secs, nanos) {
                Some(t) => t,
                None => return "unrepresentable".to_string(),
            };
            let mut pkg =
                msi::Package::create(msi::PackageType::Installer, Cursor::new(Vec::new()))
                    .unwrap();
            if toks.len() >= 5 {
                // text in the string properties stored before the creation time, under a code page
                let text = str_of_hex(toks[4]).unwrap();
                pkg.summary_info_mut().set_codepage(cp_by_name(toks[3]).unwrap());
                pkg.summary_info_mut().set_author(text.clone());
                let subject = if toks.len() >= 6 { str_of_hex(toks[5]).unwrap() } else { text };
                pkg.summary_info_mut().set_subject(subject);
            }
            pkg.summary_info_mut().set_creation_time(t);
            let cur = pkg.into_inner().unwrap();
            let pkg = msi::Package::open(cur).unwrap();
            let r = pkg.summary_info().creation_time().unwrap();
            let (a, b) = secs_nanos_of(r);
            format!("{a} {b}")
        }
        _ => "bad-request".to_string(),
    })
}

pub fn exec_file(req: &str, out: &str) {
    let f = BufReader::new(fs::File::open(req).expect("open requests"));
    let mut w = BufWriter::new(fs::File::create(out).expect("create replies"));
    let mut sess = Session::new();
    for line in f.lines() {
        let line = line.expect("read line");
        let r = exec_line(&mut sess, &line);
        writeln!(w, "{}", r).unwrap();
    }
    w.flush().unwrap();
}

/// write `data` as three slices (2 bytes, the middle, the last byte) with `write_vectored`,
/// advancing by the returned count until everything has been taken
pub fn write_vectored_all<W: std::io::Write>(w: &mut W, data: &[u8]) -> std::io::Result<()> {
    let cuts = [0usize, 2.min(data.len()), data.len().saturating_sub(1).max(2.min(data.len())), data.len()];
    let mut off = 0usize;
    let mut spins = 0usize;
    while off < data.len() {
        let mut slices: Vec<std::io::IoSlice> = vec![];
        for k in 0..3 {
            let (a, b) = (cuts[k].max(off), cuts[k + 1]);
            if a < b {
                slices.push(std::io::IoSlice::new(&data[a..b]));
            }
        }
        let n = w.write_vectored(&slices)?;
        if n == 0 {
            return Err(std::io::Error::new(std::io::ErrorKind::WriteZero, "write_vectored took nothing"));
        }
        off += n;
        spins += 1;
        if spins > data.len() + 8 {
            break;
        }
    }
    Ok(())
}

/// a package kept in a FILE: created through `Package::create` on a file, edited in a second
/// session through the free function `msi::open_rw`, read in a third through `msi::open`
pub fn file_edit(k: usize) -> String {
    use std::io::Read;
    let path = std::env::temp_dir().join(format!("msi_verif_file_edit_{}_{}.msi", std::process::id(), k));
    let t0 = UNIX_EPOCH - Duration::from_secs(14_182_981) + Duration::from_nanos(999_999_500);
    let t1 = UNIX_EPOCH + Duration::from_secs(1_489_862_796 + k as u64) + Duration::from_nanos(123_456_700);
    let run = || -> Result<Vec<String>, String> {
        let step = |w: &str, e: std::io::Error| format!("err:{}:{}", w, crate::session::kind_name(&e));
        {
            let file = fs::OpenOptions::new().read(true).write(true).create(true).truncate(true).open(&path).map_err(|e| step("create-file", e))?;
            let mut p = msi::Package::create([msi::PackageType::Installer, msi::PackageType::Patch, msi::PackageType::Transform][k % 3], file).map_err(|e| step("create", e))?;
            p.summary_info_mut().set_author("first");
            if k % 2 == 0 {
                p.summary_info_mut().set_creation_time(t0);
            }
            p.create_table("T", vec![msi::Column::build("K").primary_key().int16(), msi::Column::build("V").nullable().string(0)]).map_err(|e| step("create_table", e))?;
            p.insert_rows(msi::Insert::into("T").row(vec![msi::Value::Int(1), msi::Value::from("one")])).map_err(|e| step("insert-1", e))?;
            p.write_stream("bin").and_then(|mut w| w.write_all(&[1, 2, 3]).and_then(|_| w.flush())).map_err(|e| step("write_stream-1", e))?;
            if k % 2 == 1 {
                p.flush().map_err(|e| step("flush-1", e))?;
            }
        }
        let longer: Vec<u8> = (0..(5000 + 37 * k)).map(|i| (i % 251) as u8).collect();
        {
            let mut p = msi::open_rw(&path).map_err(|e| step("open_rw", e))?;
            match k % 3 {
                2 => p.summary_info_mut().clear_creation_time(),
                _ => p.summary_info_mut().set_creation_time(t1),
            }
            p.summary_info_mut().set_author("second");
            p.insert_rows(msi::Insert::into("T").row(vec![msi::Value::Int(2), msi::Value::from("two")])).map_err(|e| step("insert-2", e))?;
            p.write_stream("bin").and_then(|mut w| w.write_all(&longer).and_then(|_| w.flush())).map_err(|e| step("write_stream-2", e))?;
            match (k / 3) % 3 {
                0 => p.flush().map_err(|e| step("flush-2", e))?,
                1 => {
                    let _file = p.into_inner().map_err(|e| step("into_inner-2", e))?;
                }
                _ => {}
            }
        }
        let mut bad = vec![];
        let mut p = msi::open(&path).map_err(|e| step("open", e))?;
        let want_t = if k % 3 == 2 { None } else { Some(t1) };
        if p.summary_info().creation_time() != want_t {
            bad.push(format!("creation-time={:?}", p.summary_info().creation_time()));
        }
        if p.summary_info().author() != Some("second") {
            bad.push(format!("author={:?}", p.summary_info().author()));
        }
        let rows: Vec<String> = p.select_rows(msi::Select::table("T")).map_err(|e| step("select", e))?.map(|r| format!("{:?}/{:?}", r[0], r["V"])).collect();
        if rows != vec!["Int(1)/Str(\"one\")".to_string(), "Int(2)/Str(\"two\")".to_string()] {
            bad.push(format!("rows={}", rows.join(";")));
        }
        let mut got = vec![];
        p.read_stream("bin").and_then(|mut r| r.read_to_end(&mut got)).map_err(|e| step("read_stream", e))?;
        if got != longer {
            bad.push(format!("stream-length={}", got.len()));
        }
        Ok(bad)
    };
    let out = match run() {
        Ok(bad) if bad.is_empty() => "ok".to_string(),
        Ok(bad) => format!("mismatch:{}", bad.join(",").replace(' ', "_")),
        Err(e) => e,
    };
    let _ = fs::remove_file(&path);
    out
}

/// finding D27: a mutating call whose medium refuses the write (a package opened read-only through
/// `msi::open`) returns the error - and leaves the session's string pool changed, so that the next
/// select shows cells the table never held
pub fn readonly_file_mutation(k: usize) -> String {
    let path = std::env::temp_dir().join(format!("msi_verif_ro_mut_{}_{}.msi", std::process::id(), k));
    let run = || -> Result<String, String> {
        let step = |w: &str, e: std::io::Error| format!("err:{}:{}", w, crate::session::kind_name(&e));
        {
            let file = fs::OpenOptions::new().read(true).write(true).create(true).truncate(true).open(&path).map_err(|e| step("create-file", e))?;
            let mut p = msi::Package::create(msi::PackageType::Installer, file).map_err(|e| step("create", e))?;
            p.create_table("T", vec![msi::Column::build("K").primary_key().id_string(16), msi::Column::build("V").nullable().string(16)]).map_err(|e| step("create_table", e))?;
            p.insert_rows(msi::Insert::into("T").row(vec![msi::Value::from("a"), msi::Value::from("x")]).row(vec![msi::Value::from("b"), msi::Value::from("y")])).map_err(|e| step("insert", e))?;
            p.flush().map_err(|e| step("flush", e))?;
        }
        let mut p = msi::open(&path).map_err(|e| step("open", e))?;
        let show = |p: &mut msi::Package<fs::File>| -> String {
            match p.select_rows(msi::Select::table("T")) {
                Ok(rows) => rows.map(|r| format!("{:?}/{:?}", r[0], r[1])).collect::<Vec<_>>().join(";"),
                Err(e) => format!("select-err:{}", crate::session::kind_name(&e)),
            }
        };
        let before = show(&mut p);
        let res = match k % 3 {
            0 => p.delete_rows(msi::Delete::from("T").with(msi::Expr::col("K").eq(msi::Expr::string("a")))),
            1 => p.update_rows(msi::Update::table("T").set("V", msi::Value::from("zzz"))),
            _ => p.insert_rows(msi::Insert::into("T").row(vec![msi::Value::from("c"), msi::Value::from("q")])),
        };
        let after = show(&mut p);
        let what = ["delete_rows", "update_rows", "insert_rows"][k % 3];
        Ok(match res {
            Ok(()) => format!("accepted:{what}"),
            Err(_) if before == after => "ok".to_string(),
            Err(e) => format!("changed:{what}:err={}:before={}:after={}", crate::session::kind_name(&e), before, after).replace(' ', "_"),
        })
    };
    let out = run().unwrap_or_else(|e| e);
    let _ = fs::remove_file(&path);
    out
}
