#!/usr/bin/env python3
"""Orchestrator of the Lean-4 proof machinery for mdsteele/rust-msi.

  check.py setup                     build everything once (translator, Lean, harness)
  check.py <Cxx> quick|thorough      decide one property on /repo's current working tree
  check.py replay <path>             re-run a replay file on the real crate and the model

A property check does, in order (see DESIGN.md section 3.2):
  1. translator: regenerate lean/MsiModel/Gen/*.lean from /repo's source
  2. lake build of the property's theorem module + driver; axiom audit; forbidden-token grep
  3. cargo build of the correspondence harness against /repo's working tree
  4. generate requests (seeded), run them on the REAL crate and on the Lean driver, diff
  5. property oracle on the real replies
  6. verdict: exit 0, or `VIOLATION property=<id> replay=<path>` + exit 1
  7. evidence/<id>.json
"""
import fcntl
import json
import os
import re
import shutil
import subprocess
import sys
import time

ROOT = os.path.dirname(os.path.abspath(__file__))
REPO = os.environ.get("VERIF_REPO", "/repo")
LEAN = os.path.join(ROOT, "lean")
HARNESS = os.path.join(ROOT, "harness")
WORK = os.path.join(ROOT, "work")
DRIVER = os.path.join(LEAN, ".lake", "build", "bin", "msidriver")
ALLOWED_AXIOMS = {"propext", "Classical.choice", "Quot.sound"}
FORBIDDEN = re.compile(r"\bsorry\b|\badmit\b|^\s*axiom\s|native_decide|bv_decide|implemented_by|\bunsafe\s|maxHeartbeats\s+0")

sys.path.insert(0, ROOT)
from props import PROPS  # noqa: E402


def log(msg):
    print("[check] " + msg, flush=True)


def run(cmd, cwd=None, env=None, timeout=None, stdin=None, stdout=None):
    e = dict(os.environ)
    e["CARGO_NET_OFFLINE"] = "true"
    if env:
        e.update(env)
    t0 = time.time()
    p = subprocess.run(cmd, cwd=cwd, env=e, timeout=timeout, stdin=stdin,
                       stdout=stdout if stdout is not None else subprocess.PIPE,
                       stderr=subprocess.STDOUT if stdout is None else subprocess.PIPE, text=True)
    return p.returncode, (p.stdout or "") if stdout is None else (p.stderr or ""), time.time() - t0


class BuildLock:
    def __enter__(self):
        self.f = open(os.path.join(ROOT, ".build.lock"), "w")
        fcntl.flock(self.f, fcntl.LOCK_EX)
        return self

    def __exit__(self, *a):
        fcntl.flock(self.f, fcntl.LOCK_UN)
        self.f.close()


# --------------------------------------------------------------------------------------
# steps

def step_extract(names):
    cmd = [sys.executable, os.path.join(ROOT, "tools", "extract.py"), REPO,
           os.path.join(LEAN, "MsiModel", "Gen")]
    if names:
        cmd += ["--only", ",".join(names)]
    rc, out, _ = run(cmd)
    failed = re.findall(r"EXTRACT-FAIL (\S+): (.*)", out)
    updated = re.findall(r"EXTRACT-UPDATED (\S+)", out)
    return failed, updated, out


def strip_lean_comments(text):
    # remove /- ... -/ (nested) and -- comments, keeping string literals intact enough for a grep
    out = []
    i, n, depth = 0, len(text), 0
    while i < n:
        if text.startswith("/-", i):
            depth += 1
            i += 2
        elif depth and text.startswith("-/", i):
            depth -= 1
            i += 2
        elif depth:
            i += 1
        elif text.startswith("--", i):
            j = text.find("\n", i)
            i = n if j < 0 else j
        else:
            out.append(text[i])
            i += 1
    return "".join(out)


def step_grep_forbidden():
    hits = []
    for base in ("MsiModel", "MsiProofs"):
        for d, _, files in os.walk(os.path.join(LEAN, base)):
            for f in files:
                if f.endswith(".lean"):
                    p = os.path.join(d, f)
                    txt = strip_lean_comments(open(p, encoding="utf-8").read())
                    for ln, line in enumerate(txt.split("\n"), 1):
                        if FORBIDDEN.search(line):
                            hits.append("%s:%d: %s" % (os.path.relpath(p, LEAN), ln, line.strip()))
    p = os.path.join(LEAN, "Driver.lean")
    return hits


def step_lake(targets):
    rc, out, dt = run(["lake", "build"] + targets, cwd=LEAN, timeout=3600)
    return rc, out, dt


def step_audit(prop, theorems, module):
    """#print axioms for every property theorem; returns (ok_list, bad_list, raw)."""
    os.makedirs(os.path.join(LEAN, "MsiProofs", "Audit"), exist_ok=True)
    path = os.path.join(LEAN, "MsiProofs", "Audit", prop + ".lean")
    lines = ["import %s" % module]
    for t in theorems:
        lines.append("#print axioms %s" % t)
    open(path, "w").write("\n".join(lines) + "\n")
    rc, out, dt = run(["lake", "env", "lean", path], cwd=LEAN, timeout=1800)
    ok, bad = [], []
    # output: "'name' depends on axioms: [a, b]" or "'name' does not depend on any axioms"
    flat = re.sub(r"\s+", " ", out)
    for t in theorems:
        m = re.search(r"'%s' (does not depend on any axioms|depends on axioms: \[([^\]]*)\])" % re.escape(t), flat)
        if not m:
            bad.append((t, "no #print axioms output (theorem missing or file failed)"))
            continue
        axs = set(a.strip() for a in (m.group(2) or "").split(",") if a.strip())
        extra = axs - ALLOWED_AXIOMS
        if extra:
            bad.append((t, "depends on non-whitelisted axioms: %s" % ", ".join(sorted(extra))))
        else:
            ok.append((t, sorted(axs)))
    return ok, bad, out


def step_cargo(profile):
    cmd = ["cargo", "build", "--offline", "--quiet"]
    if profile == "release":
        cmd.append("--release")
    rc, out, dt = run(cmd, cwd=HARNESS, timeout=3600,
                      env={})
    return rc, out, dt


def harness_bin(profile):
    return os.path.join(HARNESS, "target", "release" if profile == "release" else "debug",
                        "msi_verif_harness")


def run_driver(req_path, out_path, profile):
    with open(req_path) as fin, open(out_path, "w") as fout:
        p = subprocess.run([DRIVER, "--profile", profile], stdin=fin, stdout=fout,
                           stderr=subprocess.PIPE, text=True)
    return p.returncode, p.stderr


UNMODELLED_SKIPPED = [0]


def diff_replies(req_path, real_path, model_path, limit=20):
    mism = []
    n = 0
    skip_session = False
    with open(req_path) as fq, open(real_path) as fr, open(model_path) as fm:
        for i, (q, r, m) in enumerate(zip_strict(fq, fr, fm), 1):
            n += 1
            if q.startswith("@"):
                continue      # oracle-only request (not executed by the model)
            if q.startswith("new ") or q.startswith("load "):
                skip_session = False
            if "UNMODELLED" in m:
                # the model does not cover this input (non-ASCII text under a table-backed code
                # page): the rest of the session is decided by the oracle on the real code only
                skip_session = True
            if skip_session:
                UNMODELLED_SKIPPED[0] += 1
                continue
            if m.rstrip("\n") == "unmodelled":
                # a single stateless request outside the model (printing a literal that needs
                # Rust's escape_debug): decided by the oracle (the reference reader) only
                UNMODELLED_SKIPPED[0] += 1
                continue
            if r != m:
                if len(mism) < limit:
                    mism.append({"line": i, "request": q.rstrip("\n"), "real": r.rstrip("\n"),
                                 "model": m.rstrip("\n")})
                else:
                    mism.append(None)
    total = len(mism)
    return n, total, [x for x in mism if x]


def zip_strict(*its):
    its = [iter(x) for x in its]
    while True:
        vals = []
        done = 0
        for it in its:
            try:
                vals.append(next(it))
            except StopIteration:
                done += 1
                vals.append(None)
        if done == len(its):
            return
        if done:
            # unequal lengths: report as mismatch on a synthetic line
            yield tuple(v if v is not None else "<missing>\n" for v in vals)
        else:
            yield tuple(vals)


def load_known():
    p = os.path.join(ROOT, "known_findings.json")
    if not os.path.exists(p):
        return []
    return json.load(open(p)).get("findings", [])


def match_known(known, prop, item):
    """item: dict with request / why / real.  Returns the known entry or None."""
    for k in known:
        if k.get("property") != prop or k.get("kind") != "known":
            continue
        m = k.get("match", {})
        ok = True
        for key, field in (("request_regex", "request"), ("why_regex", "why"), ("reply_regex", "reply")):
            if key in m and not re.search(m[key], item.get(field, "") or ""):
                ok = False
        if ok:
            return k
    return None


# --------------------------------------------------------------------------------------

def check(prop, tier):
    cfg = PROPS[prop]
    seed = int(os.environ.get("VERIF_SEED", "1"))
    tier = os.environ.get("VERIF_TIER", tier) if tier is None else tier
    t0 = time.time()
    work = os.path.join(WORK, "%s-%s" % (prop, tier))
    shutil.rmtree(work, ignore_errors=True)
    os.makedirs(work, exist_ok=True)
    os.makedirs(os.path.join(ROOT, "replays"), exist_ok=True)
    os.makedirs(os.path.join(ROOT, "evidence"), exist_ok=True)
    known = load_known()
    broken = []       # list of dicts describing broken ties / obligations (no concrete input yet)
    notes = []
    profiles = cfg.get("profiles", ["dev"])

    # ---- 1-3: builds, under the lock
    with BuildLock():
        # every Gen file is regenerated (the driver links all of them); only failures of the
        # extractors this property's theorems consume count against its translator tie
        failed_all, updated, ex_out = step_extract([])
        failed = [f for f in failed_all if f[0] in cfg.get("gen", [])]
        translator_ok = not failed
        for name, why in failed:
            notes.append("translator: extractor %s failed (%s); committed Gen file kept, "
                         "correspondence is the remaining tie" % (name, why))
            log("translator: %s FAILED: %s" % (name, why))
        if updated:
            log("translator: regenerated %s" % ", ".join(updated))
        hits = step_grep_forbidden()
        if hits:
            broken.append({"kind": "forbidden-token", "detail": hits})
        rc, out, dt = step_lake([cfg["module"], "msidriver"])
        log("lake build %s msidriver: rc=%d (%.1fs)" % (cfg["module"], rc, dt))
        lean_ok = rc == 0
        lean_errors = []
        if not lean_ok:
            lean_errors = re.findall(r"error: ([^\n]*(?:\n(?!\S*(?:error|warning|info):)[^\n]*){0,6})", out)
            open(os.path.join(work, "lake.log"), "w").write(out)
            broken.append({"kind": "lean-build", "module": cfg["module"],
                           "detail": [e.strip()[:600] for e in lean_errors[:8]] or [out[-1500:]]})
        ok_thms, bad_thms = [], []
        if lean_ok:
            ok_thms, bad_thms, audit_raw = step_audit(prop, cfg["theorems"], cfg["module"])
            if bad_thms:
                open(os.path.join(work, "audit.log"), "w").write(audit_raw)
                broken.append({"kind": "axiom-audit", "detail": ["%s: %s" % b for b in bad_thms]})
        driver_ok = os.path.exists(DRIVER) and (lean_ok or driver_builds())
        cargo_ok = True
        for prof in profiles:
            rc, out, dt = step_cargo(prof)
            log("cargo build harness (%s): rc=%d (%.1fs)" % (prof, rc, dt))
            if rc != 0:
                cargo_ok = False
                open(os.path.join(work, "cargo-%s.log" % prof), "w").write(out)
                broken.append({"kind": "harness-build", "profile": prof, "detail": [out[-2000:]]})

    # ---- 4-5: cases
    evaluations = 0
    oracle_fail = []      # concrete failing inputs on the real code
    mismatches = []       # model/real disagreements
    gen_stats = {}
    oracle_stats = {}
    n_diffed = 0
    if cargo_ok:
        req = os.path.join(work, "requests.txt")
        rc, out, dt = run([harness_bin(profiles[0]), "gen", prop, tier, str(seed), work])
        if rc != 0:
            broken.append({"kind": "generator", "detail": [out[-1000:]]})
        else:
            gen_stats = json.load(open(os.path.join(work, "gen_stats.json")))
            log("generated %d requests (%.1fs)" % (gen_stats["requests"], dt))
            for prof in profiles:
                real = os.path.join(work, "real-%s.txt" % prof)
                rc, out, dt = run([harness_bin(prof), "exec", req, real], timeout=7200)
                log("real crate (%s) executed: rc=%d (%.1fs)" % (prof, rc, dt))
                if rc != 0:
                    broken.append({"kind": "harness-exec", "profile": prof, "detail": [out[-1000:]]})
                    continue
                evaluations += gen_stats["requests"]
                orc = os.path.join(work, "oracle-%s.json" % prof)
                rc, out, dt = run([harness_bin(prof), "oracle", prop, req, real, orc], timeout=7200)
                if rc != 0:
                    broken.append({"kind": "oracle-run", "profile": prof, "detail": [out[-1000:]]})
                else:
                    o = json.load(open(orc))
                    oracle_stats[prof] = {k: o[k] for k in ("checked", "distinct_nontrivial", "failures")}
                    if o["checked"] > gen_stats["requests"]:
                        evaluations += o["checked"] - gen_stats["requests"]   # in-process sweeps
                    for f in o["first"]:
                        f["profile"] = prof
                        oracle_fail.append(f)
                    log("oracle (%s): %d checked, %d failures (%.1fs)" % (prof, o["checked"], o["failures"], dt))
                if driver_ok:
                    model = os.path.join(work, "model-%s.txt" % prof)
                    t1 = time.time()
                    rc, err = run_driver(req, model, prof)
                    if rc != 0:
                        broken.append({"kind": "driver-run", "detail": [err[-1000:]]})
                    else:
                        n, total, mm = diff_replies(req, real, model)
                        n_diffed += n
                        log("model driver (%s): %d replies, %d disagreements (%.1fs)" % (prof, n, total, time.time() - t1))
                        for m in mm:
                            m["profile"] = prof
                        mismatches += mm
                        if total:
                            broken.append({"kind": "correspondence", "profile": prof, "count": total})
                else:
                    notes.append("driver not available (Lean build failed); correspondence not run")

    # ---- 6: verdict
    violations = []   # (replay_path, suffix)
    known_hits = []
    seen_known = set()

    def emit_replay(name, payload):
        path = os.path.join(ROOT, "replays", name)
        json.dump(payload, open(path, "w"), indent=1)
        return path

    new_oracle = []
    for f in oracle_fail:
        k = match_known(known, prop, f)
        if k:
            if k["id"] not in seen_known:
                seen_known.add(k["id"])
                known_hits.append(k)
        else:
            new_oracle.append(f)
    if new_oracle:
        f = new_oracle[0]
        path = emit_replay("%s-seed%d-oracle.json" % (prop, seed), {
            "property": prop, "kind": "property-fails-on-real-code", "profile": f.get("profile"),
            "requests": [f["request"]], "real_reply": f["reply"], "why": f["why"],
            "more": new_oracle[1:10], "broken": broken})
        violations.append((path, ""))
    elif broken:
        # a proof obligation or the correspondence no longer checks; the oracle found no failing input
        real_broken = [b for b in broken]
        # mismatches that coincide with known findings do not count
        mm_new = []
        for m in mismatches:
            item = {"request": m["request"], "reply": m["real"], "why": "correspondence"}
            k = match_known(known, prop, item)
            if k:
                if k["id"] not in seen_known:
                    seen_known.add(k["id"])
                    known_hits.append(k)
            else:
                mm_new.append(m)
        if mismatches and not mm_new:
            real_broken = [b for b in real_broken if b["kind"] != "correspondence"]
        if real_broken:
            path = emit_replay("%s-seed%d-broken.json" % (prop, seed), {
                "property": prop, "kind": "obligation-or-correspondence-no-longer-checks",
                "broken": real_broken, "disagreements": mm_new[:10],
                "requests": [m["request"] for m in mm_new[:10]],
                "note": "no input was found on which the property itself fails on the real code"})
            violations.append((path, " no-failing-input-found"))

    # ---- 7: evidence
    wall = time.time() - t0
    obligations = len(cfg["theorems"])
    discharged = len(ok_thms) if lean_ok else 0
    dn = sum(v["distinct_nontrivial"] for v in oracle_stats.values()) if oracle_stats else 0
    ev = {
        "property_id": prop,
        "tier": tier,
        "seed": seed,
        "level": "proof",
        "coverage": {
            "obligations": obligations,
            "discharged": discharged,
            "checker_cmd": "cd lean && lake build %s && lake env lean MsiProofs/Audit/%s.lean  (#print axioms on every obligation; whitelist propext, Classical.choice, Quot.sound)" % (cfg["module"], prop),
            "trusted_base": cfg.get("trusted_base", []) + [
                "Lean 4.33.0 kernel",
                "axioms: " + ", ".join(sorted(set(a for _, axs in ok_thms for a in axs)) or ["none"]),
                "translator tools/extract.py (%s)" % ("ran on current source" if translator_ok else "FAILED on current source; committed tables used"),
                "correspondence harness (this run: %d replies compared, %d disagreements)" % (n_diffed, len(mismatches)),
            ],
            "theorems": [t for t, _ in ok_thms],
            "undischarged": ["%s: %s" % b for b in bad_thms] + ([] if lean_ok else ["lake build failed"]),
            "evaluations": evaluations,
            "distinct_nontrivial": dn,
            "traces_validated_against_impl": n_diffed,
            "rule": cfg.get("rule", ""),
            "samples": gen_stats.get("samples", [])[:8],
            "distribution": gen_stats.get("kinds", {}),
            "exhaustive_parts": gen_stats.get("exhaustive_parts", []),
            "oracle": oracle_stats,
            "model_vs_real_disagreements": len(mismatches),
            "requests_outside_the_model_oracle_only": UNMODELLED_SKIPPED[0],
            "oracle_failures_on_real_code": len(oracle_fail),
            "known_findings_hit": [k["id"] for k in known_hits],
            "exhaustive": bool(cfg.get("exhaustive", False)),
            "notes": notes,
            "profiles": profiles,
        },
        "assumptions": cfg.get("assumptions", []),
        "wall_s": round(wall, 2),
        "violations": len(violations),
    }
    json.dump(ev, open(os.path.join(ROOT, "evidence", prop + ".json"), "w"), indent=1)

    for k in known_hits:
        print("KNOWN-FINDING: property=%s %s" % (prop, k["what"]), flush=True)
    if violations:
        for path, suffix in violations:
            print("VIOLATION property=%s replay=%s%s" % (prop, path, suffix), flush=True)
        return 1
    # the protocol transcripts of a run that found nothing are of no further use (replays carry
    # their own requests); they can be gigabytes in the thorough tier
    for f in os.listdir(work):
        if f == "requests.txt" or f.startswith("real-") or f.startswith("model-"):
            try:
                if os.path.getsize(os.path.join(work, f)) > (64 << 20):
                    os.remove(os.path.join(work, f))
            except OSError:
                pass
    log("%s %s: OK  (%d/%d obligations, %d replies compared, %.1fs)" % (prop, tier, discharged, obligations, n_diffed, wall))
    return 0


def driver_builds():
    rc, _, _ = step_lake(["msidriver"])
    return rc == 0


def setup():
    with BuildLock():
        failed, updated, out = step_extract([])
        print(out, end="")
        rc, out, dt = step_lake([])
        print(out[-3000:])
        if rc != 0:
            return 1
        for prof in sorted(set(p for c in PROPS.values() for p in c.get("profiles", ["dev"]))):
            rc, out, dt = step_cargo(prof)
            print("cargo %s rc=%d %.1fs" % (prof, rc, dt))
            if rc != 0:
                print(out[-3000:])
                return 1
    return 0


def replay(path):
    data = json.load(open(path))
    prop = data["property"]
    cfg = PROPS[prop]
    work = os.path.join(WORK, "replay")
    os.makedirs(work, exist_ok=True)
    reqs = data.get("requests", [])
    req = os.path.join(work, "requests.txt")
    open(req, "w").write("".join(r + "\n" for r in reqs))
    prof = data.get("profile") or cfg.get("profiles", ["dev"])[0]
    with BuildLock():
        step_extract([])
        step_lake(["msidriver"])
        step_cargo(prof)
    real = os.path.join(work, "real.txt")
    run([harness_bin(prof), "exec", req, real])
    model = os.path.join(work, "model.txt")
    run_driver(req, model, prof)
    orc = os.path.join(work, "oracle.json")
    run([harness_bin(prof), "oracle", prop, req, real, orc])
    for q, r, m in zip(reqs, open(real).read().split("\n"), open(model).read().split("\n")):
        print("request: %s\n  real : %s\n  model: %s" % (q, r, m))
    o = json.load(open(orc))
    print("oracle failures on the real code: %d" % o["failures"])
    for f in o["first"]:
        print("  %s -> %s : %s" % (f["request"], f["reply"], f["why"]))
    if data.get("broken"):
        print("broken obligations/ties recorded in the replay:")
        for b in data["broken"]:
            print("  " + json.dumps(b)[:800])
    return 1 if o["failures"] else 0


def main(argv):
    if len(argv) >= 2 and argv[1] == "setup":
        return setup()
    if len(argv) >= 3 and argv[1] == "replay":
        return replay(argv[2])
    if len(argv) >= 3 and argv[1] in PROPS:
        return check(argv[1], argv[2])
    print(__doc__)
    return 2


if __name__ == "__main__":
    sys.exit(main(sys.argv))
