#!/bin/bash
# Source coverage of /repo/src by the correspondence harness (informational; not a registered check).
# Builds the harness with -C instrument-coverage on the nightly toolchain into a scratch target
# directory, runs the quick-tier requests of every property on the real crate, and writes
#   /verif/coverage/summary.txt   per-file line/region coverage of the crate's sources
#   /verif/coverage/uncovered.txt source lines of src/ never executed by any property's requests
# usage: tools/coverage.sh [tier]
set -u
TIER=${1:-quick}
T=/tmp/msi_cov
BIN=/root/.rustup/toolchains/nightly-x86_64-unknown-linux-gnu/lib/rustlib/x86_64-unknown-linux-gnu/bin
rm -rf $T; mkdir -p $T/prof $T/work
cd /verif/harness
LLVM_PROFILE_FILE=$T/prof/build-%p.profraw CARGO_NET_OFFLINE=true CARGO_TARGET_DIR=$T/target RUSTFLAGS="--cfg msi_verif -Awarnings -C instrument-coverage" \
  cargo +nightly build --offline --quiet || { echo "coverage build failed"; exit 2; }
H=$T/target/debug/msi_verif_harness
for p in C01 C02 C03 C04 C05 C06 C07 C08 C09 C10 C11 C12 C13 C14 C15 C16 C17 C18 C19 C20; do
  mkdir -p $T/work/$p
  LLVM_PROFILE_FILE=$T/prof/gen-$p.profraw $H gen $p $TIER 1 $T/work/$p >/dev/null 2>&1
  LLVM_PROFILE_FILE=$T/prof/exec-$p.profraw $H exec $T/work/$p/requests.txt $T/work/$p/real.txt >/dev/null 2>&1
  rm -rf $T/work/$p
  echo "ran $p"
done
$BIN/llvm-profdata merge -sparse $T/prof/exec-*.profraw -o $T/all.profdata
mkdir -p /verif/coverage
$BIN/llvm-cov report $H -instr-profile=$T/all.profdata /repo/src 2>/dev/null | sed 's#/repo/##' > /verif/coverage/summary.txt
$BIN/llvm-cov show $H -instr-profile=$T/all.profdata /repo/src -show-line-counts-or-regions=false 2>/dev/null \
  | python3 -c '
import sys,re
cur=None
for line in sys.stdin:
    line=line.rstrip("\n")
    if line.startswith("/repo/src") and line.endswith(":"):
        cur=line[6:-1]; continue
    m=re.match(r"\s*(\d+)\|\s*(\d+[kMG.]*\d*|)\|(.*)",line)
    if m and cur and m.group(2)=="0":
        print("%s:%s: %s"%(cur,m.group(1),m.group(3)))
' > /verif/coverage/uncovered.txt
rm -rf $T
tail -3 /verif/coverage/summary.txt; wc -l /verif/coverage/uncovered.txt
