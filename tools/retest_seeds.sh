#!/bin/bash
# usage: retest_seeds.sh <seed-id>...   -- re-run the quick check of each seed's property against it
for id in "$@"; do
  /verif/tools/try_seed.sh /verif/seeded/$id/patch.diff ${id%-*} quick
done
