#!/bin/bash
# usage: try_seed.sh <patchfile> <prop> [tier]   -- applies a seeded change to /repo, runs the check, undoes it
patch=$1; prop=$2; tier=${3:-quick}
cd /repo || exit 2
if ! git apply --check "$patch" 2>/dev/null; then echo "SEED $patch: does not apply"; exit 2; fi
git apply "$patch"
out=$(cd /verif && ./check.py $prop $tier 2>&1)
rc=$?
git -C /repo checkout -- .
echo "SEED $(basename $(dirname $patch))/$(basename $patch) on $prop ($tier): rc=$rc $(echo "$out" | grep -E 'VIOLATION|KNOWN|OK ' | tr '\n' ' ' | cut -c1-300)"
