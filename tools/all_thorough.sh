#!/bin/bash
# run every property's thorough check on the current tree; prints one line per property with the wall time
cd /verif
for i in $(seq -w 1 20); do
  p=C$i
  t0=$(date +%s)
  out=$(./check.py $p thorough 2>&1); rc=$?
  t1=$(date +%s)
  echo "$p rc=$rc $((t1-t0))s $(echo "$out" | grep -E 'VIOLATION|KNOWN-FINDING|thorough: OK' | tr '\n' ' ' | cut -c1-200)"
done
