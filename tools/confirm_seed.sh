#!/bin/bash
# usage: confirm_seed.sh <dir with patch.diff demo.rs meta.json> <seed id>
# Confirms a seeded change independently in a fresh scratch worktree of /repo:
#   demo passes on the unchanged tree; with the patch the existing suite passes and the demo fails.
# On success copies the three files to /verif/seeded/<id>/ ; always removes the worktree.
src=$1; id=$2
wt=/tmp/confirm_$id
export CARGO_NET_OFFLINE=true
git -C /repo worktree remove --force $wt >/dev/null 2>&1
git -C /repo worktree add --detach $wt HEAD >/dev/null 2>&1 || { echo "CONFIRM $id: cannot create worktree"; exit 2; }
trap 'git -C /repo worktree remove --force '$wt' >/dev/null 2>&1; rm -rf '$wt'' EXIT
cd $wt
if ! git apply --check $src/patch.diff 2>/dev/null; then echo "CONFIRM $id: patch does not apply"; exit 2; fi
if git apply --numstat $src/patch.diff | awk '{print $3}' | grep -Eqv '^(src|ffi/src)/'; then echo "CONFIRM $id: patch touches files outside src/"; exit 2; fi
cp $src/demo.rs tests/seed_demo.rs
a=$(cargo test --offline --test seed_demo 2>&1 | grep -E '^test result' | tr '\n' ' ')
case "$a" in *"0 failed"*) ;; *) echo "CONFIRM $id: demo does not pass on the unchanged tree: $a"; exit 2;; esac
git apply $src/patch.diff
rm tests/seed_demo.rs
b=$(cargo test --offline --workspace 2>&1 | grep -E '^test result|^error' | grep -v ' 0 failed' | tr '\n' ' ')
if [ -n "$b" ]; then echo "CONFIRM $id: existing suite fails with the patch: $b"; exit 2; fi
cp $src/demo.rs tests/seed_demo.rs
c=$(cargo test --offline --test seed_demo 2>&1 | grep -E '^test result' | tr '\n' ' ')
case "$c" in *" 0 failed"*|"") echo "CONFIRM $id: demo does not fail with the patch: $c"; exit 2;; esac
mkdir -p /verif/seeded/$id
cp $src/patch.diff $src/demo.rs /verif/seeded/$id/
python3 - $src/meta.json /verif/seeded/$id/meta.json $id "$a" "$c" <<'PY'
import json,sys
m=json.load(open(sys.argv[1])); id=sys.argv[3]
m['id']=id; m['property']=id.split('-')[0]
m['confirmed']="in a fresh scratch worktree of /repo HEAD (tools/confirm_seed.sh): demo.rs as tests/seed_demo.rs passes on the unchanged tree (%s); with patch.diff applied cargo test --offline --workspace passes and the demo fails (%s)" % (sys.argv[4].strip(), sys.argv[5].strip())
m['ran']="tools/try_seed.sh seeded/%s/patch.diff %s  (git -C /repo apply; ./check.py %s quick; git -C /repo checkout -- .)" % (id, m['property'], m['property'])
json.dump(m,open(sys.argv[2],'w'),indent=1)
PY
echo "CONFIRM $id: ok  (unchanged: $a | patched: $c)"
