#!/usr/bin/env python3
"""Regenerate MANIFEST.json from props.py (claimed checks) and properties.jsonl."""
import json, os, sys
ROOT = os.path.dirname(os.path.dirname(os.path.abspath(__file__)))
sys.path.insert(0, ROOT)
from props import PROPS, NOT_CLAIMED

ids = [json.loads(l)["id"] for l in open(os.path.join(ROOT, "properties.jsonl")) if l.strip()]
checks = []
for pid in ids:
    if pid not in PROPS:
        continue
    c = PROPS[pid]
    checks.append({
        "property_id": pid,
        "quick_cmd": "./check.py %s quick" % pid,
        "thorough_cmd": "./check.py %s thorough" % pid,
        "evidence_file": "/verif/evidence/%s.json" % pid,
        "replay_cmd_template": "./check.py replay {path}",
        "engine": "lean4-proof+correspondence",
        "level_claimed": {"category": "proof", "text": c["level_text"], "design_ref": c.get("design_ref", "DESIGN.md section 6 (%s)" % pid)},
        "level_note": c["level_note"],
        "technique": c["technique"],
    })
na = [{"property_id": pid, "reason": NOT_CLAIMED.get(pid, "not yet claimed: model and theorems for this property are not built yet (see DESIGN.md section 9)")}
      for pid in ids if pid not in PROPS]
m = {
    "version": 1,
    "setup_cmd": "./check.py setup",
    "hooks": {"guard": "msi_verif",
              "enable": "RUSTFLAGS='--cfg msi_verif' (set by check.py when it builds the harness against /repo)",
              "baseline_off_cmd": "cd /repo && cargo test --workspace --no-fail-fast --offline",
              "source_commits": ["d7f47d1", "ea41b5d"], "add_only": True},
    "engines": [{"name": "lean4-proof+correspondence", "path": "check.py",
                 "serves_properties": [c["property_id"] for c in checks],
                 "kind_free_text": "Lean 4 theorems over an executable model (lean/MsiModel, lean/MsiProofs); tables regenerated "
                 "from /repo's source by tools/extract.py on every run; differential correspondence harness (harness/) running the "
                 "real crate and the model's own definitions (lean/Driver.lean) on the same requests; property oracle on the real replies"}],
    "checks": checks,
    "not_applicable": na,
    "notes": "See DESIGN.md. Every check: translator -> lake build of the property's theorems + #print axioms audit -> harness "
             "build against /repo's working tree -> same requests on the real crate and on the Lean driver -> diff + property oracle -> evidence.",
}
json.dump(m, open(os.path.join(ROOT, "MANIFEST.json"), "w"), indent=1)
print("MANIFEST: %d checks, %d not claimed" % (len(checks), len(na)))
