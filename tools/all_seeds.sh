#!/bin/bash
# run every seeded change against the quick check of its property
cd /verif
for d in seeded/*/; do
  id=$(basename $d); prop=${id%-*}
  tools/try_seed.sh /verif/$d/patch.diff $prop quick
done
