#!/bin/bash
# usage: process_seeds.sh <suffix> <prop> [<prop> ...]   e.g. process_seeds.sh 3 C05 C06
# for each property: confirm /tmp/seedwt/<prop> as seed <prop>-<suffix>, then run the property's quick check against it
sfx=$1; shift
for p in "$@"; do
  id=$p-$sfx
  /verif/tools/confirm_seed.sh /tmp/seedwt/$p $id || continue
  /verif/tools/try_seed.sh /verif/seeded/$id/patch.diff $p quick
done
