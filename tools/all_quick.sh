#!/bin/bash
# run every property's quick check on the current tree; prints one line per property
cd /verif
for i in $(seq -w 1 20); do
  p=C$i
  out=$(./check.py $p quick 2>&1); rc=$?
  echo "$p rc=$rc $(echo "$out" | grep -E 'VIOLATION|KNOWN-FINDING|quick: OK' | tr '\n' ' ' | cut -c1-220)"
done
