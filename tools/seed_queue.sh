#!/bin/bash
# serial runner: each line of /tmp/seedwt/queue is "<dir> <seed-id>"; confirm it, then run the property's quick check against it
q=/tmp/seedwt/queue; log=/tmp/seedwt/queue.log; n=0
touch $q
while true; do
  total=$(wc -l < $q)
  if [ $n -lt $total ]; then
    n=$((n+1))
    line=$(sed -n "${n}p" $q); dir=${line% *}; id=${line#* }; p=${id%-*}
    [ "$dir" = "STOP" ] && exit 0
    if /verif/tools/confirm_seed.sh $dir $id >> $log 2>&1; then
      /verif/tools/try_seed.sh /verif/seeded/$id/patch.diff $p quick >> $log 2>&1
    fi
  else
    sleep 15
  fi
done
